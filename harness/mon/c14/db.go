package c14

import (
	"context"
	"errors"
	"fmt"
	"os"
	"path/filepath"
	"runtime/debug"
	"strings"
	"sync/atomic"

	"github.com/codenotary/immudb/embedded/sql"
	"github.com/codenotary/immudb/embedded/store"
	"github.com/codenotary/immudb/pkg/api/protomodel"
	"github.com/codenotary/immudb/pkg/api/schema"
	"github.com/codenotary/immudb/pkg/database"
	"google.golang.org/protobuf/types/known/structpb"

	"verifharness/internal/fw"
	"verifharness/internal/hook"
	"verifharness/internal/sth"
)

// Database level: tables and collections are created first, the value logs are then
// filled beyond the catalog's chunks, rows and documents are written at ids >= the cut,
// the database truncator (catalog copy + TruncateUptoTx) runs, the database restarts;
// SQL SELECT / INSERT and document search / insert must keep working.

type noMultiDB struct{}

func (noMultiDB) ListDatabases(ctx context.Context) ([]string, error) { return nil, sql.ErrNoSupported }
func (noMultiDB) CreateDatabase(ctx context.Context, db string, ifNotExists bool) error {
	return sql.ErrNoSupported
}
func (noMultiDB) UseDatabase(ctx context.Context, db string) error    { return sql.ErrNoSupported }
func (noMultiDB) GetLoggedUser(ctx context.Context) (sql.User, error) { return adminUser{}, nil }
func (noMultiDB) ListUsers(ctx context.Context) ([]sql.User, error)   { return nil, sql.ErrNoSupported }
func (noMultiDB) DropUser(ctx context.Context, username string) error { return sql.ErrNoSupported }
func (noMultiDB) CreateUser(ctx context.Context, username, password string, permission sql.Permission) error {
	return sql.ErrNoSupported
}
func (noMultiDB) AlterUser(ctx context.Context, username, password string, permission sql.Permission) error {
	return sql.ErrNoSupported
}
func (noMultiDB) GrantSQLPrivileges(ctx context.Context, database, username string, privileges []sql.SQLPrivilege) error {
	return sql.ErrNoSupported
}
func (noMultiDB) RevokeSQLPrivileges(ctx context.Context, database, username string, privileges []sql.SQLPrivilege) error {
	return sql.ErrNoSupported
}
func (noMultiDB) ExecPreparedStmts(ctx context.Context, opts *sql.TxOptions, stmts []sql.SQLStmt, params map[string]interface{}) (*sql.SQLTx, []*sql.SQLTx, error) {
	return nil, nil, sql.ErrNoSupported
}

type adminUser struct{}

func (adminUser) Username() string           { return "default" }
func (adminUser) Permission() sql.Permission { return sql.PermissionAdmin }
func (adminUser) SQLPrivileges() []sql.SQLPrivilege {
	return sql.DefaultSQLPrivilegesForPermission(sql.PermissionAdmin)
}

type dbRun struct {
	c     *fw.Ctx
	sp    spec
	root  string
	db    database.DB
	rows  int // rows expected in t1 (all written at ids >= the first cut)
	rows4 int // rows expected in t4 (constraints of every kind), -1 when the table could not be created
	docs  int
	kv    map[string][]byte // KV entries written at ids >= the latest cut
	step  string
	ddlN  int // columns added to table tr by DDL racing with the truncator's catalog copy
}

func (d *dbRun) opts() *database.Options {
	so := store.DefaultOptions().
		WithMaxIOConcurrency(d.sp.IOConc).WithFileSize(d.sp.FileSize).
		WithVLogCacheSize(d.sp.VLogCache).WithEmbeddedValues(false).
		WithMaxConcurrency(8).WithLogger(sth.QuietLogger()).WithSynced(false)
	so.WithIndexOptions(so.IndexOpts.WithCompactionThld(2))
	return database.DefaultOptions().WithDBRootPath(d.root).WithStoreOptions(so)
}

func (d *dbRun) viol(sig, detail string) {
	d.c.Violation(sig, fmt.Sprintf("[%s] %s: %s", d.sp, d.step, detail), map[string][]byte{"spec.txt": []byte(d.sp.String())})
}

// guard runs one database request; a panic or a stuck request is reported, never fatal
func (d *dbRun) guard(op string, f func() error) (err error, ok bool) {
	var pmsg, pstack string
	ret, gid := tracked(slowLimit, func() {
		defer func() {
			if r := recover(); r != nil {
				pmsg, pstack = fmt.Sprint(r), string(debug.Stack())
			}
		}()
		err = f()
	})
	d.c.Eval(1)
	if !ret {
		v := deadlockVerdict(gid)
		if v.Deadlock {
			d.c.Violation(fmt.Sprintf("db/%s/deadlock/%s@%s", op, v.Prim, v.Frame), fmt.Sprintf("[%s] %s: %s never returns", d.sp, d.step, op), map[string][]byte{"goroutines.txt": []byte(v.Dump)})
		} else {
			d.c.Inconclusive(fmt.Sprintf("[%s] %s: %s did not return within %v: %s", d.sp, d.step, op, slowLimit, v.Why))
		}
		return nil, false
	}
	if pmsg != "" {
		d.c.Violation(fmt.Sprintf("db/%s/panic/%s/%s", op, panicSite(pstack), panicKind(pmsg)), fmt.Sprintf("[%s] %s: %s panicked: %s", d.sp, d.step, op, pmsg), map[string][]byte{"panic.txt": []byte(pmsg + "\n" + pstack)})
		return nil, false
	}
	return err, true
}

func (d *dbRun) exec(stmt string) error {
	err, ok := d.guard("sqlexec", func() error {
		_, _, err := d.db.SQLExec(context.Background(), nil, &schema.SQLExecRequest{Sql: stmt})
		return err
	})
	if !ok {
		return errors.New("request did not complete")
	}
	return err
}

func (d *dbRun) query(stmt string) (n int, err error) {
	var rows []*sql.Row
	e, ok := d.guard("sqlquery", func() error {
		var err error
		rows, err = d.db.SQLQueryAll(context.Background(), nil, &schema.SQLQueryRequest{Sql: stmt})
		return err
	})
	if !ok {
		return 0, errors.New("request did not complete")
	}
	return len(rows), e
}

func (d *dbRun) insertDoc(v float64) error {
	err, ok := d.guard("insertdocuments", func() error {
		_, err := d.db.InsertDocuments(context.Background(), "admin", &protomodel.InsertDocumentsRequest{
			CollectionName: "c1",
			Documents: []*structpb.Struct{{Fields: map[string]*structpb.Value{
				"pin":  structpb.NewNumberValue(v),
				"name": structpb.NewStringValue(fmt.Sprintf("doc-%v", v)),
			}}},
		})
		return err
	})
	if !ok {
		return errors.New("request did not complete")
	}
	return err
}

func (d *dbRun) countDocs() (n int, err error) {
	e, ok := d.guard("searchdocuments", func() error {
		rd, err := d.db.SearchDocuments(context.Background(), &protomodel.Query{
			CollectionName: "c1",
			Expressions: []*protomodel.QueryExpression{{FieldComparisons: []*protomodel.FieldComparison{
				{Field: "pin", Operator: protomodel.ComparisonOperator_GE, Value: structpb.NewNumberValue(0)},
			}}},
		}, 0)
		if err != nil {
			return err
		}
		defer rd.Close()
		for {
			_, err := rd.Read(context.Background())
			if err != nil {
				if strings.Contains(err.Error(), "no more") {
					return nil
				}
				return err
			}
			n++
			if n > 10000 {
				return errors.New("unbounded result")
			}
		}
	})
	if !ok {
		return 0, errors.New("request did not complete")
	}
	return n, e
}

func (d *dbRun) fill(tag string, n int) (last uint64) {
	for i := 0; i < n; i++ {
		k := []byte(fmt.Sprintf("fill-%s-%d", tag, i))
		v := make([]byte, d.sp.FileSize-7+i%19)
		copy(v, k)
		hdr, err := d.db.Set(context.Background(), &schema.SetRequest{KVs: []*schema.KeyValue{{Key: k, Value: v}}})
		if err != nil {
			d.c.Note(fmt.Sprintf("[%s] Set failed: %v", d.sp.Name, err))
			continue
		}
		last = hdr.Id
	}
	return last
}

func vlogFiles(root string) int {
	n := 0
	filepath.Walk(root, func(p string, info os.FileInfo, err error) error {
		if err == nil && !info.IsDir() && strings.HasSuffix(p, ".val") {
			n++
		}
		return nil
	})
	return n
}

// checks that must hold at any time after the catalog was created
func (d *dbRun) checkServing(when string) {
	d.step = when
	n, err := d.query("SELECT id, name, amount FROM t1")
	if err != nil {
		d.viol("db/sql-select-fails/"+when, fmt.Sprintf("SELECT on a table whose rows were all written at or after the cut: %v", err))
	} else if n != d.rows {
		d.viol("db/sql-select-row-count/"+when, fmt.Sprintf("SELECT returned %d rows, %d were inserted at or after the cut", n, d.rows))
	}
	if err := d.exec(fmt.Sprintf("INSERT INTO t1(name, amount) VALUES('n%d', %d)", d.rows, d.rows)); err != nil {
		d.viol("db/sql-insert-fails/"+when, err.Error())
	} else {
		d.rows++
	}
	if n, err := d.query("SELECT id FROM t1 WHERE name >= 'n'"); err != nil {
		d.viol("db/sql-select-by-index-fails/"+when, err.Error())
	} else if n != d.rows {
		d.viol("db/sql-select-row-count/"+when, fmt.Sprintf("indexed SELECT returned %d rows, expected %d", n, d.rows))
	}
	d.checkConstrained(when)
	nd, err := d.countDocs()
	if err != nil {
		d.viol("db/document-search-fails/"+when, err.Error())
	} else if nd != d.docs {
		d.viol("db/document-count/"+when, fmt.Sprintf("search returned %d documents, %d were inserted at or after the cut", nd, d.docs))
	}
	if err := d.insertDoc(float64(d.docs)); err != nil {
		d.viol("db/document-insert-fails/"+when, err.Error())
	} else {
		d.docs++
	}
	err, ok := d.guard("getcollection", func() error {
		ci, err := d.db.GetCollection(context.Background(), &protomodel.GetCollectionRequest{Name: "c1"})
		if err == nil && len(ci.Collection.Indexes) != 2 {
			return fmt.Errorf("collection reports %d indexes, created with 2", len(ci.Collection.Indexes))
		}
		return err
	})
	if ok && err != nil {
		d.viol("db/collection-broken/"+when, err.Error())
	}
	for k, want := range d.kv {
		var got []byte
		err, ok := d.guard("get", func() error {
			e, err := d.db.Get(context.Background(), &schema.KeyRequest{Key: []byte(k)})
			if err == nil {
				got = e.Value
			}
			return err
		})
		if !ok {
			continue
		}
		if err != nil {
			d.viol("db/get-fails-at-or-after-cut/"+when, fmt.Sprintf("Get(%q): %v", k, err))
		} else if string(got) != string(want) {
			d.viol("db/get-value-changed/"+when, fmt.Sprintf("Get(%q) returns a different value", k))
		}
	}
	d.c.Distinct(fmt.Sprintf("db/io=%d/filesize=%d/%s", d.sp.IOConc, d.sp.FileSize, when))
}

// checkConstrained: the table that carries every kind of catalog object (composite key, NOT NULL, named and
// unnamed CHECK, unique index, added and renamed columns) keeps serving AND keeps enforcing after truncation.
func (d *dbRun) checkConstrained(when string) {
	if d.rows4 < 0 {
		return
	}
	k := d.rows4
	if err := d.exec(fmt.Sprintf("INSERT INTO t4(a, b, c, dd, e) VALUES(%d, 'b%d', %d, true, 0.5)", k, k, k)); err != nil {
		d.viol("db/sql-insert-fails/constrained-table/"+when, err.Error())
	} else {
		d.rows4++
	}
	if n, err := d.query("SELECT a, b, c, dd, e FROM t4"); err != nil {
		d.viol("db/sql-select-fails/constrained-table/"+when, err.Error())
	} else if n != d.rows4 {
		d.viol("db/sql-select-row-count/constrained-table/"+when, fmt.Sprintf("SELECT returned %d rows, %d were inserted at or after the cut", n, d.rows4))
	}
	if n, err := d.query("SELECT a FROM t4 USE INDEX ON (c) WHERE c >= 0"); err != nil {
		d.viol("db/sql-select-by-index-fails/constrained-table/"+when, err.Error())
	} else if n != d.rows4 {
		d.viol("db/sql-select-row-count/constrained-table/"+when, fmt.Sprintf("SELECT through the unique index returned %d rows, expected %d", n, d.rows4))
	}
	for _, v := range []struct{ kind, stmt string }{
		{"named-check", fmt.Sprintf("INSERT INTO t4(a, b, c, dd) VALUES(%d, 'x', -5, true)", 500000+k)},
		{"unnamed-check", fmt.Sprintf("INSERT INTO t4(a, b, c, dd) VALUES(%d, 'x', %d, true)", 2000000+k, 600000+k)},
		{"unique-index", fmt.Sprintf("INSERT INTO t4(a, b, c, dd) VALUES(%d, 'x', %d, true)", 700000+k, k)},
		{"not-null", fmt.Sprintf("INSERT INTO t4(a, b, c) VALUES(%d, 'x', %d)", 800000+k, 800000+k)},
		{"primary-key", fmt.Sprintf("INSERT INTO t4(a, b, c, dd) VALUES(%d, 'b%d', %d, true)", k, k, 900000+k)},
	} {
		if d.rows4 == 0 {
			break
		}
		err := d.exec(v.stmt)
		d.c.Distinct("db/constraint/" + v.kind + "/" + when + "/refused=" + fmt.Sprint(err != nil))
		if err == nil {
			d.rows4++
			d.viol("db/constraint-no-longer-enforced/"+v.kind+"/"+when, "accepted: "+v.stmt)
		}
	}
}

// truncate runs the database truncator. conflicts > 0: a DDL statement of another client (ALTER TABLE tr ADD
// COLUMN) commits between the snapshot and the commit of the truncator's catalog copy, conflicts times in a
// row (at the hook point every precommit passes before taking the store lock; the DDL's own precommit is let
// through). Whatever the truncator then does - give up with the conflict, or try again - the catalog must
// keep working after truncation and restart.
func (d *dbRun) truncate(cut uint64, label string, conflicts int) {
	d.step = label
	if conflicts > 0 {
		var in atomic.Bool
		var left atomic.Int32
		left.Store(int32(conflicts))
		injected := 0
		hook.Install(&hook.Config{Seed: 1, Sites: map[string]bool{"store.precommit.beforeLock": true}, OnPoint: func(site string) {
			if !in.CompareAndSwap(false, true) {
				return
			}
			defer in.Store(false)
			if left.Add(-1) < 0 {
				return
			}
			d.ddlN++
			if _, _, err := d.db.SQLExec(context.Background(), nil, &schema.SQLExecRequest{Sql: fmt.Sprintf("ALTER TABLE tr ADD COLUMN r%d INTEGER", d.ddlN)}); err == nil {
				injected++
			}
		}})
		defer func() {
			hook.Uninstall()
			d.c.Distinct(fmt.Sprintf("db/truncate/racing-ddl/asked=%d/committed=%d", conflicts, injected))
			d.c.Count("db_ddl_committed_during_catalog_copy", int64(injected))
		}()
	}
	before := vlogFiles(d.root)
	err, ok := d.guard("truncator", func() error {
		return database.NewVlogTruncator(d.db, sth.QuietLogger()).TruncateUptoTx(context.Background(), cut)
	})
	after := vlogFiles(d.root)
	if !ok {
		return
	}
	out := "ok"
	if err != nil {
		out = "error:" + errClass(err)
		d.c.Count("db_truncation_errors", 1)
		d.c.Note(fmt.Sprintf("[%s] %s: truncator returned %v", d.sp.Name, label, err))
	}
	if before+1 > after { // the catalog copy may add a chunk
		d.c.Count("db_vlog_chunks_removed", int64(before-after+0))
	}
	d.c.Distinct(fmt.Sprintf("db/truncate/io=%d/%s/removed=%v", d.sp.IOConc, out, after < before))
}

func (d *dbRun) restart(label string) bool {
	d.step = label
	if err, ok := d.guard("close", func() error { return d.db.Close() }); !ok {
		return false
	} else if err != nil {
		d.c.Note(fmt.Sprintf("[%s] close: %v", d.sp.Name, err))
	}
	var ndb database.DB
	err, ok := d.guard("opendb", func() error {
		var err error
		ndb, err = database.OpenDB("db1", noMultiDB{}, d.opts(), sth.QuietLogger())
		return err
	})
	if !ok {
		return false
	}
	if err != nil {
		d.viol("db/open-fails-after-truncation", err.Error())
		return false
	}
	d.db = ndb
	return true
}

func runDBHistory(c *fw.Ctx, sp spec) {
	d := &dbRun{c: c, sp: sp, root: c.Dir("c14db-" + sp.Name), kv: map[string][]byte{}}
	defer os.RemoveAll(d.root)
	db, err := database.NewDB("db1", noMultiDB{}, d.opts(), sth.QuietLogger())
	if err != nil {
		c.Inconclusive("NewDB: " + err.Error())
		return
	}
	d.db = db
	d.step = "setup"
	// catalog first
	for _, s := range []string{
		"CREATE TABLE t1 (id INTEGER AUTO_INCREMENT, name VARCHAR[50], amount INTEGER, PRIMARY KEY id)",
		"CREATE INDEX ON t1 (name)",
		"CREATE TABLE t2 (k VARCHAR[20], v BLOB, PRIMARY KEY k)",
		"CREATE TABLE tr (id INTEGER, PRIMARY KEY id)",
	} {
		if err := d.exec(s); err != nil {
			c.Inconclusive("setup: " + s + ": " + err.Error())
			db.Close()
			return
		}
	}
	if err, ok := d.guard("createcollection", func() error {
		_, err := d.db.CreateCollection(context.Background(), "admin", &protomodel.CreateCollectionRequest{
			Name:    "c1",
			Fields:  []*protomodel.Field{{Name: "pin", Type: protomodel.FieldType_DOUBLE}, {Name: "name", Type: protomodel.FieldType_STRING}},
			Indexes: []*protomodel.Index{{Fields: []string{"pin"}}},
		})
		return err
	}); !ok || err != nil {
		c.Inconclusive(fmt.Sprintf("setup: CreateCollection: %v", err))
		db.Close()
		return
	}
	if err := d.exec("ALTER TABLE t1 ADD COLUMN note VARCHAR[20]"); err != nil {
		c.Note("alter table: " + err.Error())
	}
	for _, s := range []string{
		"CREATE TABLE t4 (a INTEGER NOT NULL, b VARCHAR[8], c INTEGER, d BOOLEAN NOT NULL, x INTEGER, CONSTRAINT ck_c CHECK (c >= 0), CHECK (a < 1000000), PRIMARY KEY (a, b))",
		"CREATE UNIQUE INDEX ON t4 (c)",
		"ALTER TABLE t4 ADD COLUMN e FLOAT",
		"ALTER TABLE t4 RENAME COLUMN d TO dd",
		"ALTER TABLE t4 DROP COLUMN x",
	} {
		if err := d.exec(s); err != nil {
			c.Note("constrained table: " + s + ": " + err.Error())
			d.rows4 = -1
			break
		}
	}
	// push every value log several chunks beyond the catalog
	cut := d.fill("a", 6*sp.IOConc+sp.NTx%5)
	if cut == 0 {
		c.Inconclusive("filler writes failed")
		db.Close()
		return
	}
	// rows, documents and KV entries at ids > cut
	for i := 0; i < 3; i++ {
		if err := d.exec(fmt.Sprintf("INSERT INTO t1(name, amount) VALUES('n%d', %d)", d.rows, d.rows)); err == nil {
			d.rows++
		}
		if err := d.insertDoc(float64(d.docs)); err == nil {
			d.docs++
		}
		k, v := fmt.Sprintf("keep-%d", i), []byte(fmt.Sprintf("value-%d-%s", i, strings.Repeat("x", 40*i)))
		if _, err := d.db.Set(context.Background(), &schema.SetRequest{KVs: []*schema.KeyValue{{Key: []byte(k), Value: v}}}); err == nil {
			d.kv[k] = v
		}
	}
	d.checkServing("before-truncation")
	d.truncate(cut, "truncate-1", sp.RacingDDL[0])
	d.checkServing("after-truncation")
	if !d.restart("restart-1") {
		return
	}
	d.checkServing("after-truncation-and-restart")
	// repeated truncation (same cut), then a later cut beyond more filler, restart again
	d.truncate(cut, "truncate-1-again", sp.RacingDDL[1])
	cut2 := d.fill("b", 4*sp.IOConc)
	if cut2 > 0 {
		// rows / documents / keys written before cut2 may now be legitimately unreadable: start new expectations
		if err := d.exec("CREATE TABLE t3 (id INTEGER AUTO_INCREMENT, s VARCHAR[30], PRIMARY KEY id)"); err != nil {
			d.viol("db/sql-create-table-fails/after-truncation-and-restart", err.Error())
		}
		d.truncate(cut2, "truncate-2", sp.RacingDDL[2])
		if d.restart("restart-2") {
			d.step = "after-second-truncation-and-restart"
			// the catalog (old and new tables, the collection) must still be usable for new data
			for _, s := range []string{"INSERT INTO t3(s) VALUES('a')", "INSERT INTO t2(k, v) VALUES('k1', x'00ff')", fmt.Sprintf("INSERT INTO t1(name, amount) VALUES('z%d', 1)", d.rows)} {
				if err := d.exec(s); err != nil {
					d.viol("db/sql-insert-fails/after-second-truncation-and-restart", s+": "+err.Error())
				}
			}
			if n, err := d.query("SELECT id, s FROM t3"); err != nil || n != 1 {
				d.viol("db/sql-select-fails/after-second-truncation-and-restart", fmt.Sprintf("SELECT FROM t3: %d rows, %v", n, err))
			}
			if n, err := d.query("SELECT k FROM t2"); err != nil || n != 1 {
				d.viol("db/sql-select-fails/after-second-truncation-and-restart", fmt.Sprintf("SELECT FROM t2: %d rows, %v", n, err))
			}
			if err := d.insertDoc(1e6); err != nil {
				d.viol("db/document-insert-fails/after-second-truncation-and-restart", err.Error())
			}
			if d.rows4 >= 0 {
				// its earlier rows may be gone with the second cut: what is asked is that the table still accepts and still refuses
				if err := d.exec("INSERT INTO t4(a, b, c, dd) VALUES(999001, 'z', 999001, false)"); err != nil {
					d.viol("db/sql-insert-fails/constrained-table/after-second-truncation-and-restart", err.Error())
				}
				for kind, stmt := range map[string]string{
					"named-check":  "INSERT INTO t4(a, b, c, dd) VALUES(999002, 'z', -1, false)",
					"unique-index": "INSERT INTO t4(a, b, c, dd) VALUES(999003, 'z', 999001, false)",
					"not-null":     "INSERT INTO t4(a, b, c) VALUES(999004, 'z', 999004)",
				} {
					if err := d.exec(stmt); err == nil {
						d.viol("db/constraint-no-longer-enforced/"+kind+"/after-second-truncation-and-restart", "accepted: "+stmt)
					}
				}
			}
			d.c.Distinct(fmt.Sprintf("db/io=%d/filesize=%d/after-second-truncation-and-restart", d.sp.IOConc, d.sp.FileSize))
		}
	}
	d.guard("close", func() error { return d.db.Close() })
	c.Sample(map[string]any{"history": sp.String(), "rows": d.rows, "documents": d.docs})
}
