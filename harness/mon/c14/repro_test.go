//go:build verif

// Minimal standalone reproductions of the C14 defects found by the monitor.
//
//	. /verif/bin/env.sh && cd /verif/harness && go test -tags verif -count=1 -run TestC14 -v ./mon/c14/
//
// Each test FAILS on the unchanged tree and passes with the corresponding
// /verif/proposed/C14-*.patch (or C16-exporttx-unlock-valbsmux.patch) applied
// (VERIF_REPO builds: go test -modfile=go.<tag>.mod …).
package c14

import (
	"fmt"
	"strings"
	"sync"
	"testing"
	"time"

	"github.com/codenotary/immudb/embedded/store"

	"verifharness/internal/hook"
	"verifharness/internal/sth"
)

func reproStore(t *testing.T, ioConc, fileSize int) *store.ImmuStore {
	o := sth.SmallOpts().WithMaxIOConcurrency(ioConc).WithFileSize(fileSize).WithVLogCacheSize(0).
		WithEmbeddedValues(false).WithMaxConcurrency(8).WithMaxValueLen(1 << 12)
	st, err := store.Open(t.TempDir(), o)
	if err != nil {
		t.Fatal(err)
	}
	return st
}

func put(t *testing.T, st *store.ImmuStore, kvs ...sth.KV) uint64 {
	hdr, err := sth.Commit(st, kvs...)
	if err != nil {
		t.Fatal(err)
	}
	return hdr.ID
}

func big(n int) []byte { return []byte(strings.Repeat("v", n)) }

// exporttx/partially-truncated/lock-not-released (fixed in /repo meanwhile by the C16 patch: now a regression test)
func TestC14ExportTxKeepsValBsMuxLocked(t *testing.T) {
	st := reproStore(t, 1, 256)
	defer st.Close()
	put(t, st, sth.KV{K: []byte("a"), V: big(300)}, sth.KV{K: []byte("b"), V: nil}) // tx 1: a value and an empty value
	var last uint64
	for i := 0; i < 6; i++ {
		last = put(t, st, sth.KV{K: []byte(fmt.Sprintf("k%d", i)), V: big(300)})
	}
	if err := st.TruncateUptoTx(last - 1); err != nil {
		t.Fatal(err)
	}
	tx := store.NewTx(16, 64)
	_, err := st.ExportTx(1, false, false, tx)
	t.Logf("ExportTx(1) after truncation: %v", err) // "partially truncated transaction": an explicit error, allowed
	done := make(chan error, 1)
	go func() {
		_, err := st.ExportTx(last, false, false, store.NewTx(16, 64))
		done <- err
	}()
	select {
	case err := <-done:
		if err != nil {
			t.Fatalf("ExportTx(%d): %v", last, err)
		}
	case <-time.After(5 * time.Second):
		t.Fatalf("ExportTx(%d) of an untouched tx never returns after ExportTx(1) failed: _valBsMux was left locked", last)
	}
}

// truncateuptotx/holds-value-logs-while-waiting/deadlock/sync.Cond.Wait@fetchVLog
func TestC14ConcurrentTruncationsDeadlock(t *testing.T) {
	st := reproStore(t, 4, 256)
	var last uint64
	for i := 0; i < 24; i++ {
		last = put(t, st, sth.KV{K: []byte(fmt.Sprintf("k%d", i)), V: big(100)})
	}
	done := make(chan struct{})
	go func() {
		defer close(done)
		for round := 0; round < 300; round++ {
			var wg sync.WaitGroup
			for g := 0; g < 3; g++ {
				wg.Add(1)
				go func() { defer wg.Done(); st.TruncateUptoTx(last - 2) }()
			}
			wg.Wait()
		}
	}()
	select {
	case <-done:
		st.Close()
	case <-time.After(60 * time.Second):
		t.Fatalf("concurrent TruncateUptoTx calls never return (each holds value logs while waiting for the ones held by the other):\n%s", truncStacks())
	}
}

func truncStacks() string {
	var sb strings.Builder
	for _, g := range parseDump(allStacks()) {
		if hasFrame(g, "store.(*ImmuStore).TruncateUptoTx") {
			fmt.Fprintf(&sb, "goroutine %s [%s]: %s\n", g.id, g.state, strings.Join(g.frames, " < "))
		}
	}
	return sb.String()
}

// readvalue/unreadable-at-or-after-cut/nonempty-first-entry/committed-while-truncating/eof
//
// A writer appends its values (before taking any store lock), other txs are committed after it
// in the same value log, TruncateUptoTx(n) runs with n = the last committed tx: the forward walk
// cannot see the writer's tx (it has no id yet), the chunk holding its values is deleted, and the
// tx then commits with id n+1 >= n and unreadable values.
func TestC14TruncationDeletesValuesOfInFlightTx(t *testing.T) {
	st := reproStore(t, 1, 256)
	defer st.Close()
	put(t, st, sth.KV{K: []byte("k0"), V: big(10)})
	gate, reached := make(chan struct{}), make(chan struct{})
	var once sync.Once
	hook.Install(&hook.Config{Seed: 1, OnPoint: func(site string) {
		if site == "store.precommit.beforeLock" {
			first := false
			once.Do(func() { first = true })
			if first {
				close(reached)
				<-gate
			}
		}
	}})
	defer hook.Uninstall()
	resA := make(chan uint64, 1)
	go func() {
		hdr, err := sth.Commit(st, sth.KV{K: []byte("a"), V: big(20)})
		if err != nil {
			resA <- 0
			return
		}
		resA <- hdr.ID
	}()
	<-reached // A's value is in the value log, A has no id yet
	put(t, st, sth.KV{K: []byte("b"), V: big(600)})
	n := put(t, st, sth.KV{K: []byte("b2"), V: big(600)})
	if err := st.TruncateUptoTx(n); err != nil {
		t.Fatal(err)
	}
	close(gate)
	idA := <-resA
	if idA <= n {
		t.Fatalf("unexpected ids: A=%d n=%d", idA, n)
	}
	tx := store.NewTx(16, 64)
	if err := st.ReadTx(idA, false, tx); err != nil {
		t.Fatal(err)
	}
	for _, e := range tx.Entries() {
		if _, err := st.ReadValue(e); err != nil {
			t.Fatalf("TruncateUptoTx(%d) ran while tx %d was being committed: its value %q is unreadable although %d >= %d: %v", n, idA, e.Key(), idA, n, err)
		}
	}
}
