package c14

import (
	"bytes"
	"context"
	"crypto/sha256"
	"encoding/binary"
	"errors"
	"fmt"
	"io"
	"math/rand/v2"
	"os"
	"runtime"
	"runtime/debug"
	"sort"
	"strings"
	"sync"
	"sync/atomic"
	"time"

	"github.com/codenotary/immudb/embedded/store"

	"verifharness/internal/fw"
	"verifharness/internal/hook"
	"verifharness/internal/ledger"
	"verifharness/internal/sth"
)

// spec of one history (one isolated case). Everything is a pure function of (seed, tier, index).
type spec struct {
	Name       string
	Kind       string // "store" | "db"
	RacingDDL  [3]int // db: DDL statements committing during the catalog copy of each of the three truncations
	IOConc     int
	FileSize   int
	VLogCache  int
	Embedded   bool
	Committers int
	NTx        int // txs of the build phase
	MaxCuts    int // 0 = every cut point
	RaceTx     int // txs written while truncations run
	Truncators int
	Perturb    float64
	MaxConc    int // store MaxConcurrency (0 = 24); small values make "further apart than MaxConcurrency" cheap to reach
}

func (sp spec) String() string {
	return fmt.Sprintf("%s kind=%s ioconc=%d maxconc=%d filesize=%d vlogcache=%d embedded=%v committers=%d ntx=%d racetx=%d truncators=%d",
		sp.Name, sp.Kind, sp.IOConc, sp.maxConc(), sp.FileSize, sp.VLogCache, sp.Embedded, sp.Committers, sp.NTx, sp.RaceTx, sp.Truncators)
}

func (sp spec) maxConc() int {
	if sp.MaxConc > 0 {
		return sp.MaxConc
	}
	return 24
}

func (sp spec) options() *store.Options {
	o := sth.SmallOpts().
		WithMaxIOConcurrency(sp.IOConc).WithFileSize(sp.FileSize).
		WithVLogCacheSize(sp.VLogCache).WithEmbeddedValues(sp.Embedded).
		WithMaxConcurrency(sp.maxConc()).WithMaxActiveTransactions(1000).
		WithMaxTxEntries(maxEntries).WithMaxKeyLen(maxKeyLen).WithMaxValueLen(1 << 13)
	o.WithIndexOptions(o.IndexOpts.WithCompactionThld(2).WithFlushThld(40).WithSyncThld(200))
	return o
}

const (
	maxEntries = 8
	maxKeyLen  = 32
	opLimit    = 3 * time.Second  // expected: microseconds; its firing decides nothing
	slowLimit  = 60 * time.Second // commits, indexing waits
	truncLimit = 15 * time.Second // TruncateUptoTx (expected: milliseconds)
	stallLimit = 20 * time.Second // a phase without a single completed operation
	hangBudget = 3                // goroutine-dump diagnoses per history (each costs ≥ 5 s)
)

// placement of one tx's values, as read back from the tx log
type place struct {
	vlog      byte
	first     int64 // lowest value offset
	end       int64 // highest value end
	nonEmpty  int
	early     bool // placed before the values of some tx with a LOWER id in the same value log
	span      bool // its values touch more than one chunk
	emptyPat  string
	firstIsEm bool
}

func (p place) String() string {
	s := "inorder"
	if p.early {
		s = "outoforder"
	}
	if p.span {
		s += "+chunks"
	}
	return s
}

type truncCall struct {
	cut        uint64
	start, end int64 // logical clock at call and return (end 0 = not returned)
}

const truncHoldSig = "truncateuptotx/holds-value-logs-while-waiting/deadlock/sync.Cond.Wait@fetchVLog"

// one cause, one signature: whatever read path shows it (see lost)
const inflightSig = "truncateuptotx/racing-writer/values-of-in-flight-tx-deleted"

type hist struct {
	c   *fw.Ctx
	sp  spec
	dir string
	st  *store.ImmuStore
	led *ledger.Ledger

	places map[uint64]place
	live   map[string]uint64   // key -> id of the live version
	hist   map[string][]uint64 // key -> ids that wrote it, ascending

	hmu           sync.Mutex
	hangs         int
	truncHangSeen bool
	noExportLow   bool        // diagnose budget exhausted: exports below the cut are skipped
	poisoned      atomic.Bool // an operation is stuck inside the store instance in use
	abandoned     atomic.Bool // value logs are held forever: the instance cannot even be closed
	progress      atomic.Int64

	tmu    sync.Mutex
	truncs []truncCall
	spans  map[uint64][2]int64 // tx id -> logical clock at Commit call and return
	clock  atomic.Int64

	gateArmed   atomic.Bool
	gate        chan struct{}
	gateReached chan struct{}
	tb          atomic.Uint64 // highest cut issued so far (set BEFORE the call)

	keySeq atomic.Uint64
}

func (h *hist) viol(sig, detail string, extra map[string][]byte) {
	files := map[string][]byte{"spec.txt": []byte(h.sp.String())}
	for k, v := range extra {
		files[k] = v
	}
	h.c.Violation(sig, fmt.Sprintf("[%s] %s", h.sp, detail), files)
}

// ---- generation ----

var emptyPats = []string{"none", "none", "none", "first", "middle", "last", "all", "mixed", "first"}

func (h *hist) genTx(r *rand.Rand, g int) []ledger.Entry {
	n := 1 + r.IntN(5)
	pat := emptyPats[r.IntN(len(emptyPats))]
	if pat == "middle" && n < 3 {
		n = 3
	}
	if (pat == "first" || pat == "last") && n < 2 {
		n = 2
	}
	fs := h.sp.FileSize
	sizes := []int{1, 7, 33, fs / 4, fs/2 + 3, fs - 1, fs + 17, 2*fs + 5}
	seen := map[string]bool{}
	var es []ledger.Entry
	for i := 0; len(es) < n; i++ {
		k := fmt.Sprintf("k%02d", r.IntN(16))
		if r.IntN(2) == 0 {
			k = fmt.Sprintf("u%d-%d", g, h.keySeq.Add(1))
		}
		if seen[k] {
			continue
		}
		seen[k] = true
		sz := sizes[r.IntN(len(sizes))]
		if sz > 1500 {
			sz = 1500
		}
		idx := len(es)
		empty := false
		switch pat {
		case "first":
			empty = idx == 0
		case "middle":
			empty = idx > 0 && idx < n-1
		case "last":
			empty = idx == n-1
		case "all":
			empty = true
		case "mixed":
			empty = r.IntN(2) == 0
		}
		var v []byte
		if !empty {
			v = make([]byte, sz)
			copy(v, fmt.Sprintf("g%d:%s:", g, k))
			for j := len(k) + 4; j < sz; j++ {
				v[j] = byte(r.IntN(256))
			}
		}
		es = append(es, ledger.Entry{Key: []byte(k), Value: v})
	}
	return es
}

func emptyPattern(es []ledger.Entry) string {
	n, e := len(es), 0
	for _, x := range es {
		if len(x.Value) == 0 {
			e++
		}
	}
	switch {
	case e == 0:
		return "none"
	case e == n:
		return "all"
	case e == 1 && len(es[0].Value) == 0:
		return "first"
	case e == 1 && len(es[n-1].Value) == 0:
		return "last"
	case len(es[0].Value) > 0 && len(es[n-1].Value) > 0:
		return "middle"
	}
	return "mixed"
}

func (h *hist) commitOne(es []ledger.Entry) error {
	ctx, cancel := context.WithTimeout(context.Background(), slowLimit)
	defer cancel()
	start := h.clock.Add(1)
	tx, err := h.st.NewWriteOnlyTx(ctx)
	if err != nil {
		return err
	}
	for _, e := range es {
		if err := tx.Set(e.Key, nil, e.Value); err != nil {
			tx.Cancel()
			return err
		}
	}
	hdr, err := tx.AsyncCommit(ctx)
	if err != nil {
		return err
	}
	h.tmu.Lock()
	h.spans[hdr.ID] = [2]int64{start, h.clock.Add(1)}
	h.tmu.Unlock()
	if e := h.led.Ack(hdr, es); e != nil {
		h.viol("ack/id-reassigned", e.Error(), nil)
	}
	h.progress.Add(1)
	return nil
}

// writers: Committers goroutines, a fixed number of txs each (deterministic programs, free schedule)
func (h *hist) write(phase string, total int) {
	var wg sync.WaitGroup
	per := (total + h.sp.Committers - 1) / h.sp.Committers
	for g := 0; g < h.sp.Committers; g++ {
		wg.Add(1)
		go func(g int) {
			defer wg.Done()
			r := fw.NewRand(h.c.Seed, fmt.Sprintf("c14/%s/%s/committer%d", h.sp.Name, phase, g))
			for i := 0; i < per; i++ {
				if err := h.commitOne(h.genTx(r, g)); err != nil {
					h.c.Count("commit_errors", 1)
					h.c.Note(fmt.Sprintf("[%s] commit failed: %v", h.sp.Name, err))
					if errors.Is(err, context.DeadlineExceeded) {
						h.c.Inconclusive(fmt.Sprintf("[%s] a commit did not return within %v", h.sp, slowLimit))
						return
					}
				}
			}
		}(g)
	}
	wg.Wait()
}

func (h *hist) open() error {
	st, err := store.Open(h.dir, h.sp.options())
	if err != nil {
		return err
	}
	h.st = st
	h.poisoned.Store(false)
	return nil
}

func (h *hist) waitIndexed(st *store.ImmuStore) bool {
	ctx, cancel := context.WithTimeout(context.Background(), slowLimit)
	defer cancel()
	if err := st.WaitForIndexingUpto(ctx, st.LastCommittedTxID()); err != nil {
		h.c.Inconclusive(fmt.Sprintf("[%s] indexing did not catch up: %v", h.sp, err))
		return false
	}
	return true
}

// ---- model derived from the ledger ----

func (h *hist) rebuildModel(st *store.ImmuStore) {
	h.live, h.hist = map[string]uint64{}, map[string][]uint64{}
	h.places = map[uint64]place{}
	ids := h.led.IDs()
	tx := store.NewTx(maxEntries, maxKeyLen)
	maxEnd := map[byte]int64{}
	for _, id := range ids {
		rec := h.led.Get(id)
		for _, e := range rec.Entries {
			h.live[string(e.Key)] = id
			h.hist[string(e.Key)] = append(h.hist[string(e.Key)], id)
		}
		p := place{emptyPat: emptyPattern(rec.Entries), firstIsEm: len(rec.Entries[0].Value) == 0, first: -1}
		if err := st.ReadTx(id, false, tx); err == nil && !h.sp.Embedded {
			for _, e := range tx.Entries() {
				if e.VLen() == 0 {
					continue
				}
				off := e.VOff()
				vl, o := byte(off>>56), off&(1<<55-1)
				p.vlog = vl
				if p.first < 0 || o < p.first {
					p.first = o
				}
				if o+int64(e.VLen()) > p.end {
					p.end = o + int64(e.VLen())
				}
				p.nonEmpty++
			}
			if p.nonEmpty > 0 {
				p.early = p.first < maxEnd[p.vlog]
				if p.end > maxEnd[p.vlog] {
					maxEnd[p.vlog] = p.end
				}
				p.span = p.first/int64(h.sp.FileSize) != (p.end-1)/int64(h.sp.FileSize)
			}
		}
		h.places[id] = p
	}
}

// ---- truncation ----

func panicSite(stack string) string {
	for _, l := range strings.Split(stack, "\n") {
		if strings.HasPrefix(l, immudbPrefix) && !strings.Contains(l, "/verifhook") {
			if i := strings.LastIndexByte(l, '('); i > 0 {
				l = l[:i]
			}
			l = strings.TrimPrefix(l, immudbPrefix)
			if i := strings.LastIndexByte(l, '/'); i >= 0 {
				l = l[i+1:]
			}
			return l
		}
	}
	return "unknown"
}

func panicKind(msg string) string {
	switch {
	case strings.Contains(msg, "nil pointer"):
		return "nil-deref"
	case strings.Contains(msg, "index out of range"):
		return "index-out-of-range"
	case strings.Contains(msg, "slice bounds"):
		return "slice-bounds"
	}
	return "panic"
}

// truncate calls TruncateUptoTx(cut). An error is allowed (harmless), a panic is not.
func (h *hist) truncate(st *store.ImmuStore, cut uint64, label string) (outcome string) {
	for {
		old := h.tb.Load()
		if cut <= old || h.tb.CompareAndSwap(old, cut) {
			break
		}
	}
	h.tmu.Lock()
	ti := len(h.truncs)
	h.truncs = append(h.truncs, truncCall{cut: cut, start: h.clock.Add(1)})
	h.tmu.Unlock()
	defer func() {
		h.tmu.Lock()
		if ti < len(h.truncs) && h.truncs[ti].cut == cut && h.truncs[ti].end == 0 && outcome != "hang" {
			h.truncs[ti].end = h.clock.Add(1)
		}
		h.tmu.Unlock()
	}()
	var err error
	var pmsg, pstack string
	ok, id := tracked(truncLimit, func() {
		defer func() {
			if r := recover(); r != nil {
				pmsg, pstack = fmt.Sprint(r), string(debug.Stack())
			}
		}()
		err = st.TruncateUptoTx(cut)
	})
	if !ok {
		h.hang(id, "truncateuptotx", label, "")
		return "hang"
	}
	h.c.Eval(1)
	h.progress.Add(1)
	h.c.Count("truncations", 1)
	switch {
	case pmsg != "":
		site := panicSite(pstack)
		firstEmpty := ""
		// the back walk reads the first entry of txs cut, cut-1, …: was one with an empty first value near?
		for id := cut; id > 0 && id+uint64(4*h.sp.IOConc) > cut; id-- {
			if rec := h.led.Get(id); rec != nil && len(rec.Entries[0].Value) == 0 {
				firstEmpty = "/first-entry-empty-value"
				break
			}
		}
		h.viol(fmt.Sprintf("truncateuptotx/panic/%s/%s%s", site, panicKind(pmsg), firstEmpty),
			fmt.Sprintf("%s: TruncateUptoTx(%d) panicked: %s", label, cut, pmsg), map[string][]byte{"panic.txt": []byte(pmsg + "\n" + pstack)})
		return "panic"
	case err != nil:
		cls := errClass(err)
		h.c.Count("truncation_errors", 1)
		h.c.Distinct(fmt.Sprintf("truncate/io=%d/%s/error=%s", h.sp.IOConc, strings.SplitN(label, "/", 2)[0], cls))
		return "error:" + cls
	}
	return "ok"
}

func errClass(err error) string {
	if err == nil {
		return "ok"
	}
	switch {
	case errors.Is(err, io.EOF):
		return "eof"
	case strings.Contains(err.Error(), "partially truncated transaction"):
		return "partially-truncated"
	case errors.Is(err, store.ErrCorruptedData):
		return "corrupted-data"
	case errors.Is(err, store.ErrTxNotFound):
		return "tx-not-found"
	case errors.Is(err, store.ErrAlreadyClosed):
		return "closed"
	case errors.Is(err, store.ErrUnexpectedError):
		return "unexpected-error"
	case errors.Is(err, store.ErrIllegalArguments):
		return "illegal-arguments"
	case errors.Is(err, os.ErrNotExist):
		return "not-exist"
	}
	return "other"
}

// ---- non-termination ----

// hang is called when a tracked operation did not return; decides by goroutine state.
func (h *hist) hang(gid, op, label, prevErr string) {
	h.poisoned.Store(true)
	if op == "truncateuptotx" {
		h.abandoned.Store(true)
	}
	h.hmu.Lock()
	defer h.hmu.Unlock()
	if op == "truncateuptotx" && h.truncHangSeen {
		return // the second party of the same wait cycle
	}
	if op == "truncateuptotx" {
		h.truncHangSeen = true
	} else if h.hangs >= hangBudget {
		h.c.Count("hangs_not_diagnosed", 1)
		return
	}
	if op != "truncateuptotx" {
		h.hangs++
	}
	v := deadlockVerdict(gid)
	if !v.Deadlock {
		h.c.Inconclusive(fmt.Sprintf("[%s] %s: %s did not return within its limit; goroutine state does not prove a deadlock: %s", h.sp, label, op, v.Why))
		return
	}
	sig := fmt.Sprintf("%s/deadlock/%s@%s", op, v.Prim, v.Frame)
	if strings.HasSuffix(v.Frame, ".fetchVLog") || strings.HasSuffix(v.Frame, ".fetchAnyVLog") {
		// a truncation keeps the value logs it already fetched (released only when TruncateUptoTx returns)
		// while it waits for the next one: wait cycle with another truncation, or a wake-up lost to a
		// reader that waits for a value log the truncation holds
		sig = truncHoldSig
	}
	if strings.Contains(prevErr, "partially truncated transaction") && v.Frame == "store.(*ImmuStore).ExportTx" && v.Prim == "sync.Mutex.Lock" {
		sig = "exporttx/partially-truncated/lock-not-released"
	}
	h.viol(sig, fmt.Sprintf("%s: %s never returns: its goroutine is parked in %s inside %s with an identical stack in two dumps 2 s apart and no goroutine that could release it is running (previous ExportTx returned: %q)",
		label, op, v.Prim, v.Frame, prevErr), map[string][]byte{"goroutines.txt": []byte(v.Dump)})
}

// ---- export ----

type exported struct {
	truncated bool
	vals      [][]byte // value, or digest when truncated
	keys      [][]byte
}

func parseExport(b []byte) (*exported, error) {
	rd := func(n int) ([]byte, error) {
		if len(b) < n {
			return nil, errors.New("short export")
		}
		x := b[:n]
		b = b[n:]
		return x, nil
	}
	l, err := rd(4)
	if err != nil {
		return nil, err
	}
	hb, err := rd(int(binary.BigEndian.Uint32(l)))
	if err != nil {
		return nil, err
	}
	hdr := &store.TxHeader{}
	if err := hdr.ReadFrom(hb); err != nil {
		return nil, err
	}
	ex := &exported{}
	for i := 0; i < hdr.NEntries; i++ {
		if l, err = rd(2); err != nil {
			return nil, err
		}
		k, err := rd(int(binary.BigEndian.Uint16(l)))
		if err != nil {
			return nil, err
		}
		if l, err = rd(2); err != nil {
			return nil, err
		}
		if _, err = rd(int(binary.BigEndian.Uint16(l))); err != nil {
			return nil, err
		}
		if l, err = rd(4); err != nil {
			return nil, err
		}
		v, err := rd(int(binary.BigEndian.Uint32(l)))
		if err != nil {
			return nil, err
		}
		ex.keys, ex.vals = append(ex.keys, k), append(ex.vals, v)
	}
	if l, err = rd(2); err != nil {
		return nil, err
	}
	f, err := rd(int(binary.BigEndian.Uint16(l)))
	if err != nil || len(f) != 1 || len(b) != 0 {
		return nil, errors.New("malformed export trailer")
	}
	ex.truncated = f[0] == 1
	return ex, nil
}

// export runs ExportTx(id) on its own goroutine. returned=false means it is stuck.
func (h *hist) export(st *store.ImmuStore, id uint64) (b []byte, err error, returned bool, gid string) {
	returned, gid = tracked(opLimit, func() {
		b, err = st.ExportTx(id, false, false, store.NewTx(maxEntries, maxKeyLen))
	})
	return
}

// checkExport: ExportTx(id) must return; in full for id >= cut; full / digests / explicit error below.
// Afterwards another request (an ExportTx and a ReadValue from another goroutine) must be served.
func (h *hist) checkExport(st *store.ImmuStore, id, cut, followID uint64, label string) (outcome string) {
	rec := h.led.Get(id)
	b, err, ok, gid := h.export(st, id)
	h.c.Eval(1)
	if !ok {
		h.hang(gid, "exporttx", label, "")
		return "hang"
	}
	prev := ""
	if err != nil {
		prev = err.Error()
		outcome = "error:" + errClass(err)
		if id >= cut {
			h.lost("exporttx/error-at-or-after-cut/"+errClass(err), id, fmt.Sprintf("%s: ExportTx(%d) with cut %d failed: %v (%s)", label, id, cut, err, h.describe(id)))
		}
	} else {
		ex, perr := parseExport(b)
		switch {
		case perr != nil || len(ex.vals) != len(rec.Entries):
			outcome = "malformed"
			h.viol("exporttx/malformed", fmt.Sprintf("%s: ExportTx(%d) returned bytes that do not parse as an exported tx: %v", label, id, perr), map[string][]byte{"export.bin": b})
		case ex.truncated:
			outcome = "digests"
			for i, e := range rec.Entries {
				d := sha256.Sum256(e.Value)
				if !bytes.Equal(ex.vals[i], d[:]) || !bytes.Equal(ex.keys[i], e.Key) {
					h.viol("exporttx/wrong-digest", fmt.Sprintf("%s: ExportTx(%d) by digest: entry %d does not carry the digest of the acknowledged value", label, id, i), map[string][]byte{"export.bin": b})
					break
				}
			}
			if id >= cut {
				h.lost("exporttx/by-digest-at-or-after-cut", id, fmt.Sprintf("%s: ExportTx(%d) with cut %d exported digests instead of values (%s)", label, id, cut, h.describe(id)))
			}
		default:
			outcome = "full"
			for i, e := range rec.Entries {
				if !bytes.Equal(ex.vals[i], e.Value) || !bytes.Equal(ex.keys[i], e.Key) {
					sig := "exporttx/value-changed"
					if len(e.Value) > 0 && len(ex.vals[i]) == 0 {
						sig = "exporttx/value-exported-empty"
					}
					h.viol(sig, fmt.Sprintf("%s: ExportTx(%d) cut %d: entry %d (%q) exported with a value of %d bytes, acknowledged %d bytes", label, id, cut, i, e.Key, len(ex.vals[i]), len(e.Value)), map[string][]byte{"export.bin": b})
					break
				}
			}
		}
	}
	// follow-up: the database must still serve requests
	var ferr error
	ok, gid = tracked(opLimit, func() {
		tx := store.NewTx(maxEntries, maxKeyLen)
		_, ferr = st.ExportTx(followID, false, false, tx)
		if st.ReadTx(followID, false, tx) == nil {
			for _, e := range tx.Entries() {
				st.ReadValue(e)
			}
		}
	})
	h.c.Eval(1)
	if !ok {
		h.hang(gid, "exporttx", label+fmt.Sprintf("/follow-up after ExportTx(%d) [%s]", id, h.describe(id)), prev)
		return outcome + "+next-request-blocked"
	}
	_ = ferr
	return outcome
}

func (h *hist) describe(id uint64) string {
	p := h.places[id]
	return fmt.Sprintf("tx %d: %s, empty=%s, vlog %d offsets %d..%d", id, p, p.emptyPat, p.vlog, p.first, p.end)
}

// ---- audit ----

type auditOpts struct {
	export  bool
	index   bool
	everyID bool
	ids     []uint64
}

func cutPos(id, cut uint64) string {
	switch {
	case id+1 == cut:
		return "cut-1"
	case id < cut:
		return "below"
	case id == cut:
		return "at"
	case id == cut+1:
		return "cut+1"
	}
	return "above"
}

// overlapped: the Commit call of tx id overlapped a TruncateUptoTx call (observed at the API boundary)
func (h *hist) overlapped(id uint64) bool {
	h.tmu.Lock()
	defer h.tmu.Unlock()
	sp, ok := h.spans[id]
	if !ok {
		return false
	}
	for _, t := range h.truncs {
		if sp[0] < t.end || t.end == 0 {
			if sp[1] > t.start {
				return true
			}
		}
	}
	return false
}

// lost reports that data of a tx at or after every requested cut is not served. A tx whose Commit
// overlapped a truncation is reported under the single signature of that cause, whichever read
// path showed it; anything else keeps the path-specific signature.
func (h *hist) lost(sig string, id uint64, detail string) {
	if h.overlapped(id) {
		h.viol(inflightSig, fmt.Sprintf("the Commit call of tx %d overlapped a TruncateUptoTx call and the tx was acknowledged; observed through %s: %s", id, sig, detail), nil)
		return
	}
	h.viol(sig, detail, nil)
}

// audit compares the store with the ledger after truncation up to cut.
func (h *hist) audit(st *store.ImmuStore, path string, cut uint64, label string, o auditOpts) *store.ImmuStore {
	ids := o.ids
	if ids == nil {
		ids = h.led.IDs()
	}
	if len(ids) == 0 {
		return st
	}
	all := h.led.IDs()
	maxID := all[len(all)-1]
	phase := strings.SplitN(label, "/", 2)[0]
	tx := store.NewTx(maxEntries, maxKeyLen)
	lastRec := h.led.Get(maxID)
	lastHdr, err := st.ReadTxHeader(maxID, false, false)
	if err != nil {
		h.viol("readtxheader/error", fmt.Sprintf("%s: ReadTxHeader(%d): %v", label, maxID, err), nil)
		return st
	}
	for _, id := range ids {
		rec := h.led.Get(id)
		p := h.places[id]
		pos := cutPos(id, cut)
		fp := func(path, outcome string) {
			h.c.Distinct(fmt.Sprintf("io=%d/place=%s/cut=%s/empty=%s/path=%s/%s", h.sp.IOConc, p, pos, p.emptyPat, path, outcome))
		}
		// header, hash
		hdr, err := st.ReadTxHeader(id, false, false)
		h.c.Eval(1)
		if err != nil {
			h.viol("readtxheader/error", fmt.Sprintf("%s: ReadTxHeader(%d) cut %d: %v", label, id, cut, err), nil)
			continue
		}
		if hdr.Alh() != rec.Alh {
			h.viol("readtxheader/alh-changed", fmt.Sprintf("%s: tx %d alh %x, acknowledged %x", label, id, hdr.Alh(), rec.Alh), nil)
		}
		if err := st.ReadTx(id, false, tx); err != nil {
			h.viol("readtx/error", fmt.Sprintf("%s: ReadTx(%d) cut %d: %v", label, id, cut, err), nil)
			continue
		}
		hb, _ := tx.Header().Bytes()
		if !bytes.Equal(hb, rec.Hdr) {
			h.viol("readtx/header-changed", fmt.Sprintf("%s: tx %d header bytes differ from the acknowledged ones", label, id), nil)
		}
		es := tx.Entries()
		if len(es) != len(rec.Entries) {
			h.viol("readtx/entry-count", fmt.Sprintf("%s: tx %d has %d entries, acknowledged %d", label, id, len(es), len(rec.Entries)), nil)
			continue
		}
		// values
		gone, present := 0, 0
		for i, e := range es {
			want := rec.Entries[i]
			if !bytes.Equal(e.Key(), want.Key) || e.VLen() != len(want.Value) || e.HVal() != sha256.Sum256(want.Value) {
				h.viol("readtx/entry-changed", fmt.Sprintf("%s: tx %d entry %d differs from the acknowledged one", label, id, i), nil)
				continue
			}
			v, err := st.ReadValue(e)
			h.c.Eval(1)
			if err != nil {
				if errors.Is(err, store.ErrAlreadyClosed) {
					return st
				}
				gone++
				if id >= cut {
					first := "nonempty-first-entry"
					if p.firstIsEm {
						first = "empty-first-entry"
					}
					h.lost(fmt.Sprintf("readvalue/unreadable-at-or-after-cut/%s/%s", first, errClass(err)), id,
						fmt.Sprintf("%s: after TruncateUptoTx(%d), ReadValue of tx %d entry %d (%q, %d bytes) fails: %v (%s; file size %d)", label, cut, id, i, want.Key, len(want.Value), err, h.describe(id), h.sp.FileSize))
				}
				continue
			}
			if len(want.Value) > 0 {
				present++
			}
			if !bytes.Equal(v, want.Value) {
				h.viol("readvalue/value-changed", fmt.Sprintf("%s: cut %d, tx %d entry %d (%q): value differs from the acknowledged one (len %d vs %d)", label, cut, id, i, want.Key, len(v), len(want.Value)), nil)
			}
		}
		out := "all-present"
		if gone > 0 && present > 0 {
			out = "partly-gone"
		} else if gone > 0 {
			out = "all-gone"
		}
		fp("readvalue", out)
		if gone > 0 {
			h.c.Count("txs_seen_truncated", 1)
		}
		if gone > 0 && present > 0 {
			h.c.Count("txs_seen_partially_truncated", 1)
		}
		// entry by key
		if e2, _, err := st.ReadTxEntry(id, rec.Entries[0].Key, false); err != nil {
			h.viol("readtxentry/error", fmt.Sprintf("%s: ReadTxEntry(%d, %q): %v", label, id, rec.Entries[0].Key, err), nil)
		} else if e2.HVal() != sha256.Sum256(rec.Entries[0].Value) {
			h.viol("readtxentry/differs", fmt.Sprintf("%s: ReadTxEntry(%d, %q) differs", label, id, rec.Entries[0].Key), nil)
		}
		// proof
		if id < maxID {
			proof, err := st.DualProof(hdr, lastHdr)
			h.c.Eval(1)
			if err != nil {
				h.viol("dualproof/error", fmt.Sprintf("%s: DualProof(%d, %d) cut %d: %v", label, id, maxID, cut, err), nil)
			} else if !store.VerifyDualProof(proof, id, maxID, rec.Alh, lastRec.Alh) {
				h.viol("dualproof/not-verified", fmt.Sprintf("%s: DualProof(%d, %d) cut %d does not verify against the acknowledged hashes", label, id, maxID, cut), nil)
			}
		}
		// export
		if o.export && !h.poisoned.Load() {
			if id < cut && h.noExportLow {
				h.c.Count("exports_below_cut_skipped_after_deadlocks", 1)
			} else {
				follow := maxID
				if id == maxID && len(all) > 1 {
					follow = all[len(all)-2]
				}
				fp("export", h.checkExport(st, id, cut, follow, label))
				if h.hangs >= hangBudget {
					h.noExportLow = true
				}
			}
		}
		if h.poisoned.Load() {
			// an export is stuck inside this instance: continue on a fresh one (the truncation is on disk)
			nst, ok := h.reopenInstance(st, path, label)
			if !ok {
				return nil
			}
			st = nst
			lastHdr, _ = st.ReadTxHeader(maxID, false, false)
		}
	}
	if o.index && h.waitIndexed(st) {
		keys := make([]string, 0, len(h.live))
		for k := range h.live {
			keys = append(keys, k)
		}
		sort.Strings(keys)
		ctx := context.Background()
		for _, k := range keys {
			lid := h.live[k]
			if lid > maxID {
				continue
			}
			vr, err := st.Get(ctx, []byte(k))
			h.c.Eval(1)
			if err != nil {
				h.viol("index/get-error", fmt.Sprintf("%s: cut %d: Get(%q): %v", label, cut, k, err), nil)
				continue
			}
			if vr.Tx() != lid || vr.HC() != uint64(len(h.hist[k])) {
				h.viol("index/get-wrong-version", fmt.Sprintf("%s: cut %d: Get(%q) returns tx %d revision %d, expected tx %d revision %d", label, cut, k, vr.Tx(), vr.HC(), lid, len(h.hist[k])), nil)
				continue
			}
			var want []byte
			for _, e := range h.led.Get(lid).Entries {
				if string(e.Key) == k {
					want = e.Value
				}
			}
			v, err := vr.Resolve()
			out := "ok"
			if err != nil {
				out = "unreadable"
				if lid >= cut {
					h.lost("index/resolve-unreadable-at-or-after-cut", lid, fmt.Sprintf("%s: cut %d: value of %q (live version in tx %d) unreadable: %v (%s)", label, cut, k, lid, err, h.describe(lid)))
				}
			} else if !bytes.Equal(v, want) {
				h.viol("index/resolve-value-changed", fmt.Sprintf("%s: cut %d: Get(%q) resolves to a different value", label, cut, k), nil)
			}
			p := h.places[lid]
			h.c.Distinct(fmt.Sprintf("io=%d/place=%s/cut=%s/empty=%s/path=get/%s", h.sp.IOConc, p, cutPos(lid, cut), p.emptyPat, out))
			refs, _, err := st.History([]byte(k), 0, false, 200)
			if err != nil {
				h.viol("index/history-error", fmt.Sprintf("%s: cut %d: History(%q): %v", label, cut, k, err), nil)
				continue
			}
			okh := len(refs) == len(h.hist[k])
			for i := 0; okh && i < len(refs); i++ {
				okh = refs[i].Tx() == h.hist[k][i]
			}
			if !okh {
				h.viol("index/history-differs", fmt.Sprintf("%s: cut %d: History(%q) has %d versions, acknowledged %d", label, cut, k, len(refs), len(h.hist[k])), nil)
			}
		}
	}
	_ = phase
	return st
}

// reopenInstance replaces a poisoned store instance; the stuck goroutines are abandoned.
func (h *hist) reopenInstance(st *store.ImmuStore, path, label string) (*store.ImmuStore, bool) {
	st.Close()
	nst, err := store.Open(path, h.sp.options())
	if err != nil {
		h.viol("reopen/failed", fmt.Sprintf("%s: store does not reopen: %v", label, err), nil)
		return nil, false
	}
	if st == h.st {
		h.st = nst
	}
	h.poisoned.Store(false)
	h.c.Count("instances_replaced_after_hang", 1)
	return nst, true
}

// ---- the phases ----

func (h *hist) cutPoints(r *rand.Rand, maxID uint64) []uint64 {
	var cuts []uint64
	for n := uint64(1); n <= maxID; n++ {
		cuts = append(cuts, n)
	}
	if h.sp.MaxCuts > 0 && len(cuts) > h.sp.MaxCuts {
		r.Shuffle(len(cuts), func(i, j int) { cuts[i], cuts[j] = cuts[j], cuts[i] })
		cuts = cuts[:h.sp.MaxCuts]
		sort.Slice(cuts, func(i, j int) bool { return cuts[i] < cuts[j] })
	}
	return cuts
}

// one cut on a private copy of the built store
func (h *hist) cutOnCopy(r *rand.Rand, cut uint64, k int) {
	cp := h.c.Dir("cut")
	defer os.RemoveAll(cp)
	if err := sth.CopyDir(h.dir, cp); err != nil {
		h.c.Inconclusive("copy: " + err.Error())
		return
	}
	st, err := store.Open(cp, h.sp.options())
	if err != nil {
		h.viol("open/copy-failed", fmt.Sprintf("a copy of the cleanly closed store does not open: %v", err), nil)
		return
	}
	defer func() {
		if st != nil && !h.abandoned.Load() {
			st.Close()
		}
		h.abandoned.Store(false)
		h.poisoned.Store(false)
		h.truncHangSeen = false
	}()
	label := fmt.Sprintf("cut/n=%d", cut)
	ids := h.led.IDs()
	if h.sp.VLogCache > 0 {
		// readers before the cut: fill the value cache with a PRNG subset (cached values may outlive their chunk)
		tx := store.NewTx(maxEntries, maxKeyLen)
		for _, id := range ids {
			if r.IntN(3) == 0 && st.ReadTx(id, false, tx) == nil {
				for _, e := range tx.Entries() {
					if r.IntN(2) == 0 {
						st.ReadValue(e)
					}
				}
			}
		}
	}
	h.tmu.Lock()
	h.truncs = nil
	h.tmu.Unlock()
	h.tb.Store(0)
	out := h.truncate(st, cut, label)
	mode := "single"
	switch k % 4 {
	case 1: // repeated: same cut again, then a lower one
		mode = "repeated"
		h.truncate(st, cut, label+"/again")
		if cut > 1 {
			h.truncate(st, 1+r.Uint64N(cut-1), label+"/lower")
		}
	case 2: // concurrent: same and lower cut at once
		mode = "concurrent"
		var wg sync.WaitGroup
		for i := 0; i < 2; i++ {
			wg.Add(1)
			c2 := cut
			if i == 1 && cut > 1 {
				c2 = 1 + r.Uint64N(cut)
			}
			go func() { defer wg.Done(); h.truncate(st, c2, label+"/concurrent") }()
		}
		wg.Wait()
	}
	h.c.Distinct(fmt.Sprintf("truncate/io=%d/cut-phase/%s/%s", h.sp.IOConc, mode, strings.SplitN(out, ":", 2)[0]))
	if h.abandoned.Load() {
		h.c.Count("instances_abandoned_after_truncation_deadlock", 1)
		return // value logs are held forever by the stuck truncations: nothing can be read or closed
	}
	st = h.audit(st, cp, cut, label, auditOpts{export: true, index: k%3 == 0})
	if k%4 == 3 && st != nil {
		// restart
		st.Close()
		st, err = store.Open(cp, h.sp.options())
		if err != nil {
			h.viol("reopen/failed", fmt.Sprintf("%s: the truncated store does not reopen: %v", label, err), nil)
			st = nil
			return
		}
		st = h.audit(st, cp, cut, label+"/restart", auditOpts{export: true, index: true})
	}
}

// truncations racing with writers and readers, in place; then quiescent audit, restart, audit
func (h *hist) racePhase() {
	if err := h.open(); err != nil {
		h.viol("reopen/failed", fmt.Sprintf("store does not reopen after a clean close: %v", err), nil)
		return
	}
	st := h.st
	h.tmu.Lock()
	h.truncs = nil
	h.tmu.Unlock()
	h.tb.Store(0)
	base := h.led.Len()
	var wg sync.WaitGroup
	done := make(chan struct{})
	stop := make(chan struct{})
	var exportsOff atomic.Bool
	// truncators: K truncations each, paced by the ledger's growth (logical time)
	const K = 6
	for t := 0; t < h.sp.Truncators; t++ {
		wg.Add(1)
		go func(t int) {
			defer wg.Done()
			r := fw.NewRand(h.c.Seed, fmt.Sprintf("c14/%s/race/truncator%d", h.sp.Name, t))
			for k := 1; k <= K; k++ {
				target := base + k*h.sp.RaceTx/(K+1)
				for i := 0; i < 200000 && h.led.Len() < target; i++ {
					select {
					case <-stop:
						i = 200000
					default:
						time.Sleep(50 * time.Microsecond)
					}
				}
				m := h.led.Max()
				if m < 2 {
					continue
				}
				if h.abandoned.Load() {
					return
				}
				var cut uint64
				switch r.IntN(3) {
				case 0: // close to the head: races with values already written by txs not yet committed
					cut = m - r.Uint64N(min(m-1, 4))
				case 1:
					cut = 1 + r.Uint64N(m)
				default:
					lo := h.tb.Load()
					if lo < 1 || lo >= m {
						lo = 1
					}
					cut = lo + r.Uint64N(m-lo+1)
				}
				h.truncate(st, cut, fmt.Sprintf("race/n=%d", cut))
			}
		}(t)
	}
	// readers
	for rd := 0; rd < 2; rd++ {
		wg.Add(1)
		go func(rd int) {
			defer wg.Done()
			r := fw.NewRand(h.c.Seed, fmt.Sprintf("c14/%s/race/reader%d", h.sp.Name, rd))
			tx := store.NewTx(maxEntries, maxKeyLen)
			for n := 0; ; n++ {
				select {
				case <-stop:
					return
				default:
				}
				if h.abandoned.Load() {
					return
				}
				runtime.Gosched()
				m := h.led.Max()
				lo := max(h.tb.Load(), 1)
				if m < lo {
					continue
				}
				id := lo + r.Uint64N(m-lo+1)
				rec := h.led.Get(id)
				if rec == nil {
					continue
				}
				if err := st.ReadTx(id, false, tx); err != nil {
					h.viol("race/readtx/error", fmt.Sprintf("ReadTx(%d) while truncating: %v", id, err), nil)
					continue
				}
				for i, e := range tx.Entries() {
					if i >= len(rec.Entries) {
						break
					}
					v, err := st.ReadValue(e)
					h.c.Eval(1)
					h.progress.Add(1)
					if err != nil {
						if id >= h.tb.Load() { // no truncation beyond id was even requested
							h.lost("race/readvalue/unreadable-at-or-after-every-cut/"+errClass(err), id, fmt.Sprintf("while truncations up to at most %d ran, ReadValue of tx %d entry %d fails: %v", h.tb.Load(), id, i, err))
						}
						continue
					}
					if !bytes.Equal(v, rec.Entries[i].Value) {
						h.viol("race/readvalue/value-changed", fmt.Sprintf("tx %d entry %d read while truncating differs from the acknowledged value", id, i), nil)
					}
				}
				if n%4 == 0 && !exportsOff.Load() {
					b, err, ok, gid := h.export(st, id)
					h.c.Eval(1)
					if !ok {
						exportsOff.Store(true)
						h.hang(gid, "exporttx", "race/reader", "")
						continue
					}
					if err != nil && id >= h.tb.Load() {
						h.lost("race/exporttx/error-at-or-after-every-cut/"+errClass(err), id, fmt.Sprintf("ExportTx(%d) while truncations up to at most %d ran: %v", id, h.tb.Load(), err))
					}
					if err == nil {
						if ex, perr := parseExport(b); perr != nil {
							h.viol("exporttx/malformed", fmt.Sprintf("race: ExportTx(%d): %v", id, perr), nil)
						} else if ex.truncated && id >= h.tb.Load() {
							h.lost("race/exporttx/by-digest-at-or-after-every-cut", id, fmt.Sprintf("ExportTx(%d) exported digests while truncations up to at most %d ran", id, h.tb.Load()))
						}
					}
					if err != nil && strings.Contains(err.Error(), "partially truncated") {
						// the next export tells whether the store still serves
						_, _, ok, gid := h.export(st, id)
						if !ok {
							exportsOff.Store(true)
							h.hang(gid, "exporttx", "race/reader/follow-up", err.Error())
						}
					}
				}
			}
		}(rd)
	}
	go func() {
		defer close(done)
		h.write("race", h.sp.RaceTx)
		close(stop)
		wg.Wait()
	}()
	// supervisor: the phase must keep completing operations; what a stall means is decided from goroutine state
	last, idle := h.progress.Load(), 0
	for running := true; running; {
		select {
		case <-done:
			running = false
		case <-time.After(500 * time.Millisecond):
			if cur := h.progress.Load(); cur != last {
				last, idle = cur, 0
			} else if idle++; time.Duration(idle)*500*time.Millisecond > stallLimit {
				if !h.abandoned.Load() {
					h.abandoned.Store(true)
					v := storeStall()
					if v.Deadlock {
						sig := fmt.Sprintf("race/deadlock/%s@%s", v.Prim, v.Frame)
						if strings.HasSuffix(v.Frame, ".fetchVLog") || strings.HasSuffix(v.Frame, ".fetchAnyVLog") {
							sig = truncHoldSig
						}
						h.viol(sig, fmt.Sprintf("race: writers, readers and %d truncators stopped completing operations; goroutines inside the store are parked with identical stacks in two dumps 2 s apart (%s in %s)", h.sp.Truncators, v.Prim, v.Frame), map[string][]byte{"goroutines.txt": []byte(v.Dump)})
					} else {
						h.c.Inconclusive(fmt.Sprintf("[%s] race phase stopped making progress; goroutine state does not prove a deadlock: %s", h.sp, v.Why))
					}
				}
				h.c.Count("race_phases_abandoned", 1)
				return // the stuck goroutines and the store instance are abandoned
			}
		}
	}
	if h.abandoned.Load() {
		h.c.Count("race_phases_abandoned", 1)
		return
	}
	cut := h.tb.Load()
	h.c.Distinct(fmt.Sprintf("race/io=%d/truncators=%d/committers=%d", h.sp.IOConc, h.sp.Truncators, h.sp.Committers))
	if h.poisoned.Load() {
		if _, ok := h.reopenInstance(h.st, h.dir, "race"); !ok {
			return
		}
	}
	if !h.waitIndexed(h.st) {
		h.st.Close()
		return
	}
	h.rebuildModel(h.st)
	if h.audit(h.st, h.dir, cut, fmt.Sprintf("race-quiescent/n=%d", cut), auditOpts{export: true, index: true}) == nil {
		return
	}
	if err := h.st.Close(); err != nil {
		h.c.Note(fmt.Sprintf("[%s] close: %v", h.sp.Name, err))
	}
	if err := h.open(); err != nil {
		h.viol("reopen/failed", fmt.Sprintf("store does not reopen after truncation: %v", err), nil)
		return
	}
	if h.audit(h.st, h.dir, cut, fmt.Sprintf("race-restart/n=%d", cut), auditOpts{export: true, index: true}) == nil {
		return
	}
	h.gatePhase()
	if h.abandoned.Load() {
		return
	}
	// restart after the forced schedules: what they truncated must stay as audited
	if err := h.st.Close(); err != nil {
		h.c.Note(fmt.Sprintf("[%s] close: %v", h.sp.Name, err))
	}
	if err := h.open(); err != nil {
		h.viol("reopen/failed", fmt.Sprintf("store does not reopen after the gate phase: %v", err), nil)
		return
	}
	// the store keeps accepting writes after truncation + restart
	r := fw.NewRand(h.c.Seed, "c14/"+h.sp.Name+"/after")
	for i := 0; i < 3; i++ {
		if err := h.commitOne(h.genTx(r, 99)); err != nil {
			h.viol("commit/fails-after-truncation-and-restart", err.Error(), nil)
		}
	}
	h.rebuildModel(h.st)
	cut = h.tb.Load() // the gate phase truncated further
	if h.audit(h.st, h.dir, cut, fmt.Sprintf("after-restart-writes/n=%d", cut), auditOpts{export: false, index: true}) != nil {
		h.st.Close()
	}
}

// genFat: a tx whose first value is longer than a value-log chunk (so consecutive ones in one value log
// always lie in different chunks); optionally followed by small / empty values
func (h *hist) genFat(r *rand.Rand, g int, tail bool) []ledger.Entry {
	mk := func(n int) ledger.Entry {
		k := fmt.Sprintf("f%d-%d", g, h.keySeq.Add(1))
		v := make([]byte, n)
		copy(v, k)
		for j := len(k); j < n; j++ {
			v[j] = byte(r.IntN(256))
		}
		return ledger.Entry{Key: []byte(k), Value: v}
	}
	es := []ledger.Entry{mk(h.sp.FileSize + 17 + r.IntN(40))}
	if tail {
		switch r.IntN(3) {
		case 0:
			es = append(es, mk(0))
		case 1:
			es = append(es, mk(9), mk(0))
		}
	} else if r.IntN(2) == 0 {
		es = append(es, mk(1+r.IntN(60)))
	}
	return es
}

func (h *hist) onPoint(site string) {
	if site == "store.precommit.beforeLock" && h.gateArmed.CompareAndSwap(true, false) {
		close(h.gateReached)
		<-h.gate
	}
}

// gatePhase forces the schedule the free-running race reaches only by chance: a writer has appended
// its values and waits in front of the store lock (hook point, no lock held) while other txs are
// committed and a truncation up to the last committed tx runs; then the writer commits.
func (h *hist) gatePhase() {
	r := fw.NewRand(h.c.Seed, "c14/"+h.sp.Name+"/gate")
	for round := 0; round < 6; round++ {
		// rounds 4, 5: the held writer is overtaken by MORE than MaxConcurrency committed txs and the cut lies
		// between its early values and its late id (further apart than the "max concurrency range")
		far := round >= 4
		if far && h.sp.Embedded {
			break
		}
		h.gate, h.gateReached = make(chan struct{}), make(chan struct{})
		esA := h.genTx(r, 50+round)
		if far {
			esA = h.genFat(r, 50+round, false)
		}
		resA := make(chan error, 1)
		h.gateArmed.Store(true)
		go func() { resA <- h.commitOne(esA) }()
		select {
		case <-h.gateReached:
		case err := <-resA:
			h.gateArmed.Store(false)
			h.c.Note(fmt.Sprintf("[%s] gated commit returned before the hook point: %v", h.sp.Name, err))
			continue
		case <-time.After(slowLimit):
			h.gateArmed.Store(false)
			h.c.Inconclusive(fmt.Sprintf("[%s] gated writer did not reach the hook point", h.sp))
			return
		}
		m := h.sp.IOConc + 1 + r.IntN(4)
		var farCut uint64
		if far {
			// first enough chunk-sized txs to put a chunk boundary between the held values and the tx at the cut
			// in every value log, then more than MaxConcurrency further txs
			pre := 2*h.sp.IOConc + 1 + r.IntN(3)
			for i := 0; i < pre; i++ {
				if err := h.commitOne(h.genFat(r, 60+round, true)); err != nil {
					h.c.Note(fmt.Sprintf("[%s] commit while a writer is gated: %v", h.sp.Name, err))
				}
			}
			farCut = h.led.Max() - r.Uint64N(2)
			m = h.sp.maxConc() + 1 + r.IntN(3)
		}
		for i := 0; i < m; i++ {
			es := h.genTx(r, 60+round)
			// an empty first value has offset 0 in its value log: the forward walk then lowers that log's tombstone
			// to 0 and nothing is deleted at all; in the later rounds the overtaking txs start with a real value
			for round >= 3 && len(es[0].Value) == 0 {
				es = h.genTx(r, 60+round)
			}
			if err := h.commitOne(es); err != nil {
				h.c.Note(fmt.Sprintf("[%s] commit while a writer is gated: %v", h.sp.Name, err))
			}
		}
		cut := h.led.Max()
		out, mode := "", "truncate-while-gated"
		if far {
			cut = farCut
		}
		if round%2 == 0 && !far {
			out = h.truncate(h.st, cut, fmt.Sprintf("gate/n=%d", cut))
		}
		close(h.gate)
		if h.abandoned.Load() {
			return
		}
		select {
		case err := <-resA:
			if err != nil {
				h.c.Note(fmt.Sprintf("[%s] gated commit failed: %v", h.sp.Name, err))
			}
		case <-time.After(slowLimit):
			h.c.Inconclusive(fmt.Sprintf("[%s] gated commit did not return", h.sp))
			h.abandoned.Store(true)
			return
		}
		if far {
			// the overtaken tx is committed with an id more than MaxConcurrency above the cut
			mode = "truncate-after-overtaken-commit-beyond-maxconcurrency"
			idA := h.led.Max()
			out = h.truncate(h.st, cut, fmt.Sprintf("gate-far/n=%d", cut))
			if h.abandoned.Load() {
				return
			}
			if idA <= cut+uint64(h.sp.maxConc()) {
				h.c.Note(fmt.Sprintf("[%s] far gate round: distance %d not beyond MaxConcurrency %d", h.sp.Name, idA-cut, h.sp.maxConc()))
			} else {
				h.c.Count("gate_far_rounds", 1)
			}
		} else if round%2 == 1 {
			// the overtaken tx is committed (id cut+1, values placed before those of txs <= cut): only the
			// forward walk of TruncateUptoTx protects it
			mode = "truncate-after-overtaken-commit"
			out = h.truncate(h.st, cut, fmt.Sprintf("gate/n=%d", cut))
			if h.abandoned.Load() {
				return
			}
		}
		if !h.waitIndexed(h.st) {
			h.abandoned.Store(true)
			return
		}
		h.rebuildModel(h.st)
		h.c.Distinct(fmt.Sprintf("gate/io=%d/%s/txs-committed-while-gated=%d/truncate=%s", h.sp.IOConc, mode, m, strings.SplitN(out, ":", 2)[0]))
		ids := h.led.IDs()
		lo := 0
		for lo < len(ids) && ids[lo]+4 < cut {
			lo++
		}
		if h.audit(h.st, h.dir, max(h.tb.Load(), cut), fmt.Sprintf("gate/n=%d", cut), auditOpts{export: true, ids: ids[lo:]}) == nil {
			h.abandoned.Store(true)
			return
		}
	}
}

func runStoreHistory(c *fw.Ctx, sp spec) {
	h := &hist{c: c, sp: sp, dir: c.Dir("c14-" + sp.Name), led: ledger.New(), spans: map[uint64][2]int64{}}
	defer os.RemoveAll(h.dir)
	hk := hook.Install(&hook.Config{Seed: c.Seed + int64(len(sp.Name))*7919, Perturb: sp.Perturb, MaxSleep: 4 * time.Millisecond,
		Sites: map[string]bool{"store.precommit.beforeLock": true}, OnPoint: h.onPoint})
	defer hook.Uninstall()
	if err := h.open(); err != nil {
		c.Inconclusive("open: " + err.Error())
		return
	}
	t0 := time.Now()
	lap := func(name string) { // wall time per phase: evidence only, never part of a verdict
		c.Count("ms_"+name, time.Since(t0).Milliseconds())
		t0 = time.Now()
	}
	h.write("build", sp.NTx)
	if !h.waitIndexed(h.st) {
		h.st.Close()
		return
	}
	h.rebuildModel(h.st)
	// before any truncation: everything readable (cut 0)
	if h.audit(h.st, h.dir, 0, "built", auditOpts{export: true, index: true}) == nil {
		return
	}
	if err := h.st.Close(); err != nil {
		c.Note("close: " + err.Error())
	}
	ooo, span := 0, 0
	for _, p := range h.places {
		if p.early {
			ooo++
		}
		if p.span {
			span++
		}
	}
	lap("build")
	c.Count("txs_written", int64(h.led.Len()))
	c.Count("txs_placed_out_of_id_order", int64(ooo))
	c.Count("txs_spanning_chunks", int64(span))
	ids := h.led.IDs()
	if len(ids) == 0 {
		c.Inconclusive("nothing committed")
		return
	}
	r := fw.NewRand(c.Seed, "c14/"+sp.Name+"/cuts")
	for k, cut := range h.cutPoints(r, ids[len(ids)-1]) {
		h.cutOnCopy(r, cut, k)
	}
	lap("cuts")
	if sp.RaceTx > 0 {
		h.racePhase()
	}
	lap("race")
	if hk.Hits()["store.precommit.beforeLock"] == 0 {
		c.Inconclusive("hook site store.precommit.beforeLock never reached: was the harness built with -tags verif?")
	}
	c.Sample(map[string]any{"history": sp.String(), "txs": h.led.Len(), "placed_out_of_order": ooo, "spanning_chunks": span, "deadlock_diagnoses": h.hangs})
}
