package c13s

import (
	"fmt"
	"strconv"
	"strings"
	"sync"
	"time"

	"github.com/codenotary/immudb/pkg/api/schema"
	"google.golang.org/protobuf/types/known/emptypb"

	"verifharness/internal/fw"
)

type mark struct{ idx, ticket int }

// txRec is what was observed of one transaction (or one autocommit statement).
type txRec struct {
	P        *prog
	Sub      int // autocommit: statement index
	Obs      []obs
	lo       mark
	hi       map[string]mark
	Began    bool
	Aborted  string // error class of the statement that aborted it
	Outcome  string
	Writer   bool // committed with effects and judged at its commit position
	Reader   bool // to be judged against a fixed snapshot inside its window
	Skip     bool // an error no model run expects was returned: statement-level oracle not applied
	NoEffect bool // committed, but the committed state did not change: must be explained by a snapshot on which it changes nothing
	Reported int  // UpdatedRows reported by gRPC Commit (-1 = none)
}

func (t *txRec) name() string { return fmt.Sprintf("tx%d.%d", t.P.TxID, t.Sub) }

func (t *txRec) usesRollTo() bool {
	for i := range t.Obs {
		if t.Obs[i].St.K == kRollTo {
			return true
		}
	}
	return false
}

// cas is one case: one server, one database, concurrent sessions.
type cas struct {
	c   *fw.Ctx
	e   *env
	tag string

	mu          sync.Mutex // the commit lock: everything that may change the committed state, and every read by an observer, runs under it
	smu         sync.Mutex
	states      []*state
	ticketSeq   int
	inflight    int
	ticketState map[int]int
	txs         []*txRec
	byID        map[int]*txRec

	obsSid string
	obsPg  *pgSess
	obsN   int
	stuck  bool
}

func (k *cas) mark() mark {
	k.smu.Lock()
	defer k.smu.Unlock()
	return mark{len(k.states) - 1, k.inflight}
}

func (k *cas) addTx(t *txRec) {
	k.smu.Lock()
	k.txs = append(k.txs, t)
	if t.Sub == 0 {
		k.byID[t.P.TxID] = t
	}
	k.smu.Unlock()
}

func (k *cas) touch(t *txRec, s *stmt) {
	tb := s.K.table()
	if tb == "" {
		return
	}
	if _, ok := t.hi[tb]; !ok {
		t.hi[tb] = k.mark()
	}
}

// section runs fn under the commit lock. fn gets the committed model state and returns the new one (nil = unchanged).
func (k *cas) section(fn func(base *state) *state) {
	k.mu.Lock()
	defer k.mu.Unlock()
	k.smu.Lock()
	k.ticketSeq++
	tk := k.ticketSeq
	k.inflight = tk
	base := k.states[len(k.states)-1]
	k.smu.Unlock()
	next := fn(base)
	k.smu.Lock()
	if next != nil {
		k.states = append(k.states, next)
		k.ticketState[tk] = len(k.states) - 1
	}
	k.inflight = 0
	k.smu.Unlock()
}

func parseState(a, b rows) (*state, error) {
	s := newState()
	for _, r := range a {
		if len(r) != 3 {
			return nil, fmt.Errorf("row of a with %d columns", len(r))
		}
		id, e1 := strconv.ParseInt(r[0], 10, 64)
		v, e2 := strconv.ParseInt(r[1], 10, 64)
		if e1 != nil || e2 != nil {
			return nil, fmt.Errorf("unreadable row of a: %v", r)
		}
		s.A[id] = rowA{v, r[2]}
	}
	for _, r := range b {
		v, err := strconv.ParseInt(r[0], 10, 64)
		if err != nil {
			return nil, fmt.Errorf("unreadable row of b: %v", r)
		}
		s.B[v] = true
	}
	return s, nil
}

const qAllA = "SELECT id, v, s FROM a ORDER BY id"
const qAllB = "SELECT v FROM b"

// observe reads both tables from a session that is not running a transaction (alternating front-ends). Call under the commit lock.
func (k *cas) observe() (*state, string, error) {
	k.obsN++
	if k.obsN%2 == 0 && k.obsPg != nil {
		ra := k.obsPg.simple(qAllA)[0]
		rb := k.obsPg.simple(qAllB)[0]
		if ra.Err != "" || rb.Err != "" {
			return nil, "pgwire", fmt.Errorf("observer: %s %s", ra.Err, rb.Err)
		}
		s, err := parseState(ra.Rows, rb.Rows)
		return s, "pgwire", err
	}
	return k.observeGRPC(k.obsSid)
}

func (k *cas) observeGRPC(sid string) (*state, string, error) {
	ra, err := k.e.grpcQuery(sid, "", qAllA, nil)
	if err != nil {
		return nil, "grpc-session", err
	}
	rb, err := k.e.grpcQuery(sid, "", qAllB, nil)
	if err != nil {
		return nil, "grpc-session", err
	}
	s, err := parseState(ra, rb)
	return s, "grpc-session", err
}

// blame names the transaction whose marker is on rows that are visible but should not be.
func (k *cas) blame(o, want *state) *txRec {
	ids := map[int]bool{}
	for id, r := range o.A {
		if w, ok := want.A[id]; ok && w == r {
			continue
		}
		var tx, i int
		if n, _ := fmt.Sscanf(r.S, "t%d.%d", &tx, &i); n == 2 {
			ids[tx] = true
		}
	}
	for tag := range o.B {
		if !want.B[tag] && tag >= 1000 {
			ids[int(tag/1000)] = true
		}
	}
	if len(ids) != 1 {
		return nil
	}
	k.smu.Lock()
	defer k.smu.Unlock()
	for id := range ids {
		return k.byID[id]
	}
	return nil
}

// expect compares what another session sees with the model state; on a difference it raises the violation and
// returns the observed state (the model follows what is really there, so that one defect is reported once).
func (k *cas) expect(want *state, t *txRec, sig, what string) *state {
	return k.expectAlt(want, nil, t, sig, what)
}

// expectAlt: alt is what the known open defect (ROLLBACK TO SAVEPOINT keeps the writes) would leave.
func (k *cas) expectAlt(want, alt *state, t *txRec, sig, what string) *state {
	o, via, err := k.observe()
	if err != nil {
		k.c.Inconclusive(fmt.Sprintf("[%s] %v", k.tag, err))
		return nil
	}
	k.c.Eval(1)
	if o.text() == want.text() {
		return nil
	}
	if alt != nil && o.text() == alt.text() {
		k.c.Violation("sqltx/rollback-to-savepoint-keeps-writes", fmt.Sprintf("[%s] via %s: %s committed the writes made after a savepoint it had rolled back to: %s", k.tag, feName[t.P.FE], t.name(), t.P.text()), nil)
		return o
	}
	detail := fmt.Sprintf("[%s] %s: a session reading through %s sees\n  %s\nbut the committed transactions give\n  %s", k.tag, what, via, o.text(), want.text())
	if t != nil {
		detail += "\nprogram: " + t.P.text() + "\nobserved: " + obsText(t.Obs)
	}
	if b := k.blame(o, want); b != nil && b != t && b.Outcome != "committed" {
		sig = fmt.Sprintf("%s/%s-tx-visible", feName[b.P.FE], outcomeKind(b))
		detail += "\nthe visible rows carry the marker of " + b.name() + ": " + b.P.text() + " (outcome " + b.Outcome + ")"
	}
	k.c.Violation(sig, detail, nil)
	return o
}

func outcomeKind(t *txRec) string {
	if t.Outcome == "" {
		return "open"
	}
	return t.Outcome
}

func obsText(ob []obs) string {
	var b strings.Builder
	for i := range ob {
		o := &ob[i]
		fmt.Fprintf(&b, "\n    %s", o.St.text())
		switch {
		case o.Err != "":
			fmt.Fprintf(&b, " -> error %q", o.Err)
		case o.St.K.isQuery():
			fmt.Fprintf(&b, " -> %s", o.Rows)
		case o.Tag != "":
			fmt.Fprintf(&b, " -> %q", o.Tag)
		}
	}
	return b.String()
}

func errClass(s string) string {
	l := strings.ToLower(s)
	switch {
	case s == "":
		return "ok"
	case strings.Contains(l, "key already exists"):
		return "dup"
	case strings.Contains(l, "not nullable"):
		return "notnull"
	case strings.Contains(l, "column does not exist"):
		return "nocol"
	case strings.Contains(l, "read-only transaction"):
		return "readonly"
	case strings.Contains(l, "no transaction found"), strings.Contains(l, "no ongoing transaction"), strings.Contains(l, "transaction not found"):
		return "notx"
	case strings.Contains(l, "conflict"):
		return "conflict"
	case strings.Contains(l, "session not found"):
		return "nosession"
	case strings.Contains(l, "nested tx"):
		return "nested"
	case strings.Contains(l, "savepoint"):
		return "savepoint"
	case strings.Contains(l, "25p02"), strings.Contains(l, "transaction is aborted"):
		return "aborted-block"
	case strings.Contains(l, "copy-row-error"):
		return "copy-row-error"
	case strings.Contains(l, "syntax error"):
		return "syntax"
	}
	if i := strings.Index(s, "desc = "); i >= 0 {
		s = s[i+7:]
	}
	if len(s) > 40 {
		s = s[:40]
	}
	return s
}

func errStr(err error) string {
	if err == nil {
		return ""
	}
	return err.Error()
}

// ---- judging a transaction whose effects were committed ----

// committed is called under the commit lock right after a COMMIT was acknowledged.
func (k *cas) committed(t *txRec, base *state) *state {
	fe := feName[t.P.FE]
	t.Outcome = "committed"
	v0, r0, ok0, w0 := replay(base, t.P.RO, false, t.Obs)
	v, r, ok, where := v0, r0, ok0, w0
	o, via, err := k.observe()
	if err != nil {
		k.c.Inconclusive(fmt.Sprintf("[%s] %v", k.tag, err))
		t.Skip = true
		return v0.st
	}
	k.c.Eval(1)
	switch {
	case o.text() == v0.st.text():
	case o.text() == base.text() && t.Aborted == "":
		// nothing changed: on its own snapshot the transaction may have had no effect at all (then nothing was
		// validated at commit); it is judged like a reader, with the extra demand that its statements change nothing
		t.Reader, t.NoEffect = true, true
		return nil
	case t.usesRollTo():
		v1, r1, ok1, w1 := replay(base, t.P.RO, true, t.Obs)
		if o.text() != v1.st.text() {
			k.c.Violation(fe+"/committed-state-mismatch", fmt.Sprintf("[%s] after the acknowledged COMMIT of %s a session reading through %s sees\n  %s\nexpected\n  %s\nprogram: %s\nobserved: %s",
				k.tag, t.name(), via, o.text(), v0.st.text(), t.P.text(), obsText(t.Obs)), nil)
			t.Skip = true
			return o
		}
		v, r, ok, where = v1, r1, ok1, w1
		k.c.Violation("sqltx/rollback-to-savepoint-keeps-writes", fmt.Sprintf("[%s] via %s: %s committed the writes made after a savepoint it had rolled back to: %s", k.tag, fe, t.name(), t.P.text()), nil)
	default:
		sig := fe + "/committed-state-mismatch"
		if t.Aborted != "" {
			sig = fe + "/commit-after-failed-statement-applied"
		}
		if b := k.blame(o, v0.st); b != nil && b != t && b.Outcome != "committed" {
			sig = fmt.Sprintf("%s/%s-tx-visible", feName[b.P.FE], outcomeKind(b)) // rows of another, never committed tx
		}
		k.c.Violation(sig, fmt.Sprintf("[%s] after the acknowledged COMMIT of %s a session reading through %s sees\n  %s\nexpected\n  %s\nprogram: %s\nobserved: %s",
			k.tag, t.name(), via, o.text(), v0.st.text(), t.P.text(), obsText(t.Obs)), nil)
		t.Skip = true
		return o
	}
	changed := v.st.text() != base.text()
	switch {
	case ok:
		t.Writer = true
		k.c.Eval(1)
		k.reported(t, v, r)
	case !changed:
		t.Reader = true // no effects: nothing was validated at commit, its reads are judged against its snapshot window
	case !t.Skip:
		k.c.Eval(1)
		t.Skip = true
		k.c.Violation(fe+"/committed-tx-statement-mismatch", fmt.Sprintf("[%s] %s was committed, but statement %d did not see the state at its commit position plus its own earlier changes\n  state before: %s\nprogram: %s\nobserved: %s",
			k.tag, t.name(), where, base.text(), t.P.text(), obsText(t.Obs)), nil)
	}
	if !changed {
		return nil
	}
	return v.st
}

// reported checks the affected-row counts and generated keys the front-end reported against the model run that explains the tx.
func (k *cas) reported(t *txRec, v *view, r []res) { k.reportedDry(t, v, r, false) }

// reportedDry: with dry set nothing is recorded; the number of disagreements is returned.
func (k *cas) reportedDry(t *txRec, v *view, r []res, dry bool) (bad int) {
	fe := feName[t.P.FE]
	for i := range t.Obs {
		o := &t.Obs[i]
		if o.St.K == kRollTo {
			// known open defect (ROLLBACK TO SAVEPOINT keeps the writes): when no read tells the two readings apart the
			// model run may not be the one the engine followed, so counts after it are not judged
			break
		}
		if i >= len(r) || o.Err != "" || !o.St.K.isDML() {
			continue
		}
		verb := o.St.K.verb()
		n := o.N
		if t.P.FE == fePG {
			if verb == "UPSERT" || o.Tag == "" {
				continue
			}
			f := strings.Fields(o.Tag)
			x, err := strconv.Atoi(f[len(f)-1])
			if err != nil || !strings.EqualFold(f[0], verb) {
				if !dry {
					k.c.Count("pg_tag_unparsed", 1)
				}
				continue
			}
			n = x
		}
		if n < 0 {
			continue
		}
		if dry {
			if n != r[i].N {
				bad++
			}
			continue
		}
		k.c.Eval(1)
		if n != r[i].N {
			sig := fe + "/sqlexec-updated-rows-mismatch/" + verb
			if t.P.FE == fePG {
				sig = "pgwire/command-tag-affected-rows-mismatch/" + verb
			}
			k.c.Violation(sig, fmt.Sprintf("[%s] %s: %q changed %d row(s) but the front-end reported %d (%q, sent %s)\nprogram: %s\nobserved: %s", k.tag, t.name(), o.St.text(), r[i].N, n, o.Tag, o.Via, t.P.text(), obsText(t.Obs)), nil)
		}
	}
	if t.Reported >= 0 && !t.P.Auto && !t.usesRollTo() {
		if dry {
			if t.Reported != v.total {
				bad++
			}
			return
		}
		k.c.Eval(1)
		if t.Reported != v.total {
			k.c.Violation(fe+"/commit-updated-rows-mismatch", fmt.Sprintf("[%s] Commit of %s reported UpdatedRows=%d, the statements changed %d rows\nprogram: %s", k.tag, t.name(), t.Reported, v.total, t.P.text()), nil)
		}
	}
	return
}

// ---- window oracle for transactions that were not committed (or had no effects) ----

func (k *cas) hiOf(m mark) int {
	h := m.idx
	if m.ticket != 0 {
		if i, ok := k.ticketState[m.ticket]; ok && i == m.idx+1 {
			h = m.idx + 1
		}
	}
	return h
}

func (k *cas) judgeReader(t *txRec) {
	if t.Skip || !t.Began || len(t.Obs) == 0 {
		return
	}
	fe := feName[t.P.FE]
	lo := t.lo.idx
	ha, hb := lo, lo
	if m, ok := t.hi["a"]; ok {
		ha = k.hiOf(m)
	}
	if m, ok := t.hi["b"]; ok {
		hb = k.hiOf(m)
	}
	k.c.Eval(1)
	keeps := []bool{false}
	if t.usesRollTo() {
		keeps = append(keeps, true)
	}
	single := false
	// several states may explain the reads; the reported counts are judged against one that explains them too, if any
	for pass := 0; pass < 2; pass++ {
		for ia := lo; ia <= ha; ia++ {
			for ib := lo; ib <= hb; ib++ {
				base := &state{A: k.states[ia].A, B: k.states[ib].B}
				for _, keep := range keeps {
					v, r, ok, _ := replay(base, t.P.RO, keep, t.Obs)
					if !ok || t.NoEffect && v.st.text() != base.text() {
						continue
					}
					if pass == 0 && k.reportedDry(t, v, r, true) > 0 {
						continue
					}
					if keep {
						// is the correct reading refuted? only then it is the known defect
						if _, _, ok0, _ := replay(base, t.P.RO, false, t.Obs); !ok0 {
							k.c.Violation("sqltx/rollback-to-savepoint-keeps-writes", fmt.Sprintf("[%s] via %s: inside %s the statements after ROLLBACK TO SAVEPOINT still saw the writes made after the savepoint: %s\nobserved: %s", k.tag, fe, t.name(), t.P.text(), obsText(t.Obs)), nil)
						}
					}
					if ia == ib {
						single = true
					}
					k.reported(t, v, r)
					if !single {
						k.c.Count("reader_explained_only_per_table", 1)
					}
					return
				}
			}
		}
	}
	var cands []string
	for i := lo; i <= ha || i <= hb; i++ {
		cands = append(cands, fmt.Sprintf("#%d %s", i, k.states[i].text()))
	}
	k.c.Violation(fe+"/unexplained-read", fmt.Sprintf("[%s] the statement results of %s (outcome %s) are not explained by any committed state between its BEGIN and its first read plus its own earlier changes\ncandidate states:\n  %s\nprogram: %s\nobserved: %s",
		k.tag, t.name(), t.Outcome, strings.Join(cands, "\n  "), t.P.text(), obsText(t.Obs)), nil)
}

// ---- gRPC sessions ----

type sess struct {
	k   *cas
	idx int
	sid string
	pg  *pgSess
}

func namedParams(ps []any) []*schema.NamedParam {
	var out []*schema.NamedParam
	for i, p := range ps {
		np := &schema.NamedParam{Name: fmt.Sprintf("p%d", i+1)}
		switch x := p.(type) {
		case int64:
			np.Value = &schema.SQLValue{Value: &schema.SQLValue_N{N: x}}
		case string:
			np.Value = &schema.SQLValue{Value: &schema.SQLValue_S{S: x}}
		default:
			np.Value = &schema.SQLValue{Value: &schema.SQLValue_Null{}}
		}
		out = append(out, np)
	}
	return out
}

func (s *sess) ensureGRPC() bool {
	if s.sid != "" {
		return true
	}
	sid, err := s.k.e.openSession(dbName)
	if err != nil {
		s.k.c.Inconclusive(fmt.Sprintf("[%s] OpenSession: %v", s.k.tag, err))
		return false
	}
	s.sid = sid
	return true
}

func (s *sess) grpcStmt(p *prog, tid string, st *stmt) obs {
	pm := pmLiteral
	via := "literal"
	if p.Proto == 1 {
		pm, via = pmNamed, "params"
	}
	q, ps := st.sql(pm)
	o := obs{St: st, N: -1, Via: via}
	if st.K.isQuery() {
		r, err := s.k.e.grpcQuery(s.sid, tid, q, namedParams(ps))
		o.Rows, o.Err = r, errStr(err)
		return o
	}
	if tid == "" {
		r, err := s.k.e.ic.SQLExec(sessCtx(s.sid), &schema.SQLExecRequest{Sql: q, Params: namedParams(ps)})
		o.Err = errStr(err)
		if err == nil && len(r.GetTxs()) == 1 {
			o.N = int(r.GetTxs()[0].GetUpdatedRows())
		}
		return o
	}
	_, err := s.k.e.ic.TxSQLExec(txCtx(s.sid, tid), &schema.SQLExecRequest{Sql: q, Params: namedParams(ps)})
	o.Err = errStr(err)
	return o
}

// auto runs the statements of an autocommit program, each as its own transaction.
func (s *sess) auto(p *prog, run func(st *stmt) obs) {
	k := s.k
	for i, st := range p.Stmts {
		if st.K == kPeek || st.K == kSave || st.K == kRollTo || st.K == kRelease {
			continue
		}
		t := &txRec{P: p, Sub: i + 1, hi: map[string]mark{}, Began: true, Reported: -1}
		k.addTx(t)
		k.section(func(base *state) *state {
			o := run(st)
			t.Obs = []obs{o}
			v, r, ok, _ := replay(base, false, false, t.Obs)
			if o.Err != "" {
				t.Outcome = "statement-failed"
				t.Aborted = errClass(o.Err)
				if !r[0].Err {
					k.c.Count("unexpected_error/"+feName[p.FE]+"/"+errClass(o.Err), 1)
				}
				k.distinct(t)
				return k.expect(base, t, feName[p.FE]+"/failed-autocommit-statement-visible", "after a failed autocommit statement")
			}
			t.Outcome = "committed"
			next := k.expect(v.st, t, feName[p.FE]+"/autocommit-state-mismatch", "after the autocommit statement "+st.text())
			if next == nil {
				k.c.Eval(1)
				if !ok {
					k.c.Violation(feName[p.FE]+"/autocommit-statement-mismatch", fmt.Sprintf("[%s] autocommit statement %q (sent %s) returned %s %s; the committed state was %s", k.tag, st.text(), o.Via, o.Rows, o.Err, base.text()), nil)
				} else {
					k.reported(t, v, r)
				}
				if v.st.text() != base.text() {
					next = v.st
				}
			}
			k.distinct(t)
			return next
		})
	}
}

func (s *sess) runGRPC(p *prog) {
	k := s.k
	if !s.ensureGRPC() {
		return
	}
	if p.Auto {
		s.auto(p, func(st *stmt) obs { return s.grpcStmt(p, "", st) })
		return
	}
	fe := feName[feGRPC]
	t := &txRec{P: p, hi: map[string]mark{}, Reported: -1}
	k.addTx(t)
	t.lo = k.mark()
	mode := schema.TxMode_ReadWrite
	if p.RO {
		mode = schema.TxMode_ReadOnly
	}
	nt, err := k.e.ic.NewTx(sessCtx(s.sid), &schema.NewTxRequest{Mode: mode})
	if err != nil {
		t.Outcome = "begin-refused"
		k.c.Count("refused/grpc-session/NewTx/"+errClass(err.Error()), 1)
		return
	}
	t.Began = true
	tid := nt.GetTransactionID()
	for i, st := range p.Stmts {
		if p.Inner != nil && p.InnerAt == i {
			k.c.Count("grpc_second_newtx_while_open", 1)
			s.runGRPC(p.Inner)
			if s.sid == "" {
				break
			}
		}
		if st.K == kPeek {
			k.section(func(base *state) *state {
				return k.expect(base, t, fe+"/uncommitted-changes-visible", "while "+t.name()+" was open")
			})
			t.Obs = append(t.Obs, obs{St: st})
			continue
		}
		o := s.grpcStmt(p, tid, st)
		k.touch(t, st)
		o.Cont = o.Err != "" && st.K == kBadSel // a failed query leaves the transaction open
		t.Obs = append(t.Obs, o)
		if o.Err != "" && !o.Cont {
			t.Aborted = errClass(o.Err)
			break
		}
	}
	ctx := txCtx(s.sid, tid)
	if t.Aborted != "" {
		// the failed statement aborted the transaction: whatever the client still sends must leave nothing visible
		t.Outcome = "aborted-by-" + t.Aborted
		k.followUps(t, "error", func(st *stmt) (string, string) {
			o := s.grpcStmt(p, tid, st)
			return o.Err, ""
		})
		k.section(func(base *state) *state {
			var err error
			switch p.End2 {
			case endCommit:
				_, err = k.e.ic.Commit(ctx, &emptypb.Empty{})
				if err == nil {
					k.c.Count("grpc_commit_acknowledged_after_failed_statement", 1)
				}
			case endRollback:
				_, err = k.e.ic.Rollback(ctx, &emptypb.Empty{})
			default:
				err = k.e.closeSession(s.sid)
				s.sid = ""
			}
			k.c.Count("after_failure/"+fe+"/"+endName[p.End2]+"/"+errClass(errStr(err)), 1)
			return k.expect(base, t, fe+"/aborted-tx-visible/"+endName[p.End2], "after the failed statement of "+t.name()+", the follow-ups ["+afterText(p.After)+"], then "+endName[p.End2])
		})
		k.distinct(t)
		return
	}
	switch p.End {
	case endCommit:
		k.section(func(base *state) *state {
			cr, err := k.e.ic.Commit(ctx, &emptypb.Empty{})
			if err != nil {
				t.Outcome = "commit-failed-" + errClass(err.Error())
				t.Reader = true
				return k.expect(base, t, fe+"/failed-commit-tx-visible", "after the failed COMMIT of "+t.name()+" ("+err.Error()+")")
			}
			t.Reported = int(cr.GetUpdatedRows())
			next := k.committed(t, base)
			if t.Writer {
				k.lastPK(t, cr)
			}
			return next
		})
	case endRollback:
		k.section(func(base *state) *state {
			_, err := k.e.ic.Rollback(ctx, &emptypb.Empty{})
			t.Outcome = "rolled-back"
			t.Reader = true
			if err != nil {
				k.c.Count("refused/grpc-session/Rollback/"+errClass(err.Error()), 1)
			}
			return k.expect(base, t, fe+"/rolled-back-tx-visible", "after Rollback of "+t.name())
		})
	case endCloseSession:
		k.section(func(base *state) *state {
			err := k.e.closeSession(s.sid)
			s.sid = ""
			t.Outcome = "session-closed"
			t.Reader = true
			if err != nil {
				k.c.Count("refused/grpc-session/CloseSession/"+errClass(err.Error()), 1)
			}
			return k.expect(base, t, fe+"/closed-session-tx-visible", "after CloseSession with "+t.name()+" open")
		})
	case endExpire:
		k.section(func(base *state) *state {
			t.Reader = true
			se, err := k.e.srv.SessManager.GetSession(s.sid)
			if err != nil {
				k.c.Inconclusive(fmt.Sprintf("[%s] GetSession: %v", k.tag, err))
				return nil
			}
			se.SetLastActivityTime(time.Date(2001, 1, 1, 0, 0, 0, 0, time.UTC))
			for i := 0; k.e.srv.SessManager.SessionPresent(s.sid); i++ {
				if i > 20000 {
					k.c.Inconclusive(fmt.Sprintf("[%s] the session guard did not expire a session inactive since 2001", k.tag))
					k.stuck = true
					return nil
				}
				time.Sleep(3 * time.Millisecond)
			}
			// the guard removes the session from its map first and rolls back afterwards: wait for the server to refuse the tx
			old := s.sid
			s.sid = ""
			t.Outcome = "session-expired"
			_, err = k.e.ic.Commit(txCtx(old, tid), &emptypb.Empty{})
			if err == nil {
				k.c.Count("grpc_commit_acknowledged_after_expiry", 1)
			}
			return k.expect(base, t, fe+"/expired-session-tx-visible", "after the session of "+t.name()+" expired")
		})
	}
	k.distinct(t)
}

// lastPK checks the generated key reported by Commit: the row with that id must be the row the tx inserted last into b.
func (k *cas) lastPK(t *txRec, cr *schema.CommittedSQLTx) {
	if t.usesRollTo() {
		return
	}
	var last int64
	for i := range t.Obs {
		if t.Obs[i].St.K == kInsB && t.Obs[i].Err == "" {
			last = t.Obs[i].St.Tag
		}
	}
	pk, has := cr.GetLastInsertedPKs()["b"]
	if last == 0 {
		if has {
			k.c.Eval(1)
			k.c.Violation("grpc-session/commit-last-inserted-pk-mismatch", fmt.Sprintf("[%s] Commit of %s reported a generated key %d for b although it inserted nothing there: %s", k.tag, t.name(), pk.GetN(), t.P.text()), nil)
		}
		return
	}
	k.c.Eval(1)
	if !has {
		k.c.Violation("grpc-session/commit-last-inserted-pk-mismatch", fmt.Sprintf("[%s] Commit of %s reported no generated key for b: %s", k.tag, t.name(), t.P.text()), nil)
		return
	}
	r, err := k.e.grpcQuery(k.obsSid, "", fmt.Sprintf("SELECT v FROM b WHERE id = %d", pk.GetN()), nil)
	if err != nil {
		k.c.Inconclusive(fmt.Sprintf("[%s] %v", k.tag, err))
		return
	}
	if want := fmt.Sprintf("[%d]", last); r.String() != want {
		k.c.Violation("grpc-session/commit-last-inserted-pk-mismatch", fmt.Sprintf("[%s] Commit of %s reported the generated key %d for b; the row with that key holds %s, the row it inserted last holds %s\nprogram: %s", k.tag, t.name(), pk.GetN(), r, want, t.P.text()), nil)
	}
}

// ---- pgwire sessions ----

func pgParams(ps []any) [][]byte {
	out := make([][]byte, len(ps))
	for i, p := range ps {
		switch x := p.(type) {
		case int64:
			out[i] = []byte(strconv.FormatInt(x, 10))
		case string:
			out[i] = []byte(x)
		}
	}
	return out
}

func (s *sess) ensurePG() bool {
	if s.pg != nil {
		return true
	}
	p, err := s.k.e.pgConnect()
	if err != nil {
		s.k.c.Inconclusive(fmt.Sprintf("[%s] pg connect: %v", s.k.tag, err))
		return false
	}
	s.pg = p
	return true
}

func (s *sess) pgProto(p *prog, n int) int {
	if p.Proto == protoMixed {
		return (p.TxID + n) % 3
	}
	return p.Proto
}

// pgSend sends one piece of SQL by the given protocol.
func (s *sess) pgSend(proto int, lit string, par string, ps []any) (pgRes, string) {
	switch proto {
	case protoExtended:
		return s.pg.extended(par, pgParams(ps)), "extended"
	case protoPrepared:
		return s.pg.prepared(par, pgParams(ps)), "prepared"
	}
	return s.pg.simple(lit)[0], "simple"
}

func (s *sess) pgStmt(p *prog, n int, st *stmt) obs {
	if st.K == kCopy {
		q, _ := st.sql(pmLiteral)
		ct, err := s.pg.c.CopyFrom(bg(), strings.NewReader(st.copyData()), q)
		o := obs{St: st, N: -1, Tag: ct.String(), Via: "copy"}
		et, broken := pgErrText(err)
		switch {
		case broken:
			o.Err = "connection: " + et
		case et != "":
			o.Err = et
		case s.pg.c.TxStatus() == 'E':
			// the reply to COPY does not say that a row failed; the transaction status does
			o.Err = "copy-row-error (status E after " + o.Tag + ")"
		}
		return o
	}
	l, _ := st.sql(pmLiteral)
	q, ps := st.sql(pmDollar)
	r, via := s.pgSend(s.pgProto(p, n), l, q, ps)
	o := obs{St: st, N: -1, Rows: r.Rows, Err: r.Err, Tag: r.Tag, Via: via}
	if r.Broken {
		o.Err = "connection: " + r.Err
	}
	if st.K == kRollTo && r.Err == "" && r.Status == 'I' {
		s.k.c.Count("pg_status_idle_reported_after_rollback_to_savepoint", 1)
	}
	return o
}

func (s *sess) runPG(p *prog) {
	k := s.k
	if !s.ensurePG() {
		return
	}
	if p.Auto {
		s.auto(p, func(st *stmt) obs { return s.pgStmt(p, 0, st) })
		return
	}
	fe := feName[fePG]
	t := &txRec{P: p, hi: map[string]mark{}, Reported: -1}
	k.addTx(t)
	if p.Script {
		s.pgScript(p, t)
		return
	}
	t.lo = k.mark()
	r, _ := s.pgSend(s.pgProto(p, 100), "BEGIN", "BEGIN", nil)
	if r.Err != "" {
		t.Outcome = "begin-refused"
		k.c.Count("refused/pgwire/BEGIN/"+errClass(r.Err), 1)
		if r.Broken {
			s.pg = nil
		}
		return
	}
	t.Began = true
	if r.Status != 'T' {
		k.c.Count("pg_status_not_T_after_BEGIN", 1)
	}
	hazard := ""
	for i, st := range p.Stmts {
		if st.K == kPeek {
			k.section(func(base *state) *state {
				return k.expect(base, t, fe+"/uncommitted-changes-visible", "while "+t.name()+" was open")
			})
			t.Obs = append(t.Obs, obs{St: st})
			continue
		}
		if st.K == kUse {
			// the session drops its transaction; the server goes on reporting an open block
			k.section(func(base *state) *state {
				o := s.pgStmt(p, i, st)
				k.c.Count("pg_use_inside_block/"+errClass(o.Err)+"/status-"+string(rune(s.pg.c.TxStatus())), 1)
				s.pg.prep = map[string]string{} // an accepted USE drops the session's prepared statements
				return k.expect(base, t, fe+"/use-inside-block-commits", "after USE inside the block of "+t.name())
			})
			hazard = "use"
			break
		}
		if st.K == kCopy {
			// a COPY may apply rows outside the block (after a row error): run it where that can be seen at once
			var o obs
			k.section(func(base *state) *state {
				o = s.pgStmt(p, i, st)
				return k.expect(base, t, fe+"/copy-in-block-rows-applied-outside-transaction", "right after "+st.text()+" inside the block of "+t.name()+" (reply "+o.Tag+" "+o.Err+")")
			})
			k.touch(t, st)
			t.Obs = append(t.Obs, o)
			if o.Err != "" {
				t.Aborted = errClass(o.Err)
				break
			}
			continue
		}
		o := s.pgStmt(p, i, st)
		k.touch(t, st)
		// a failed query or a text that does not parse leaves the block open, unless the server says otherwise ('E')
		o.Cont = o.Err != "" && (st.K == kBadSel || st.K == kSyntax) && s.pg != nil && s.pg.c.TxStatus() != 'E'
		t.Obs = append(t.Obs, o)
		if o.Err != "" && !o.Cont {
			t.Aborted = errClass(o.Err)
			switch t.Aborted {
			case "dup", "notnull", "syntax", "nocol", "copy-row-error":
			default:
				// an error outside the model's vocabulary (say, from the protocol layer): it need not have aborted the
				// block, so the block is simply rolled back and only its invisibility is judged
				hazard = "unexpected"
			}
			break
		}
	}
	end := p.End
	if t.Aborted != "" || hazard != "" {
		switch hazard {
		case "":
			hazard = "error"
		case "use":
			t.Aborted = hazard
		}
		t.Outcome = "aborted-by-" + t.Aborted
		end = p.End2
		if hazard != "error" && end == endCommit {
			end = endRollback // what COMMIT should do after an accepted USE is not specified: only ends that must leave nothing are used
		}
		after := k.followUps
		if hazard == "unexpected" {
			k.c.Count("unexpected_error/pgwire/"+t.Aborted, 1)
			t.Skip = true
			after = func(*txRec, string, func(*stmt) (string, string)) {}
		}
		after(t, hazard, func(st *stmt) (string, string) {
			o := s.pgStmt(p, 900, st)
			if s.pg == nil {
				return o.Err, ""
			}
			return o.Err, "status " + string(rune(s.pg.c.TxStatus())) + " " + o.Tag
		})
		what := "after " + hazard + " inside the block of " + t.name() + ", the follow-ups [" + afterText(p.After) + "], then " + endName[end]
		k.section(func(base *state) *state {
			switch end {
			case endCommit:
				r, _ := s.pgSend(s.pgProto(p, 101), "COMMIT", "COMMIT", nil)
				k.c.Count("after_failure/pgwire/commit/"+errClass(r.Err)+"/"+r.Tag, 1)
				s.pgCleanup()
			case endRollback:
				r, _ := s.pgSend(s.pgProto(p, 101), "ROLLBACK", "ROLLBACK", nil)
				k.c.Count("after_failure/pgwire/rollback/"+errClass(r.Err), 1)
				s.pgCleanup()
			case endDrop:
				s.pg.drop()
				s.pg = nil
			case endTerminate:
				s.pg.terminate()
				s.pg = nil
			}
			return k.expect(base, t, fe+"/aborted-tx-visible/"+endName[end], what)
		})
		k.distinct(t)
		return
	}
	switch end {
	case endCommit:
		k.section(func(base *state) *state {
			r, _ := s.pgSend(s.pgProto(p, 101), "COMMIT", "COMMIT", nil)
			if r.Err != "" {
				t.Outcome = "commit-failed-" + errClass(r.Err)
				t.Reader = true
				if r.Broken {
					s.pg = nil
				}
				s.pgCleanup()
				return k.expect(base, t, fe+"/failed-commit-tx-visible", "after the failed COMMIT of "+t.name()+" ("+r.Err+")")
			}
			return k.committed(t, base)
		})
	case endRollback:
		k.section(func(base *state) *state {
			r, _ := s.pgSend(s.pgProto(p, 101), "ROLLBACK", "ROLLBACK", nil)
			s.pgCleanup()
			t.Outcome = "rolled-back"
			t.Reader = true
			if r.Err != "" {
				k.c.Count("refused/pgwire/ROLLBACK/"+errClass(r.Err), 1)
			}
			return k.expect(base, t, fe+"/rolled-back-tx-visible", "after ROLLBACK of "+t.name())
		})
	case endDrop, endTerminate:
		// asynchronous on the server side: judged by every later read of another session and at quiescence
		t.Reader = true
		if end == endDrop {
			t.Outcome = "connection-dropped"
			s.pg.drop()
		} else {
			t.Outcome = "connection-terminated"
			s.pg.terminate()
		}
		s.pg = nil
	}
	k.distinct(t)
}

// pgScript sends BEGIN; …; COMMIT|ROLLBACK as one simple Query message.
func (s *sess) pgScript(p *prog, t *txRec) {
	k := s.k
	fe := feName[fePG]
	parts := []string{"BEGIN"}
	for _, st := range p.Stmts {
		if st.K == kPeek || st.K.isQuery() {
			continue
		}
		parts = append(parts, st.text())
		t.Obs = append(t.Obs, obs{St: st, N: -1, Via: "script"})
	}
	endSQL := "COMMIT"
	if p.End == endRollback {
		endSQL = "ROLLBACK"
	}
	parts = append(parts, endSQL)
	k.section(func(base *state) *state {
		rs := s.pg.simple(strings.Join(parts, "; "))
		failed := ""
		for _, r := range rs {
			if r.Err != "" {
				failed = r.Err
			}
			if r.Broken {
				s.pg = nil
			}
		}
		v, _, _, _ := replay(base, false, false, t.Obs)
		modelFails := false
		{
			vv := &view{st: base.clone()}
			for i := range t.Obs {
				if vv.exec(t.Obs[i].St).Err {
					modelFails = true
				}
			}
		}
		want := v.st
		switch {
		case failed != "":
			t.Outcome = "script-failed-" + errClass(failed)
			want = base
			if !modelFails {
				k.c.Count("unexpected_error/pgwire/script/"+errClass(failed), 1)
			}
		case p.End == endRollback:
			t.Outcome = "script-rolled-back"
			want = base
		case modelFails:
			t.Outcome = "script-committed-despite-failing-statement"
			k.c.Eval(1)
			k.c.Violation(fe+"/script-failing-statement-accepted", fmt.Sprintf("[%s] the one-message block of %s was acknowledged although one of its statements must fail on %s\nprogram: %s", k.tag, t.name(), base.text(), p.text()), nil)
			want = base
		default:
			t.Outcome = "script-committed"
		}
		t.Skip = true
		k.distinct(t)
		var alt *state
		if want == v.st && t.usesRollTo() {
			vk, _, _, _ := replay(base, false, true, t.Obs)
			alt = vk.st
		}
		next := k.expectAlt(want, alt, t, fe+"/script-"+strings.ToLower(endSQL)+"-state-mismatch", "after the one-message block of "+t.name()+" ("+t.Outcome+")")
		if next == nil && want != base && want.text() != base.text() {
			next = want
		}
		return next
	})
}

// distinct records the observed shape of a finished program.
func (k *cas) distinct(t *txRec) {
	p := t.P
	mode := "block"
	switch {
	case p.Auto:
		mode = "auto"
	case p.Script:
		mode = "script"
	case p.RO:
		mode = "ro"
	}
	proto := grpcProtoName[p.Proto%2]
	if p.FE == fePG {
		proto = pgProtoName[p.Proto%4]
	}
	var dml, qry, fail, sp, rt, peek bool
	for i := range t.Obs {
		o := &t.Obs[i]
		switch {
		case o.Err != "":
			fail = true
		case o.St.K.isDML():
			dml = true
		case o.St.K.isQuery():
			qry = true
		case o.St.K == kSave || o.St.K == kRelease:
			sp = true
		case o.St.K == kRollTo:
			rt = true
		case o.St.K == kPeek:
			peek = true
		}
	}
	shape := ""
	for _, f := range []struct {
		b bool
		c string
	}{{dml, "D"}, {qry, "Q"}, {fail, "F"}, {sp, "S"}, {rt, "R"}, {peek, "P"}, {p.Inner != nil, "I"}} {
		if f.b {
			shape += f.c
		}
	}
	end := endName[p.End]
	if p.Auto {
		end = "-"
	}
	if t.Aborted != "" && !p.Auto {
		end = "error-" + endName[p.End2]
	}
	k.c.Distinct(fmt.Sprintf("%s/%s/%s/%s/%s/%s", feName[p.FE], mode, proto, shape, end, t.Outcome))
}

// followUps sends what the program still has to say inside a block (or server-side transaction) that is no longer
// usable: a statement failed (the engine cancelled the transaction) or USE made the session drop it. Whatever the
// front-end answers, the client has not ended the block, so nothing it sends may become visible to another session.
func (k *cas) followUps(t *txRec, hazard string, send func(st *stmt) (errText, info string)) {
	fe := feName[t.P.FE]
	lastSave := "sp_none"
	for i := range t.Obs {
		if t.Obs[i].St.K == kSave && t.Obs[i].Err == "" {
			lastSave = t.Obs[i].St.Name
		}
	}
	path := hazard
	var log []string
	for _, f := range t.P.After {
		st := *f
		if st.Name == "@sp" {
			st.Name = lastSave
		}
		k.section(func(base *state) *state {
			errText, info := send(&st)
			cls := errClass(errText)
			log = append(log, fmt.Sprintf("%s -> %s %s", st.text(), cls, info))
			k.c.Count("after_failure/"+fe+"/follow-up/"+kindName[st.K]+"/"+cls, 1)
			k.c.Distinct(fmt.Sprintf("%s/follow-up-after-%s/%s/%s", fe, hazard, kindName[st.K], cls))
			sig := fe + "/statement-in-aborted-block-applied/after-" + path
			if st.K == kCopy {
				sig += "/copy" // COPY does not go through the statement path
			}
			next := k.expect(base, t, sig,
				fmt.Sprintf("%s: after %s inside its block the client sent\n    %s\nwithout ending the block", t.name(), hazard, strings.Join(log, "\n    ")))
			if hazard == "error" && errText == "" && !st.K.isDML() && !st.K.isQuery() && !strings.Contains(path, kindName[st.K]) && strings.Count(path, "+") < 2 {
				path += "+" + kindName[st.K] // an accepted SAVEPOINT / ROLLBACK TO / RELEASE / BEGIN names the route to a later leak
			}
			return next
		})
	}
}

// pgCleanup: when the statement meant to end the block was refused before it reached the engine (protocol-level
// error) the block is still open; a plain ROLLBACK ends it, so that the next program does not run inside it.
func (s *sess) pgCleanup() {
	if s.pg != nil && s.pg.c.TxStatus() == 'T' {
		s.k.c.Count("pg_block_still_open_after_end_statement", 1)
		s.pg.simple("ROLLBACK")
	}
}
