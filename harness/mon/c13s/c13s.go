// Package c13s: front-end tier of property C13 (SQL transactions are atomic and isolated). It starts the real
// immudb server in-process (gRPC on a loopback port, PostgreSQL wire server on another, fresh data directory per
// case) and drives generated transaction programs through server-side sessions (OpenSession / NewTx / TxSQLExec /
// TxSQLQuery / Commit / Rollback / CloseSession / session expiry) and through the PostgreSQL wire protocol
// (BEGIN…COMMIT/ROLLBACK blocks, autocommit statements, simple / extended / prepared protocol, one-message blocks,
// connection drop and Terminate with an open block) in several concurrent sessions.
//
// Oracle: a map model of two tables (model.go). Everything that can change the committed state (COMMIT, autocommit
// statements, every way a transaction ends) runs under one harness lock, so the commit order is known; right after
// it another session reads both tables and must see exactly the model state. A committed transaction with effects
// must be explained, statement by statement, by the state at its commit position plus its own changes; every other
// transaction by ONE committed state per table between its BEGIN and its first read of that table.
package c13s

import (
	"encoding/json"
	"fmt"
	"os"
	"runtime/pprof"
	"sync"
	"time"

	"github.com/codenotary/immudb/pkg/api/schema"

	"verifharness/internal/fw"
)

func init() { fw.RegisterIsolated("c13s-frontends", frontendCase) }

type caseSpec struct {
	Idx      int
	Sessions int
	Progs    int
}

const ruleText = "front-ends: PRNG transaction programs (INSERT/UPSERT/UPDATE/DELETE/SELECT/COUNT on two tables, injected duplicate-key / NOT NULL / unknown-column failures, SAVEPOINT/ROLLBACK TO/RELEASE, reads from another session while open) in 2-5 concurrent sessions against a real in-process server with a fresh data directory per case, through gRPC sessions (NewTx RW/RO, TxSQLExec, TxSQLQuery, Commit, Rollback, CloseSession, expiry, second NewTx while open, literal/named parameters, autocommit SQLExec) and through the PostgreSQL wire protocol (blocks, autocommit, simple/extended/prepared, one-message blocks, drop/Terminate); distinct = (front-end × mode × protocol × statement shape × end × outcome) observed"

func RunFrontends(c *fw.Ctx) {
	if os.Getenv("VERIF_C13S_PROBE") != "" { // development aid
		probe(c)
		return
	}
	if c.Rule == "" {
		c.Rule = ruleText
	} else {
		c.Set("frontends_rule", ruleText)
	}
	c.Assume("front-ends: serializability in commit order (C05) - a committed read-write transaction with effects behaves as if run on the state left by the transactions committed before it; the harness serializes COMMIT calls, so that order is known")
	c.Assume("front-ends: a failed non-query statement aborts the whole transaction (Engine.ExecPreparedStmts cancels it); a failed query does not")
	c.Assume("front-ends: the snapshot of a table is taken between BEGIN and the first statement touching it (known open finding sqltx/snapshot-not-fixed-across-indexes: one state per table is accepted)")
	r := c.Rand("c13s/cases")
	n := c.N(70, 700)
	var cases [][]byte
	for i := 0; i < n; i++ {
		cs := caseSpec{Idx: i, Sessions: 2 + r.IntN(4), Progs: 8 + r.IntN(8)}
		b, _ := json.Marshal(cs)
		cases = append(cases, b)
	}
	if only := os.Getenv("VERIF_C13S_ONLY"); only != "" { // development aid: one case index, many times
		var sel [][]byte
		for i, b := range cases {
			if fmt.Sprint(i) == only {
				for j := 0; j < 60; j++ {
					sel = append(sel, b)
				}
			}
		}
		cases = sel
	}
	if lim := os.Getenv("VERIF_C13S_CASES"); lim != "" { // development aid: first N cases
		var m int
		fmt.Sscan(lim, &m)
		if m < len(cases) {
			cases = cases[:m]
		}
	}
	c.RunIsolated("c13s-frontends", cases, fw.CasesOpts{Workers: 14, CaseTimout: 8 * time.Minute})
}

func frontendCase(c *fw.Ctx, data []byte) {
	var cs caseSpec
	if err := json.Unmarshal(data, &cs); err != nil {
		c.Inconclusive("bad case: " + err.Error())
		return
	}
	tag := fmt.Sprintf("fe-case%d", cs.Idx)
	if pf := os.Getenv("VERIF_C13S_PROF"); pf != "" { // development aid
		if f, err := os.Create(pf); err == nil {
			pprof.StartCPUProfile(f)
			defer pprof.StopCPUProfile()
		}
	}
	t0 := time.Now()
	lap := func(what string) {
		if os.Getenv("VERIF_C13S_DEBUG") != "" {
			fmt.Fprintf(os.Stderr, "[%s] %-12s %v\n", tag, what, time.Since(t0))
		}
	}
	e, err := startEnv(c.Dir("srv"))
	if err != nil {
		c.Inconclusive(fmt.Sprintf("[%s] server: %v", tag, err))
		return
	}
	defer e.stop()
	lap("server up")
	if err := e.createDB(); err != nil {
		c.Inconclusive(fmt.Sprintf("[%s] create database: %v", tag, err))
		return
	}
	k := &cas{c: c, e: e, tag: tag, ticketState: map[int]int{}, byID: map[int]*txRec{}}
	if k.obsSid, err = e.openSession(dbName); err != nil {
		c.Inconclusive(fmt.Sprintf("[%s] observer session: %v", tag, err))
		return
	}
	r := fw.NewRand(c.Seed, "c13s/"+tag)
	init := newState()
	setup := []string{
		"CREATE TABLE a(id INTEGER, v INTEGER, s VARCHAR[16], PRIMARY KEY id)",
		"CREATE TABLE b(id INTEGER AUTO_INCREMENT, v INTEGER NOT NULL, PRIMARY KEY id)",
	}
	for i := 0; i < 6+r.IntN(8); i++ {
		id := int64(1 + r.IntN(keyDomain))
		if _, ok := init.A[id]; ok {
			continue
		}
		row := rowA{int64(r.IntN(100)), fmt.Sprintf("i%d", id)}
		init.A[id] = row
		setup = append(setup, fmt.Sprintf("INSERT INTO a(id, v, s) VALUES (%d, %d, '%s')", id, row.V, row.S))
	}
	for tg := int64(1); tg <= 3; tg++ {
		init.B[tg] = true
		setup = append(setup, fmt.Sprintf("INSERT INTO b(v) VALUES (%d)", tg))
	}
	for _, q := range setup {
		if _, err := e.ic.SQLExec(sessCtx(k.obsSid), &schema.SQLExecRequest{Sql: q}); err != nil {
			c.Inconclusive(fmt.Sprintf("[%s] setup %q: %v", tag, q, err))
			return
		}
	}
	k.states = []*state{init}
	if k.obsPg, err = e.pgConnect(); err != nil {
		c.Inconclusive(fmt.Sprintf("[%s] observer pg connection: %v", tag, err))
		return
	}
	for i := 0; i < 2; i++ { // both observers must agree with the setup
		o, _, err := k.observe()
		if err != nil || o.text() != init.text() {
			c.Inconclusive(fmt.Sprintf("[%s] setup not readable: %v", tag, err))
			return
		}
	}

	lap("setup done")
	// programs: a pure function of (seed, case, session)
	progs := make([][]*prog, cs.Sessions)
	for s := range progs {
		g := &gen{r: fw.NewRand(c.Seed, fmt.Sprintf("c13s/%s/session%d", tag, s)), nextTx: (s + 1) * 100}
		fe := s % 2
		for i := 0; i < cs.Progs; i++ {
			if g.r.IntN(5) == 0 {
				fe = 1 - fe // most sessions stay on one front-end, some switch
			}
			progs[s] = append(progs[s], g.prog(fe))
		}
	}
	var wg sync.WaitGroup
	sessions := make([]*sess, cs.Sessions)
	for s := range progs {
		sessions[s] = &sess{k: k, idx: s}
		wg.Add(1)
		go func(se *sess, ps []*prog) {
			defer wg.Done()
			for _, p := range ps {
				if k.stuck {
					return
				}
				if p.FE == feGRPC {
					se.runGRPC(p)
				} else {
					se.runPG(p)
				}
			}
		}(sessions[s], progs[s])
	}
	wg.Wait()
	lap("sessions done")
	// the sessions end: whatever they still hold is closed
	for _, se := range sessions {
		if se.sid != "" {
			e.closeSession(se.sid)
		}
		if se.pg != nil {
			se.pg.terminate()
		}
	}
	// quiescence: the server has processed every disconnect when only the two observers' sessions are left
	for i := 0; e.srv.SessManager.SessionCount() > 2; i++ {
		if i > 40000 {
			c.Inconclusive(fmt.Sprintf("[%s] %d sessions still registered after every client disconnected", tag, e.srv.SessManager.SessionCount()))
			return
		}
		time.Sleep(3 * time.Millisecond)
	}
	lap("quiescent")
	last := k.states[len(k.states)-1]
	finalCheck := func(o *state, via string, err error) {
		if err != nil {
			c.Inconclusive(fmt.Sprintf("[%s] final read: %v", tag, err))
			return
		}
		c.Eval(1)
		if o.text() == last.text() {
			return
		}
		sig := "frontends/final-state-mismatch"
		detail := fmt.Sprintf("[%s] at quiescence a new %s session sees\n  %s\nbut the transactions acknowledged as committed, replayed in commit order, give\n  %s", tag, via, o.text(), last.text())
		if b := k.blame(o, last); b != nil && b.Outcome != "committed" {
			sig = fmt.Sprintf("%s/%s-tx-visible", feName[b.P.FE], outcomeKind(b))
			detail += "\nthe visible rows carry the marker of " + b.name() + ": " + b.P.text() + "\nobserved: " + obsText(b.Obs)
		}
		c.Violation(sig, detail, nil)
	}
	if sid, err := e.openSession(dbName); err != nil {
		c.Inconclusive(fmt.Sprintf("[%s] final session: %v", tag, err))
	} else {
		finalCheck(k.observeGRPC(sid))
		e.closeSession(sid)
	}
	if pg, err := e.pgConnect(); err != nil {
		c.Inconclusive(fmt.Sprintf("[%s] final pg connection: %v", tag, err))
	} else {
		ra, rb := pg.simple(qAllA)[0], pg.simple(qAllB)[0]
		if ra.Err != "" || rb.Err != "" {
			finalCheck(nil, "pgwire", fmt.Errorf("%s %s", ra.Err, rb.Err))
		} else {
			o, err := parseState(ra.Rows, rb.Rows)
			finalCheck(o, "pgwire", err)
		}
		pg.terminate()
	}
	k.obsPg.terminate()

	// statement-level oracle for everything not judged at a commit position
	committed := 0
	for _, t := range k.txs {
		if t.Outcome == "committed" {
			committed++
		}
		if t.Writer || t.P.Auto || t.P.Script {
			continue
		}
		if t.Aborted != "" {
			switch t.Aborted {
			case "dup", "notnull", "readonly", "syntax", "copy-row-error", "use":
			default:
				// an error outside the model's vocabulary (the API may return it): counted, the statement-level oracle is not applied
				c.Count("unexpected_error/"+feName[t.P.FE]+"/"+t.Aborted, 1)
				continue
			}
		}
		k.judgeReader(t)
	}
	lap("judged")
	c.Count("fe_cases", 1)
	c.Count("fe_transactions", int64(len(k.txs)))
	c.Count("fe_committed", int64(committed))
	c.Count("fe_states", int64(len(k.states)-1))
	if cs.Idx < 3 && len(k.txs) > 0 {
		t := k.txs[0]
		c.Sample(map[string]any{"case": tag, "sessions": cs.Sessions, "program": t.P.text(), "outcome": t.Outcome, "observed": obsText(t.Obs)})
	}
}
