package c13s

import (
	"fmt"
	"math/rand/v2"
	"strings"
)

const keyDomain = 30

const (
	feGRPC = iota
	fePG
)

var feName = []string{"grpc-session", "pgwire"}

type endKind int

const (
	endCommit endKind = iota
	endRollback
	endCloseSession // gRPC: CloseSession with the tx open
	endExpire       // gRPC: the session guard expires the session (activity instant set to year 2001)
	endDrop         // pgwire: TCP connection closed without Terminate
	endTerminate    // pgwire: Terminate message with the block open
)

var endName = []string{"commit", "rollback", "close-session", "expire-session", "drop-connection", "terminate"}

const (
	protoSimple = iota
	protoExtended
	protoPrepared
	protoMixed
)

var pgProtoName = []string{"simple", "extended", "prepared", "mixed"}
var grpcProtoName = []string{"literal", "params"}

type prog struct {
	TxID    int
	FE      int
	RO      bool // gRPC: NewTx(ReadOnly)
	Auto    bool // statements outside a transaction (autocommit)
	Script  bool // pgwire: the whole block in one simple Query message
	Proto   int
	Stmts   []*stmt
	End     endKind
	After   []*stmt // what the client still sends inside a block that a failed statement (or USE) made unusable
	End2    endKind // ... and how it then ends the block
	Inner   *prog   // gRPC: a second NewTx in the same session while this one is open
	InnerAt int
}

func (p *prog) text() string {
	var b strings.Builder
	fmt.Fprintf(&b, "tx%d %s", p.TxID, feName[p.FE])
	switch {
	case p.Auto:
		b.WriteString(" autocommit")
	case p.Script:
		b.WriteString(" script")
	case p.RO:
		b.WriteString(" read-only")
	}
	fmt.Fprintf(&b, " end=%s after-failure=[%s]+%s: ", endName[p.End], afterText(p.After), endName[p.End2])
	for i, s := range p.Stmts {
		if i > 0 {
			b.WriteString("; ")
		}
		if p.Inner != nil && p.InnerAt == i {
			b.WriteString("{" + p.Inner.text() + "}; ")
		}
		b.WriteString(s.text())
	}
	return b.String()
}

func afterText(a []*stmt) string {
	var ks []string
	for _, s := range a {
		k := kindName[s.K]
		if s.Name != "" {
			k += ":" + s.Name
		}
		ks = append(ks, k)
	}
	return strings.Join(ks, ",")
}

type gen struct {
	r      *rand.Rand
	multi  bool
	nextTx int
}

func (g *gen) marker(tx, i int) string { return fmt.Sprintf("t%d.%d", tx, i) }

func (g *gen) rng() (int64, int64) {
	lo := int64(1 + g.r.IntN(keyDomain))
	return lo, lo + 1 + int64(g.r.IntN(8))
}

// body generates the statements of one program.
func (g *gen) body(tx int, fe int, ro, auto, script, noSave bool) []*stmt {
	pgBlock := fe == fePG && !auto && !script
	n := 2 + g.r.IntN(7)
	if auto {
		n = 1 + g.r.IntN(4)
	}
	var out []*stmt
	var own []int64 // keys inserted by this tx (a second INSERT of one of them must fail)
	var saves []string
	nsave := 0
	failAt := -1
	if g.r.IntN(3) == 0 {
		failAt = g.r.IntN(n)
	}
	for i := 0; i < n; i++ {
		s := &stmt{}
		x := g.r.IntN(100)
		if ro && x < 60 {
			x = 60 + g.r.IntN(30) // mostly queries
		}
		if script && x >= 60 && x < 92 {
			x = g.r.IntN(60) // scripts carry no queries (one CommandComplete for the whole text)
		}
		if pgBlock && i > 0 && g.r.IntN(40) == 0 {
			// USE of the database already selected: the session drops its transaction; the block is not usable after it
			out = append(out, &stmt{K: kUse})
			return out
		}
		switch {
		case i == failAt && !script:
			switch y := g.r.IntN(12); {
			case y == 10:
				s.K = kSyntax
			case y == 11 && pgBlock:
				// COPY with a row that must fail (same key twice), rows before and after it
				id := int64(1 + g.r.IntN(keyDomain))
				s.K = kCopy
				s.Rows = []arow{{int64(keyDomain + 10 + g.r.IntN(5)), 1, g.marker(tx, i)}, {id, 2, g.marker(tx, i)}, {id, 3, g.marker(tx, i)},
					{int64(keyDomain + 15 + g.r.IntN(5)), 4, g.marker(tx, i)}} // ONE row after the failing one: rows applied outside the block appear one at a time
			case y >= 10:
				s.K = kInsBNull
			case y < 5 && len(own) > 0:
				s.K = kInsA
				s.Rows = []arow{{own[g.r.IntN(len(own))], int64(g.r.IntN(100)), g.marker(tx, i)}}
			case y < 5:
				id := int64(1 + g.r.IntN(keyDomain))
				s.K = kInsA
				s.Rows = []arow{{id, 1, g.marker(tx, i)}, {id, 2, g.marker(tx, i)}}
			case y < 8:
				s.K = kInsBNull
			default:
				s.K = kBadSel
			}
		case x < 22:
			s.K = kInsA
			if pgBlock && g.r.IntN(6) == 0 {
				s.K = kCopy
			}
			nr := 1 + g.r.IntN(2)*g.r.IntN(2)
			used := map[int64]bool{}
			for j := 0; j < nr; j++ {
				id := int64(1 + g.r.IntN(keyDomain))
				if used[id] {
					continue
				}
				used[id] = true
				sv := g.marker(tx, i)
				if g.r.IntN(8) == 0 && s.K != kCopy {
					sv = "NULL"
				}
				s.Rows = append(s.Rows, arow{id, int64(g.r.IntN(100)), sv})
				own = append(own, id)
			}
		case x < 34:
			s.K = kUpsA
			nr := 1 + g.r.IntN(2)
			used := map[int64]bool{}
			for j := 0; j < nr; j++ {
				id := int64(1 + g.r.IntN(keyDomain))
				if used[id] {
					continue
				}
				used[id] = true
				s.Rows = append(s.Rows, arow{id, int64(g.r.IntN(100)), g.marker(tx, i)})
				own = append(own, id)
			}
		case x < 46:
			s.K = kUpdA
			s.Lo, s.Hi = g.rng()
			s.D = int64(1 + g.r.IntN(9))
		case x < 54:
			s.K = kDelA
			s.Lo, s.Hi = g.rng()
			if g.r.IntN(2) == 0 {
				s.Hi = s.Lo + 1 + int64(g.r.IntN(3))
			}
		case x < 60:
			s.K = kInsB
			s.Tag = int64(tx)*1000 + int64(i) + 1
		case x < 76:
			s.K = kSelA
			s.Lo, s.Hi = g.rng()
			if g.r.IntN(3) == 0 {
				s.Lo, s.Hi = 0, keyDomain+10
			}
		case x < 84:
			s.K = kCntA
		case x < 88:
			s.K = kSelB
		case x < 90:
			s.K = kCntB
		case x < 92:
			s.K = kPeek
			if auto || script {
				s.K = kCntA
			}
		case x < 93:
			s.K = kDelB
			s.Tag = int64(1 + g.r.IntN(3)) // one of the initial rows
		default:
			if auto || noSave {
				s.K = kCntA
				break
			}
			y := g.r.IntN(4)
			if len(saves) > 0 && y < 2 && g.r.IntN(2) == 0 {
				y = 2
			}
			switch {
			case y < 2 && nsave < 3 || len(saves) == 0:
				nsave++
				s.K = kSave
				s.Name = fmt.Sprintf("sp%d", nsave)
				saves = append(saves, s.Name)
			default:
				j := g.r.IntN(len(saves))
				s.K = kRollTo
				if y == 3 {
					s.K = kRelease
				}
				s.Name = saves[j]
				saves = saves[:j]
			}
		}
		out = append(out, s)
	}
	return out
}

func (g *gen) prog(fe int) *prog {
	g.nextTx++
	p := &prog{TxID: g.nextTx, FE: fe}
	x := g.r.IntN(100)
	switch fe {
	case feGRPC:
		p.Proto = g.r.IntN(2)
		switch {
		case x < 10:
			p.Auto = true
		case x < 22:
			p.RO = true
		}
		switch y := g.r.IntN(100); {
		case y < 45:
			p.End = endCommit
		case y < 70:
			p.End = endRollback
		case y < 88:
			p.End = endCloseSession
		default:
			p.End = endExpire
		}
		if p.RO && p.End == endCommit && g.r.IntN(3) > 0 {
			p.End = endRollback
		}
		p.End2 = []endKind{endCommit, endRollback, endCloseSession}[g.r.IntN(3)]
	case fePG:
		p.Proto = g.r.IntN(4)
		switch {
		case x < 12:
			p.Auto = true
		case x < 22:
			p.Script = true
			p.Proto = protoSimple
		}
		switch y := g.r.IntN(100); {
		case y < 45:
			p.End = endCommit
		case y < 72:
			p.End = endRollback
		case y < 88:
			p.End = endDrop
		default:
			p.End = endTerminate
		}
		if p.Script && p.End > endRollback {
			p.End = endCommit
		}
		p.End2 = []endKind{endCommit, endCommit, endRollback, endRollback, endDrop, endTerminate}[g.r.IntN(6)]
	}
	p.Stmts = g.body(p.TxID, fe, p.RO, p.Auto, p.Script, false)
	p.After = g.after(p.TxID, fe)
	if fe == feGRPC && !p.Auto && g.r.IntN(6) == 0 {
		g.nextTx++
		in := &prog{TxID: g.nextTx, FE: feGRPC, Proto: g.r.IntN(2), End: endKind(g.r.IntN(2)), End2: endKind(g.r.IntN(2))}
		in.Stmts = g.body(in.TxID, feGRPC, false, false, false, true)
		in.After = g.after(in.TxID, feGRPC)
		p.Inner = in
		p.InnerAt = g.r.IntN(len(p.Stmts))
	}
	return p
}

// after generates what a client may still send inside a block after one of its statements failed, before it ends the
// block: 0-4 statements of every kind (savepoint handling as ORMs do for "nested transactions", more DML, queries, a
// second failure, BEGIN again, COPY).
func (g *gen) after(tx int, fe int) []*stmt {
	n := g.r.IntN(5)
	var out []*stmt
	for i := 0; i < n; i++ {
		s := &stmt{}
		switch x := g.r.IntN(20); {
		case x < 4:
			s.K, s.Name = kRollTo, "@sp" // the savepoint declared last in the block (if any)
		case x < 5:
			s.K, s.Name = kRollTo, "nope"
		case x < 7:
			s.K, s.Name = kRelease, "@sp"
			if x == 6 {
				s.Name = "nope"
			}
		case x < 8:
			s.K, s.Name = kSave, fmt.Sprintf("spa%d", i)
		case x < 11:
			s.K, s.Tag = kInsB, int64(tx)*1000+900+int64(i)
		case x < 13:
			s.K = kUpsA
			s.Rows = []arow{{int64(keyDomain + 1 + g.r.IntN(5)), 1, g.marker(tx, 900+i)}}
		case x < 14:
			s.K = kUpdA
			s.Lo, s.Hi, s.D = 0, keyDomain+40, 1000
		case x < 15:
			s.K = kDelA
			s.Lo, s.Hi = 0, keyDomain+40
		case x < 16:
			s.K = kCntA
		case x < 17:
			s.K = kSelA
			s.Lo, s.Hi = 0, keyDomain+40
		case x < 18:
			s.K = []kind{kInsBNull, kSyntax, kBadSel}[g.r.IntN(3)]
		case x < 19 && fe == fePG:
			s.K = kBegin
		case fe == fePG:
			s.K = kCopy
			s.Rows = []arow{{int64(keyDomain + 30 + g.r.IntN(10)), 1, g.marker(tx, 900+i)}} // one row: see above
		default:
			s.K, s.Tag = kInsB, int64(tx)*1000+900+int64(i)
		}
		out = append(out, s)
	}
	return out
}
