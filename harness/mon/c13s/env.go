package c13s

import (
	"context"
	"fmt"
	"io"
	"net"
	"sort"
	"strconv"
	"strings"
	"time"

	"github.com/codenotary/immudb/pkg/api/schema"
	"github.com/codenotary/immudb/pkg/server"
	"github.com/codenotary/immudb/pkg/server/sessions"
	"github.com/jackc/pgx/v5/pgconn"
	"google.golang.org/grpc"
	"google.golang.org/grpc/credentials/insecure"
	"google.golang.org/grpc/metadata"
	"google.golang.org/protobuf/types/known/emptypb"

	"verifharness/internal/sth"
)

const (
	sysUser = "immudb"
	sysPw   = "immudb"
	dbName  = "c13s"
)

// env is one real immudb server (gRPC on a loopback port, PostgreSQL wire server on another) with a
// fresh data directory, plus a gRPC client connection.
type env struct {
	srv    *server.ImmuServer
	conn   *grpc.ClientConn
	ic     schema.ImmuServiceClient
	pgPort int
}

func startEnv(dir string) (*env, error) {
	so := sessions.DefaultOptions().
		WithSessionGuardCheckInterval(20 * time.Millisecond) // the guard only ticks; what expires is decided by fixed instants (year 2001)
	opts := server.DefaultOptions().
		WithDir(dir).
		WithAddress("127.0.0.1").
		WithPort(0).
		WithMetricsServer(false).
		WithWebServer(false).
		WithPgsqlServer(true).
		WithPgsqlServerPort(0).
		WithNoHistograms(true).
		WithGRPCReflectionServerEnabled(false).
		WithSynced(false).
		WithAdminPassword(sysPw).
		WithSessionOptions(so).
		WithLogfile("").
		WithLogFormat("json")
	srv := server.DefaultServer().WithOptions(opts).WithLogger(sth.QuietLogger()).(*server.ImmuServer)
	if err := srv.Initialize(); err != nil {
		return nil, fmt.Errorf("initialize: %w", err)
	}
	e := &env{srv: srv}
	go srv.GrpcServer.Serve(srv.Listener)
	if err := srv.SessManager.StartSessionsGuard(); err != nil {
		return nil, fmt.Errorf("sessions guard: %w", err)
	}
	go srv.PgsqlSrv.Serve()
	e.pgPort = srv.PgsqlSrv.GetPort()

	conn, err := grpc.Dial(srv.Listener.Addr().String(),
		grpc.WithTransportCredentials(insecure.NewCredentials()),
		grpc.WithDefaultCallOptions(grpc.MaxCallRecvMsgSize(64<<20)))
	if err != nil {
		return nil, err
	}
	e.conn = conn
	e.ic = schema.NewImmuServiceClient(conn)
	return e, nil
}

func (e *env) stop() {
	if e.conn != nil {
		e.conn.Close()
	}
	if e.srv != nil {
		if e.srv.PgsqlSrv != nil {
			e.srv.PgsqlSrv.Stop()
		}
		e.srv.SessManager.StopSessionsGuard()
		e.srv.GrpcServer.Stop()
		e.srv.CloseDatabases()
	}
}

func bg() context.Context { return context.Background() }

func sessCtx(id string) context.Context {
	return metadata.NewOutgoingContext(bg(), metadata.Pairs("sessionid", id))
}

func txCtx(sid, tid string) context.Context {
	return metadata.NewOutgoingContext(bg(), metadata.Pairs("sessionid", sid, "transactionid", tid))
}

func (e *env) openSession(db string) (string, error) {
	r, err := e.ic.OpenSession(bg(), &schema.OpenSessionRequest{Username: []byte(sysUser), Password: []byte(sysPw), DatabaseName: db})
	if err != nil {
		return "", err
	}
	return r.SessionID, nil
}

func (e *env) closeSession(sid string) error {
	_, err := e.ic.CloseSession(sessCtx(sid), &emptypb.Empty{})
	return err
}

// createDB creates the (small) database used by a case.
func (e *env) createDB() error {
	sid, err := e.openSession("defaultdb")
	if err != nil {
		return err
	}
	defer e.closeSession(sid)
	_, err = e.ic.CreateDatabaseV2(sessCtx(sid), &schema.CreateDatabaseRequest{Name: dbName, Settings: &schema.DatabaseNullableSettings{
		MaxTxEntries:   &schema.NullableUint32{Value: 128},
		ReadTxPoolSize: &schema.NullableUint32{Value: 4},
		MaxConcurrency: &schema.NullableUint32{Value: 8},
	}})
	return err
}

// ---- result normalisation: every front-end delivers rows as [][]string ("NULL" for null) ----

type rows [][]string

func (r rows) String() string {
	var b strings.Builder
	for i, x := range r {
		if i > 0 {
			b.WriteByte(';')
		}
		b.WriteString(strings.Join(x, ","))
	}
	return "[" + b.String() + "]"
}

func sqlValText(v *schema.SQLValue) string {
	switch x := v.GetValue().(type) {
	case *schema.SQLValue_Null:
		return "NULL"
	case *schema.SQLValue_N:
		return strconv.FormatInt(x.N, 10)
	case *schema.SQLValue_S:
		return x.S
	case *schema.SQLValue_B:
		return strconv.FormatBool(x.B)
	}
	return fmt.Sprintf("?%v", v)
}

func resultRows(res *schema.SQLQueryResult) rows {
	out := rows{}
	nc := len(res.GetColumns())
	for _, r := range res.GetRows() {
		row := make([]string, 0, nc)
		for _, v := range r.GetValues() {
			row = append(row, sqlValText(v))
		}
		out = append(out, row)
	}
	return out
}

// grpcQuery runs a query outside (tid == "") or inside a server-side transaction.
func (e *env) grpcQuery(sid, tid, q string, params []*schema.NamedParam) (rows, error) {
	type recv interface {
		Recv() (*schema.SQLQueryResult, error)
	}
	var st recv
	var err error
	if tid == "" {
		st, err = e.ic.SQLQuery(sessCtx(sid), &schema.SQLQueryRequest{Sql: q, Params: params})
	} else {
		st, err = e.ic.TxSQLQuery(txCtx(sid, tid), &schema.SQLQueryRequest{Sql: q, Params: params})
	}
	if err != nil {
		return nil, err
	}
	out := rows{}
	for {
		res, err := st.Recv()
		if err == io.EOF {
			return out, nil
		}
		if err != nil {
			return nil, err
		}
		out = append(out, resultRows(res)...)
	}
}

// ---- pgwire ----

type pgSess struct {
	c    *pgconn.PgConn
	prep map[string]string // sql text -> prepared statement name
	nps  int               // names are never reused on a connection
}

func (e *env) pgConnect() (*pgSess, error) {
	cfg, err := pgconn.ParseConfig(fmt.Sprintf("host=127.0.0.1 port=%d user=%s password=%s dbname=%s sslmode=disable", e.pgPort, sysUser, sysPw, dbName))
	if err != nil {
		return nil, err
	}
	cfg.DialFunc = func(ctx context.Context, network, addr string) (net.Conn, error) {
		return (&net.Dialer{}).DialContext(ctx, network, addr)
	}
	c, err := pgconn.ConnectConfig(bg(), cfg)
	if err != nil {
		return nil, err
	}
	return &pgSess{c: c, prep: map[string]string{}}, nil
}

type pgRes struct {
	Rows   rows
	Tag    string
	Err    string // server ErrorResponse text ("" = none)
	Status byte   // ReadyForQuery transaction status after the call
	Broken bool   // connection-level failure (not an ErrorResponse)
}

func pgErrText(err error) (string, bool) {
	if err == nil {
		return "", false
	}
	if pe, ok := err.(*pgconn.PgError); ok {
		return pe.Code + ":" + pe.Message, false
	}
	return err.Error(), true
}

func textRows(vals [][][]byte) rows {
	out := rows{}
	for _, r := range vals {
		row := make([]string, len(r))
		for i, v := range r {
			if v == nil {
				row[i] = "NULL"
			} else {
				row[i] = string(v)
			}
		}
		out = append(out, row)
	}
	return out
}

// simple sends one Query message (simple protocol); the text may hold several statements.
func (p *pgSess) simple(q string) []pgRes {
	rs, err := p.c.Exec(bg(), q).ReadAll()
	var out []pgRes
	for _, r := range rs {
		et, _ := pgErrText(r.Err)
		out = append(out, pgRes{Rows: textRows(r.Rows), Tag: r.CommandTag.String(), Err: et})
	}
	if err != nil {
		et, broken := pgErrText(err)
		if len(out) == 0 || out[len(out)-1].Err != et {
			out = append(out, pgRes{Err: et, Broken: broken})
		}
	}
	if len(out) == 0 {
		out = append(out, pgRes{})
	}
	st := p.c.TxStatus()
	for i := range out {
		out[i].Status = st
	}
	return out
}

// extended sends Parse/Bind/Describe/Execute/Sync with text parameters (unnamed statement).
func (p *pgSess) extended(q string, vals [][]byte) pgRes {
	r := p.c.ExecParams(bg(), q, vals, nil, nil, nil).Read()
	et, broken := pgErrText(r.Err)
	return pgRes{Rows: textRows(r.Rows), Tag: r.CommandTag.String(), Err: et, Broken: broken, Status: p.c.TxStatus()}
}

// prepared uses a named prepared statement (Parse once per connection, then Bind/Execute).
func (p *pgSess) prepared(q string, vals [][]byte) pgRes {
	name, ok := p.prep[q]
	if !ok {
		p.nps++
		name = fmt.Sprintf("ps%d", p.nps)
		if _, err := p.c.Prepare(bg(), name, q, nil); err != nil {
			et, broken := pgErrText(err)
			return pgRes{Err: "prepare:" + et, Broken: broken, Status: p.c.TxStatus()}
		}
		p.prep[q] = name
	}
	r := p.c.ExecPrepared(bg(), name, vals, nil, nil).Read()
	et, broken := pgErrText(r.Err)
	return pgRes{Rows: textRows(r.Rows), Tag: r.CommandTag.String(), Err: et, Broken: broken, Status: p.c.TxStatus()}
}

func (p *pgSess) terminate() { p.c.Close(bg()) }    // Terminate message, then close
func (p *pgSess) drop()      { p.c.Conn().Close() } // abrupt close, no Terminate

func sortedKeys[V any](m map[string]V) []string {
	ks := make([]string, 0, len(m))
	for k := range m {
		ks = append(ks, k)
	}
	sort.Strings(ks)
	return ks
}
