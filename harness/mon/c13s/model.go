package c13s

import (
	"fmt"
	"sort"
	"strconv"
	"strings"
)

// ---- reference model: two tables ----
//   a(id INTEGER PRIMARY KEY, v INTEGER, s VARCHAR[16])            rows written by a tx carry its marker in s
//   b(id INTEGER AUTO_INCREMENT PRIMARY KEY, v INTEGER NOT NULL)   v is a tag unique per statement; ids are not modelled

type rowA struct {
	V int64
	S string // "NULL" = SQL NULL (generated strings never equal "NULL")
}

type state struct {
	A map[int64]rowA
	B map[int64]bool
}

func newState() *state { return &state{A: map[int64]rowA{}, B: map[int64]bool{}} }

func (s *state) clone() *state {
	n := &state{A: make(map[int64]rowA, len(s.A)), B: make(map[int64]bool, len(s.B))}
	for k, v := range s.A {
		n.A[k] = v
	}
	for k := range s.B {
		n.B[k] = true
	}
	return n
}

func (s *state) idsA(lo, hi int64) []int64 {
	var ids []int64
	for k := range s.A {
		if k >= lo && k < hi {
			ids = append(ids, k)
		}
	}
	sort.Slice(ids, func(i, j int) bool { return ids[i] < ids[j] })
	return ids
}

func (s *state) rowsA(lo, hi int64) rows {
	out := rows{}
	for _, k := range s.idsA(lo, hi) {
		r := s.A[k]
		out = append(out, []string{strconv.FormatInt(k, 10), strconv.FormatInt(r.V, 10), r.S})
	}
	return out
}

func (s *state) rowsB() rows {
	var vs []int64
	for k := range s.B {
		vs = append(vs, k)
	}
	sort.Slice(vs, func(i, j int) bool { return vs[i] < vs[j] })
	out := rows{}
	for _, v := range vs {
		out = append(out, []string{strconv.FormatInt(v, 10)})
	}
	return out
}

func (s *state) text() string {
	return "a=" + s.rowsA(-1<<62, 1<<62).String() + " b=" + s.rowsB().String()
}

// sortRowsNumeric sorts single-column rows numerically (table b is compared as a set of tags).
func sortRowsNumeric(r rows) rows {
	out := append(rows{}, r...)
	sort.SliceStable(out, func(i, j int) bool {
		a, _ := strconv.ParseInt(out[i][0], 10, 64)
		b, _ := strconv.ParseInt(out[j][0], 10, 64)
		return a < b
	})
	return out
}

// ---- statements ----

type kind int

const (
	kInsA kind = iota
	kUpsA
	kUpdA
	kDelA
	kSelA
	kCntA
	kInsB
	kInsBNull // NOT NULL violation
	kSelB
	kCntB
	kDelB
	kBadSel // query on a column that does not exist
	kSave
	kRollTo
	kRelease
	kPeek   // not a statement: another session reads while the tx is open
	kSyntax // text that does not parse
	kUse    // pgwire: USE <same database> (makes the session drop its transaction)
	kCopy   // pgwire: COPY a (id, v, s) FROM stdin
	kBegin  // follow-up only: BEGIN inside a block
)

var kindName = []string{"insA", "upsA", "updA", "delA", "selA", "cntA", "insB", "insBnull", "selB", "cntB", "delB", "badSel", "savepoint", "rollbackTo", "release", "peek", "syntax", "use", "copy", "begin"}

type arow struct {
	ID, V int64
	S     string
}

type stmt struct {
	K      kind
	Rows   []arow
	Lo, Hi int64
	D      int64
	Tag    int64
	Name   string
}

func (k kind) isDML() bool {
	return k <= kDelA || k == kInsB || k == kInsBNull || k == kDelB || k == kCopy
}
func (k kind) isQuery() bool {
	return k == kSelA || k == kCntA || k == kSelB || k == kCntB || k == kBadSel
}
func (k kind) table() string {
	switch k {
	case kInsA, kUpsA, kUpdA, kDelA, kSelA, kCntA, kBadSel, kCopy:
		return "a"
	case kInsB, kInsBNull, kSelB, kCntB, kDelB:
		return "b"
	}
	return ""
}
func (k kind) verb() string {
	switch k {
	case kInsA, kInsB, kInsBNull:
		return "INSERT"
	case kUpsA:
		return "UPSERT"
	case kUpdA:
		return "UPDATE"
	case kDelA, kDelB:
		return "DELETE"
	case kCopy:
		return "COPY"
	}
	return ""
}

const (
	pmLiteral = iota
	pmNamed   // @p1 (gRPC)
	pmDollar  // $1 (PostgreSQL wire, extended protocol)
)

func lit(v any) string {
	switch x := v.(type) {
	case nil:
		return "NULL"
	case int64:
		return strconv.FormatInt(x, 10)
	case string:
		return "'" + x + "'"
	}
	return "?"
}

func sval(s string) any {
	if s == "NULL" {
		return nil
	}
	return s
}

// sql renders the statement; with parameters when the mode asks for them and the statement has a parametrised form.
func (st *stmt) sql(pm int) (string, []any) {
	var ps []any
	p := func(v any) string {
		if pm == pmLiteral || v == nil && pm == pmNamed {
			return lit(v)
		}
		ps = append(ps, v)
		if pm == pmNamed {
			return fmt.Sprintf("@p%d", len(ps))
		}
		return fmt.Sprintf("$%d", len(ps))
	}
	switch st.K {
	case kInsA, kUpsA:
		verb := "INSERT"
		if st.K == kUpsA {
			verb = "UPSERT"
		}
		if len(st.Rows) > 1 {
			pm = pmLiteral
		}
		var vals []string
		for _, r := range st.Rows {
			vals = append(vals, "("+p(r.ID)+", "+p(r.V)+", "+p(sval(r.S))+")")
		}
		return verb + " INTO a(id, v, s) VALUES " + strings.Join(vals, ", "), ps
	case kUpdA:
		return "UPDATE a SET v = v + " + p(st.D) + " WHERE id >= " + p(st.Lo) + " AND id < " + p(st.Hi), ps
	case kDelA:
		return "DELETE FROM a WHERE id >= " + p(st.Lo) + " AND id < " + p(st.Hi), ps
	case kSelA:
		return "SELECT id, v, s FROM a WHERE id >= " + p(st.Lo) + " AND id < " + p(st.Hi) + " ORDER BY id", ps
	case kCntA:
		return "SELECT COUNT(*) FROM a", nil
	case kInsB:
		return "INSERT INTO b(v) VALUES (" + p(st.Tag) + ")", ps
	case kInsBNull:
		return "INSERT INTO b(v) VALUES (NULL)", nil
	case kSelB:
		return "SELECT v FROM b", nil
	case kCntB:
		return "SELECT COUNT(*) FROM b", nil
	case kDelB:
		return "DELETE FROM b WHERE v = " + p(st.Tag), ps
	case kBadSel:
		return "SELECT nope FROM a", nil
	case kSyntax:
		return "INSERT INTO a(id, v, s) VALUES (", nil
	case kUse:
		return "USE " + dbName, nil
	case kBegin:
		return "BEGIN", nil
	case kCopy:
		return "COPY a (id, v, s) FROM stdin", nil
	case kSave:
		return "SAVEPOINT " + st.Name, nil
	case kRollTo:
		return "ROLLBACK TO SAVEPOINT " + st.Name, nil
	case kRelease:
		return "RELEASE SAVEPOINT " + st.Name, nil
	}
	return "", nil
}

func (st *stmt) text() string {
	if st.K == kPeek {
		return "-- peek from another session"
	}
	s, _ := st.sql(pmLiteral)
	if st.K == kCopy {
		s += " <" + strings.ReplaceAll(strings.TrimSpace(st.copyData()), "\n", " | ") + ">"
	}
	return s
}

// copyData renders the rows of a COPY in text format.
func (st *stmt) copyData() string {
	var b strings.Builder
	for _, r := range st.Rows {
		fmt.Fprintf(&b, "%d\t%d\t%s\n", r.ID, r.V, r.S)
	}
	return b.String()
}

// ---- interpreter ----

type res struct {
	Rows rows
	N    int  // affected rows (DML)
	Err  bool // the statement must fail (and thereby abort the transaction)
}

type savept struct {
	name  string
	snap  *state
	total int
}

// view is a transaction's private state: a copy of the snapshot plus its own changes.
type view struct {
	st         *state
	total      int // cumulative affected rows
	saves      []savept
	keep       bool // interpret ROLLBACK TO SAVEPOINT as the engine's known open defect does (counters restored, writes kept)
	ro         bool
	lastB      int64 // tag of the last row inserted into b (0 = none)
	usedRollTo bool
}

func (v *view) exec(s *stmt) res {
	if v.ro && s.K.isDML() {
		// a read-only transaction refuses a write when one is attempted: an UPDATE / DELETE matching nothing passes
		switch s.K {
		case kUpdA, kDelA:
			if len(v.st.idsA(s.Lo, s.Hi)) == 0 {
				return res{}
			}
		case kDelB:
			if !v.st.B[s.Tag] {
				return res{}
			}
		}
		return res{Err: true}
	}
	switch s.K {
	case kSyntax:
		return res{Err: true}
	case kInsA, kCopy:
		seen := map[int64]bool{}
		for _, r := range s.Rows {
			if _, ok := v.st.A[r.ID]; ok || seen[r.ID] {
				return res{Err: true}
			}
			seen[r.ID] = true
		}
		for _, r := range s.Rows {
			v.st.A[r.ID] = rowA{r.V, r.S}
		}
		v.total += len(s.Rows)
		return res{N: len(s.Rows)}
	case kUpsA:
		for _, r := range s.Rows {
			v.st.A[r.ID] = rowA{r.V, r.S}
		}
		v.total += len(s.Rows)
		return res{N: len(s.Rows)}
	case kUpdA:
		ids := v.st.idsA(s.Lo, s.Hi)
		for _, id := range ids {
			r := v.st.A[id]
			r.V += s.D
			v.st.A[id] = r
		}
		v.total += len(ids)
		return res{N: len(ids)}
	case kDelA:
		ids := v.st.idsA(s.Lo, s.Hi)
		for _, id := range ids {
			delete(v.st.A, id)
		}
		v.total += len(ids)
		return res{N: len(ids)}
	case kSelA:
		return res{Rows: v.st.rowsA(s.Lo, s.Hi)}
	case kCntA:
		return res{Rows: rows{{strconv.Itoa(len(v.st.A))}}}
	case kInsB:
		v.st.B[s.Tag] = true
		v.lastB = s.Tag
		v.total++
		return res{N: 1}
	case kInsBNull:
		return res{Err: true}
	case kSelB:
		return res{Rows: v.st.rowsB()}
	case kCntB:
		return res{Rows: rows{{strconv.Itoa(len(v.st.B))}}}
	case kDelB:
		if v.st.B[s.Tag] {
			delete(v.st.B, s.Tag)
			v.total++
			return res{N: 1}
		}
		return res{}
	case kBadSel:
		return res{Err: true}
	case kSave:
		v.saves = append(v.saves, savept{s.Name, v.st.clone(), v.total})
		return res{}
	case kRollTo, kRelease:
		for i := len(v.saves) - 1; i >= 0; i-- {
			if v.saves[i].name == s.Name {
				if s.K == kRollTo {
					v.usedRollTo = true
					if !v.keep {
						v.st = v.saves[i].snap
					}
					v.total = v.saves[i].total
				}
				v.saves = v.saves[:i]
				return res{}
			}
		}
		return res{Err: true}
	}
	return res{}
}

// ---- observations ----

type obs struct {
	St   *stmt
	Rows rows
	N    int    // affected rows as reported (-1 = the front-end reports none for this call)
	Err  string // "" = success
	Tag  string // pgwire CommandComplete tag
	Via  string // how it was sent
	Cont bool   // the statement failed but the front-end keeps the transaction (failed query, pgwire parse error)
}

func (o *obs) matches(r res) bool {
	if (o.Err != "") != r.Err {
		return false
	}
	if r.Err {
		return true
	}
	if o.St.K.isQuery() {
		got := o.Rows
		if o.St.K == kSelB {
			got = sortRowsNumeric(got)
		}
		return got.String() == r.Rows.String()
	}
	return true
}

// replay runs the observed statements on a copy of base; ok reports whether every observation equals the model's result.
// The returned results are index-aligned with the observations.
func replay(base *state, ro bool, keep bool, ob []obs) (v *view, results []res, ok bool, where int) {
	v = &view{st: base.clone(), keep: keep, ro: ro}
	ok, where = true, -1
	for i := range ob {
		if ob[i].St.K == kPeek {
			results = append(results, res{})
			continue
		}
		r := v.exec(ob[i].St)
		results = append(results, r)
		if ok && !ob[i].matches(r) {
			ok, where = false, i
		}
		if r.Err && !ob[i].Cont {
			// a failed non-query statement aborts the transaction: nothing after it belongs to it
			break
		}
	}
	return
}
