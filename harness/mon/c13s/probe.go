package c13s

import (
	"fmt"
	"strings"

	"github.com/codenotary/immudb/pkg/api/schema"
	"google.golang.org/protobuf/types/known/emptypb"

	"verifharness/internal/fw"
)

// probe prints what the front-ends do for a few hand-written programs (development aid, VERIF_C13S_PROBE=1).
func probe(c *fw.Ctx) {
	e, err := startEnv(c.Dir("probe"))
	if err != nil {
		fmt.Println("start:", err)
		return
	}
	defer e.stop()
	fmt.Println("createDB:", e.createDB())
	sid, _ := e.openSession(dbName)
	ex := func(q string) {
		_, err := e.ic.SQLExec(sessCtx(sid), &schema.SQLExecRequest{Sql: q})
		fmt.Printf("SQLExec %q -> err=%v\n", q, err)
	}
	q := func(s string) {
		r, err := e.grpcQuery(sid, "", s, nil)
		fmt.Printf("   other session: %q -> %v err=%v\n", s, r, err)
	}
	ex("CREATE TABLE a(id INTEGER, v INTEGER, s VARCHAR[16], PRIMARY KEY id)")
	ex("INSERT INTO a(id,v,s) VALUES (1,10,'x'),(2,20,'y')")
	p, err := e.pgConnect()
	if err != nil {
		fmt.Println(err)
		return
	}
	s := func(qs string) {
		for _, r := range p.simple(qs) {
			fmt.Printf("pg %-55q -> rows=%v tag=%q err=%q st=%c\n", qs, r.Rows, r.Tag, r.Err, r.Status)
		}
	}
	all := "SELECT id, v, s FROM a ORDER BY id"
	fmt.Println("--- (1) USE inside a block")
	s("BEGIN")
	s("INSERT INTO a(id,v,s) VALUES (10,1,'before-use')")
	s("USE c13s")
	s("INSERT INTO a(id,v,s) VALUES (11,1,'after-use')")
	q(all)
	s("ROLLBACK")
	q(all)
	fmt.Println("--- (2) COPY inside a block, second row duplicate")
	s("BEGIN")
	s("INSERT INTO a(id,v,s) VALUES (20,1,'before-copy')")
	ct, err := p.c.CopyFrom(bg(), strings.NewReader("21\t1\tc1\n1\t1\tdup\n22\t1\tc2\n23\t1\tc3\n"), "COPY a (id, v, s) FROM stdin")
	fmt.Printf("copy: tag=%q err=%v st=%c\n", ct.String(), err, p.c.TxStatus())
	q(all)
	s("INSERT INTO a(id,v,s) VALUES (24,1,'after-copy')")
	s("ROLLBACK")
	q(all)
	fmt.Println("--- (2b) COPY in an already aborted block")
	s("BEGIN")
	s("INSERT INTO a(id,v,s) VALUES (1,1,'dup')")
	ct, err = p.c.CopyFrom(bg(), strings.NewReader("31\t1\tc1\n32\t1\tc2\n"), "COPY a (id, v, s) FROM stdin")
	fmt.Printf("copy: tag=%q err=%v st=%c\n", ct.String(), err, p.c.TxStatus())
	q(all)
	s("ROLLBACK")
	q(all)
	fmt.Println("--- (2c) COPY in a healthy block then ROLLBACK / COMMIT")
	s("BEGIN")
	ct, err = p.c.CopyFrom(bg(), strings.NewReader("41\t1\tc1\n42\t1\tc2\n"), "COPY a (id, v, s) FROM stdin")
	fmt.Printf("copy: tag=%q err=%v st=%c\n", ct.String(), err, p.c.TxStatus())
	q(all)
	s("ROLLBACK")
	q(all)
	fmt.Println("--- syntax error inside a pg block")
	s("BEGIN")
	s("INSERT INTO a(id,v,s) VALUES (50,1,'before-syntax')")
	s("INSERT INTO a(id,v,s) VALUES (")
	s("INSERT INTO a(id,v,s) VALUES (51,1,'after-syntax')")
	q(all)
	s("COMMIT")
	q(all)
	fmt.Println("--- aborted block follow-ups")
	s("BEGIN")
	s("SAVEPOINT sp")
	s("INSERT INTO a(id,v,s) VALUES (1,1,'dup')")
	s("ROLLBACK TO SAVEPOINT sp")
	s("ROLLBACK TO SAVEPOINT nope")
	s("RELEASE SAVEPOINT sp")
	s("SAVEPOINT sp2")
	s("BEGIN")
	s("SELECT COUNT(*) FROM a")
	s("INSERT INTO a(id,v,s) VALUES (60,1,'in-aborted')")
	s("COMMIT")
	q(all)
	fmt.Println("--- (3) gRPC: parse error in TxSQLExec")
	nt, _ := e.ic.NewTx(sessCtx(sid), &schema.NewTxRequest{Mode: schema.TxMode_ReadWrite})
	tid := nt.GetTransactionID()
	tex := func(s string) {
		_, err := e.ic.TxSQLExec(txCtx(sid, tid), &schema.SQLExecRequest{Sql: s})
		fmt.Printf("TxSQLExec %q -> err=%v\n", s, err)
	}
	tex("INSERT INTO a(id,v,s) VALUES (70,1,'before-parse-error')")
	tex("INSERT INTO a(id,v,s) VALUES (")
	tex("INSERT INTO a(id,v,s) VALUES (71,1,'after-parse-error')")
	_, err = e.ic.Commit(txCtx(sid, tid), &emptypb.Empty{})
	fmt.Println("commit:", err)
	q(all)
	// does the leaked tx block anything? another tx writing the same key and committing
	ex("INSERT INTO a(id,v,s) VALUES (70,2,'other')")
	ex("UPDATE a SET v = 3 WHERE id = 70")
	q(all)
	e.closeSession(sid)
	sid, _ = e.openSession(dbName)
	q(all)
}
