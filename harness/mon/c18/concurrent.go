package c18

import (
	"fmt"
	"runtime"
	"sync"
	"sync/atomic"
	"time"

	"github.com/codenotary/immudb/pkg/api/schema"
	"google.golang.org/grpc/status"

	"verifharness/internal/fw"
)

// concurrent (thorough tier): several logins of the same user keep calling while the sysadmin
// deactivates / re-activates the user or revokes / re-grants its permission.
//
// Logical time only: `phase` is incremented by the administrator around every change,
// phase%4 == 0 normal, 1 invalidation in flight, 2 invalidated (stable), 3 restoration in flight.
// A call that started and returned inside one stable invalidated window (phase read before the
// call == phase read after it, == 2 mod 4) was made by a user that was, for the whole duration of
// the call, deactivated / without permission: it must fail. Nothing else is judged.
func (r *caseRun) concurrent(caseData []byte) {
	e, c, cs := r.e, r.c, r.cs
	user := roleUser[cs.Role]
	var phase atomic.Int64
	var inWindow atomic.Int64 // calls completed inside the current stable window
	var stop atomic.Bool
	var loginGate sync.RWMutex
	var mu sync.Mutex
	servedBy := map[string]int{}
	servedOps := map[string]int{}
	kindNow := atomic.Value{}
	kindNow.Store("deactivated")

	const workers = 4
	var wg sync.WaitGroup
	for w := 0; w < workers; w++ {
		wg.Add(1)
		go func(w int) {
			defer wg.Done()
			rnd := fw.NewRand(cs.Content, fmt.Sprintf("c18/concurrent/%d/%d", cs.Role, w))
			tok, tokClean := "", false
			for !stop.Load() {
				if tok == "" {
					// logins never overlap a change of the user (a login racing with SetActiveUser / ChangePermission
					// is a different question from the one asked here: calls in flight with established logins)
					loginGate.RLock()
					e0 := phase.Load()
					l, err := e.ic.Login(bg(), &schema.LoginRequest{User: []byte(user), Password: []byte(userPw)})
					if err != nil {
						loginGate.RUnlock()
						runtime.Gosched()
						time.Sleep(200 * time.Microsecond)
						continue
					}
					tok = l.Token
					if u, err := e.ic.UseDatabase(tokCtx(tok), &schema.Database{DatabaseName: "db1"}); err == nil {
						tok = u.Token
					}
					// a login that overlapped a change of the user races with it (the server reads the user,
					// checks the password for ~60 ms, then registers the login): calls with such a token are not judged
					tokClean = phase.Load() == e0 && e0%2 == 0
					loginGate.RUnlock()
				}
				for i := 0; i < 16 && !stop.Load(); i++ {
					op := "Get"
					if cs.Role >= roleRW && rnd.IntN(2) == 0 {
						op = "Set"
					}
					p0 := phase.Load()
					var err error
					if op == "Set" {
						_, err = e.ic.Set(tokCtx(tok), &schema.SetRequest{KVs: []*schema.KeyValue{{Key: []byte(fmt.Sprintf("cw%d", w)), Value: []byte(fmt.Sprintf("v%d", rnd.IntN(1000)))}}})
					} else {
						_, err = e.ic.Get(tokCtx(tok), &schema.KeyRequest{Key: []byte("k0")})
					}
					p1 := phase.Load()
					if p0 == p1 && p0%4 == 2 && tokClean {
						inWindow.Add(1)
						c.Eval(1)
						kind := kindNow.Load().(string)
						out := "denied:" + status.Code(err).String()
						if err == nil {
							out = "allowed"
							mu.Lock()
							servedBy[kind]++
							servedOps[kind+"/"+op]++
							mu.Unlock()
						}
						c.Distinct(fmt.Sprintf("concurrent|%s|%s|%s|%s", roleNames[cs.Role], kind, op, out))
					} else {
						c.Count("concurrent_calls_unjudged", 1)
					}
				}
				if rnd.IntN(3) == 0 { // sometimes a fresh login, sometimes the old token is kept across changes
					tok = ""
				}
			}
		}(w)
	}

	sys := e.saCtx(defDBn)
	rounds := 12
	for i := 0; i < rounds; i++ {
		kind := "deactivated"
		if i%2 == 1 {
			kind = "permchanged"
		}
		kindNow.Store(kind)
		// let the workers log in and work normally for a while (count based)
		waitCalls(&phase, nil, 0)
		loginGate.Lock()
		phase.Add(1) // in flight
		var err error
		if kind == "deactivated" {
			_, err = e.ic.SetActiveUser(sys, &schema.SetActiveUserRequest{Username: user, Active: false})
		} else {
			_, err = e.ic.ChangePermission(sys, &schema.ChangePermissionRequest{Action: schema.PermissionAction_REVOKE, Username: user, Database: "db1", Permission: origPermission(cs.Role)})
		}
		if err != nil {
			c.Inconclusive("concurrent: invalidation failed: " + err.Error())
			phase.Add(3)
			loginGate.Unlock()
			continue
		}
		inWindow.Store(0)
		phase.Add(1) // stable invalidated window
		loginGate.Unlock()
		waitCalls(&phase, &inWindow, 24)
		loginGate.Lock()
		phase.Add(1) // restoring
		if kind == "deactivated" {
			e.ic.SetActiveUser(sys, &schema.SetActiveUserRequest{Username: user, Active: true})
		} else {
			e.ic.ChangePermission(sys, &schema.ChangePermissionRequest{Action: schema.PermissionAction_GRANT, Username: user, Database: "db1", Permission: origPermission(cs.Role)})
		}
		phase.Add(1) // normal
		loginGate.Unlock()
	}
	stop.Store(true)
	wg.Wait()
	c.Count("concurrent_windows", int64(rounds))
	for k, n := range servedBy {
		r.violate("refused-session-served/concurrent-"+k, fmt.Sprintf("role %s, %d logins of %s calling while the sysadmin changes the user: %d calls that ran entirely while the user was %s were served %v",
			roleNames[cs.Role], workers, user, n, k, servedOps), caseData)
	}
}

// waitCalls yields until n calls were counted (bounded; the bound only ends the wait, it decides nothing).
func waitCalls(_ *atomic.Int64, counter *atomic.Int64, n int64) {
	for i := 0; i < 400; i++ {
		if counter != nil && counter.Load() >= n {
			return
		}
		runtime.Gosched()
		time.Sleep(500 * time.Microsecond)
		if counter == nil && i >= 40 {
			return
		}
	}
}
