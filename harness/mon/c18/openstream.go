package c18

// Streams that stay open across a change of the caller's rights. StreamExportTx is the one RPC of the
// service that serves several requests on one stream (request stream -> chunk stream): every request is
// an export of its own and must be gated like the unary ExportTx. The caller opens the stream while
// entitled, is served once, then loses the right (permission revoked, lowered by GRANT, user deactivated,
// session closed / logged out); the next request on the still open stream must be refused, like the
// unary call made with the same credential at that moment.

import (
	"fmt"
	"strings"

	"google.golang.org/protobuf/types/known/emptypb"

	"github.com/codenotary/immudb/pkg/api/schema"
	"github.com/codenotary/immudb/pkg/stream"
)

func (r *caseRun) openStreams(caseData []byte) {
	e, c := r.e, r.c
	user := xUser[roleAdmin]
	sys := e.saCtx(defDBn)
	changes := []string{"permission-revoked", "permission-lowered-by-grant", "user-deactivated", "credential-ended", "no-change"}
	for _, kind := range []string{"token", "session"} {
		for _, change := range changes {
			if err := e.resetXUser(roleAdmin); err != nil {
				c.Inconclusive("openstream: cannot prepare " + user + ": " + err.Error())
				continue
			}
			e.ic.SetActiveUser(sys, &schema.SetActiveUserRequest{Username: user, Active: true})
			x := &cx{e: e, role: roleAdmin, user: user, sel: "own", state: "openstream"}
			var steps []string
			note := func(s string, err error) { steps = append(steps, s+": "+errCode(err)) }
			if kind == "session" {
				rs, err := e.ic.OpenSession(bg(), &schema.OpenSessionRequest{Username: []byte(user), Password: []byte(userPw), DatabaseName: "db1"})
				note("OpenSession(db1)", err)
				if err != nil {
					c.Inconclusive("openstream: no session for " + user + ": " + err.Error())
					continue
				}
				x.cred = cred{kind: "session", sessID: rs.SessionID, ok: true}
			} else {
				rl, err := e.ic.Login(bg(), &schema.LoginRequest{User: []byte(user), Password: []byte(userPw)})
				note("Login", err)
				if err != nil {
					c.Inconclusive("openstream: no login for " + user + ": " + err.Error())
					continue
				}
				x.cred = cred{kind: "token", token: rl.Token, ok: true}
				ru, err := e.ic.UseDatabase(x.ctx(), &schema.Database{DatabaseName: "db1"})
				note("UseDatabase(db1)", err)
				if err == nil {
					x.cred.token = ru.Token
				}
			}
			cleanup := func() {
				if kind == "session" {
					e.ic.CloseSession(sessCtx(x.cred.sessID), &emptypb.Empty{})
				} else {
					e.ic.Logout(tokCtx(x.cred.token), &emptypb.Empty{})
				}
				e.ic.SetActiveUser(sys, &schema.SetActiveUserRequest{Username: user, Active: true})
				e.resetXUser(roleAdmin)
			}
			st, err := e.ic.StreamExportTx(x.ctx())
			note("open StreamExportTx", err)
			if err != nil {
				c.Inconclusive("openstream: stream not opened: " + err.Error())
				cleanup()
				continue
			}
			err = st.Send(&schema.ExportTxRequest{Tx: 1})
			var first []byte
			if err == nil {
				first, _, err = stream.NewMsgReceiver(st).ReadFully()
			}
			note(fmt.Sprintf("request 1 on the stream (%d bytes)", len(first)), err)
			c.Eval(1)
			if err != nil || len(first) == 0 {
				// the entitled caller must be served (otherwise nothing is observed afterwards)
				r.violate("openstream/entitled-caller-not-served/"+kind, fmt.Sprintf("admin of db1 (%s) is not served by StreamExportTx: %v; steps: %s", kind, err, strings.Join(steps, "; ")), caseData)
				st.CloseSend()
				cleanup()
				continue
			}
			switch change {
			case "permission-revoked":
				_, err = e.ic.ChangePermission(sys, &schema.ChangePermissionRequest{Action: schema.PermissionAction_REVOKE, Username: user, Database: "db1", Permission: permissionCode(pAdmin)})
				note("sysadmin ChangePermission(REVOKE db1)", err)
			case "permission-lowered-by-grant":
				_, err = e.ic.ChangePermission(sys, &schema.ChangePermissionRequest{Action: schema.PermissionAction_GRANT, Username: user, Database: "db1", Permission: permissionCode(pR)})
				note("sysadmin ChangePermission(GRANT read-only on db1)", err)
			case "user-deactivated":
				_, err = e.ic.SetActiveUser(sys, &schema.SetActiveUserRequest{Username: user, Active: false})
				note("sysadmin SetActiveUser(false)", err)
			case "credential-ended":
				if kind == "session" {
					_, err = e.ic.CloseSession(sessCtx(x.cred.sessID), &emptypb.Empty{})
					note("CloseSession", err)
				} else {
					_, err = e.ic.Logout(tokCtx(x.cred.token), &emptypb.Empty{})
					note("Logout", err)
				}
			}
			if err != nil {
				c.Inconclusive("openstream: the change could not be made: " + strings.Join(steps, "; "))
				st.CloseSend()
				cleanup()
				continue
			}
			// what the unary call says about this credential now is the reference
			var unaryServed bool
			if ust, uerr := e.ic.ExportTx(x.ctx(), &schema.ExportTxRequest{Tx: 1}); uerr == nil {
				b, _, rerr := stream.NewMsgReceiver(ust).ReadFully()
				unaryServed = rerr == nil && len(b) > 0
				note(fmt.Sprintf("unary ExportTx with the same credential (%d bytes)", len(b)), rerr)
			} else {
				note("unary ExportTx with the same credential", uerr)
			}
			// the next request on the stream that was opened before the change
			var second []byte
			err = st.Send(&schema.ExportTxRequest{Tx: 2})
			if err == nil {
				second, _, err = stream.NewMsgReceiver(st).ReadFully()
			}
			note(fmt.Sprintf("request 2 on the open stream (%d bytes)", len(second)), err)
			streamServed := err == nil && len(second) > 0
			st.CloseSend()
			c.Eval(1)
			c.Distinct(fmt.Sprintf("openstream|%s|%s|unary-served=%v|stream-served=%v", kind, change, unaryServed, streamServed))
			r.trace = append(r.trace, map[string]any{"mode": "openstream", "credential": kind, "change": change, "steps": steps})
			switch {
			case change == "no-change" && (!unaryServed || !streamServed):
				r.violate("openstream/entitled-caller-not-served/"+kind, fmt.Sprintf("nothing changed, yet unary served=%v, second request on the stream served=%v; steps: %s", unaryServed, streamServed, strings.Join(steps, "; ")), caseData)
			case change != "no-change" && unaryServed:
				// the credential is still good for the unary call: the matrix judges that (stale-permission-served/...); nothing is asked of the stream
				c.Count("openstream_change_did_not_refuse_unary", 1)
			case change != "no-change" && streamServed:
				r.violate("openstream/served-after-"+change+"/"+kind+"/streamExportTx",
					fmt.Sprintf("a request on a StreamExportTx stream opened before the change was served %d bytes of db1 although the unary ExportTx with the same credential is refused; steps: %s", len(second), strings.Join(steps, "; ")), caseData)
			}
			cleanup()
		}
	}
}
