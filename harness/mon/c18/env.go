package c18

import (
	"context"
	"fmt"
	"net"
	"reflect"
	"sort"
	"strings"
	"unsafe"

	"github.com/codenotary/immudb/pkg/api/protomodel"
	"github.com/codenotary/immudb/pkg/api/schema"
	"github.com/codenotary/immudb/pkg/database"
	"github.com/codenotary/immudb/pkg/server"
	"google.golang.org/grpc"
	"google.golang.org/grpc/credentials/insecure"
	"google.golang.org/grpc/metadata"
	"google.golang.org/grpc/test/bufconn"
	"google.golang.org/protobuf/encoding/prototext"
	"google.golang.org/protobuf/types/known/emptypb"
	"google.golang.org/protobuf/types/known/structpb"

	"verifharness/internal/sth"
)

// Roles: the permission held on db1 ("own" database).
const (
	roleNone = iota
	roleR
	roleRW
	roleAdmin
	roleSys
)

var roleNames = []string{"none", "R", "RW", "Admin", "SysAdmin"}

// permission levels as used by the oracle (ordered)
const (
	pNone  = 0
	pR     = 1
	pRW    = 2
	pAdmin = 3
	pSys   = 4
)

const (
	sysUser  = "immudb"
	sysPw    = "immudb"
	userPw   = "C18-Passw0rd!"
	vicUser  = "vicc18"  // target of ChangePassword / ChangePermission / ChangeSQLPrivileges (created by uadm)
	vic2User = "vic2c18" // target of SetActiveUser (created by uadm)
	sysDBn   = "systemdb"
	defDBn   = "defaultdb"
)

var roleUser = []string{"unonec18", "urc18", "urwc18", "uadmc18", sysUser}

// data databases carrying planted markers
var dataDBs = []string{defDBn, "db1", "db2", "db3"}

type env struct {
	srv  *server.ImmuServer
	lis  *bufconn.Listener
	conn *grpc.ClientConn
	ic   schema.ImmuServiceClient
	dc   protomodel.DocumentServiceClient
	ac   protomodel.AuthorizationServiceClient

	sa map[string]string // database -> sysadmin session id bound to it (prep, digest)

	seq     int // fresh-name counter
	vic2act bool
	docID   map[string]string // db -> id of the planted document
	methods []methodInfo
	ignored []string
}

type methodInfo struct {
	Full      string // "/immudb.schema.ImmuService/Set"
	Service   string
	Name      string
	ClientStr bool
	ServerStr bool
}

func marker(db string) string { return "MRK-" + db + "-" }

func startEnv(dir string) (*env, error) {
	e := &env{sa: map[string]string{}, docID: map[string]string{}, vic2act: true}
	e.lis = bufconn.Listen(4 << 20)
	opts := server.DefaultOptions().
		WithDir(dir).
		WithListener(e.lis).
		WithMetricsServer(false).
		WithWebServer(false).
		WithPgsqlServer(false).
		WithNoHistograms(true).
		WithGRPCReflectionServerEnabled(false).
		WithSynced(false).
		WithAdminPassword(sysPw).
		WithLogfile("").
		WithLogFormat("json") // no banner on stdout: a crash report must start with the Go runtime's text
	srv := server.DefaultServer().WithOptions(opts).WithLogger(sth.QuietLogger()).(*server.ImmuServer)
	if err := srv.Initialize(); err != nil {
		return nil, fmt.Errorf("initialize: %w", err)
	}
	e.srv = srv
	go srv.GrpcServer.Serve(srv.Listener)

	conn, err := grpc.Dial("bufnet",
		grpc.WithContextDialer(func(context.Context, string) (net.Conn, error) { return e.lis.Dial() }),
		grpc.WithTransportCredentials(insecure.NewCredentials()),
		grpc.WithDefaultCallOptions(grpc.MaxCallRecvMsgSize(64<<20)))
	if err != nil {
		return nil, err
	}
	e.conn = conn
	e.ic = schema.NewImmuServiceClient(conn)
	e.dc = protomodel.NewDocumentServiceClient(conn)
	e.ac = protomodel.NewAuthorizationServiceClient(conn)

	// method list: what the gRPC server actually serves
	for svc, info := range srv.GrpcServer.GetServiceInfo() {
		if !strings.HasPrefix(svc, "immudb.") {
			e.ignored = append(e.ignored, svc)
			continue
		}
		for _, m := range info.Methods {
			e.methods = append(e.methods, methodInfo{Full: "/" + svc + "/" + m.Name, Service: svc, Name: m.Name,
				ClientStr: m.IsClientStream, ServerStr: m.IsServerStream})
		}
	}
	sort.Slice(e.methods, func(i, j int) bool { return e.methods[i].Full < e.methods[j].Full })
	return e, nil
}

func (e *env) stop() {
	if e.conn != nil {
		e.conn.Close()
	}
	if e.srv != nil {
		e.srv.GrpcServer.Stop()
		e.srv.CloseDatabases()
	}
}

func bg() context.Context { return context.Background() }

func sessCtx(id string) context.Context {
	return metadata.NewOutgoingContext(bg(), metadata.Pairs("sessionid", id))
}

func tokCtx(tok string) context.Context {
	return metadata.NewOutgoingContext(bg(), metadata.Pairs("authorization", "Bearer "+tok))
}

// sysadmin session bound to db (opened on demand, reopened when lost)
func (e *env) saCtx(db string) context.Context {
	if id, ok := e.sa[db]; ok && e.srv.SessManager.SessionPresent(id) {
		return sessCtx(id)
	}
	r, err := e.ic.OpenSession(bg(), &schema.OpenSessionRequest{Username: []byte(sysUser), Password: []byte(sysPw), DatabaseName: db})
	if err != nil {
		return sessCtx("none")
	}
	e.sa[db] = r.SessionID
	return sessCtx(r.SessionID)
}

func (e *env) dropSA(db string) {
	if id, ok := e.sa[db]; ok {
		e.srv.SessManager.DeleteSession(id)
		delete(e.sa, db)
	}
}

func (e *env) fresh(prefix string) string {
	e.seq++
	return fmt.Sprintf("%s%d", prefix, e.seq)
}

func (e *env) flip() bool { e.seq++; return e.seq%2 == 0 }

func (e *env) flipPerm() uint32 {
	if e.flip() {
		return 1
	}
	return 2
}

// setup creates databases, users and the planted data.
func (e *env) setup() error {
	sys := e.saCtx(defDBn)
	for _, db := range []string{"db1", "db2", "db3"} {
		if _, err := e.ic.CreateDatabaseV2(sys, &schema.CreateDatabaseRequest{Name: db, Settings: smallSettings()}); err != nil {
			return fmt.Errorf("create %s: %w", db, err)
		}
	}
	mk := func(ctx context.Context, user string, perm uint32, db string) error {
		_, err := e.ic.CreateUser(ctx, &schema.CreateUserRequest{User: []byte(user), Password: []byte(userPw), Permission: perm, Database: db})
		if err != nil {
			return fmt.Errorf("create user %s: %w", user, err)
		}
		return nil
	}
	if err := mk(sys, roleUser[roleNone], 2, "db3"); err != nil {
		return err
	}
	if err := mk(sys, roleUser[roleR], 1, "db1"); err != nil {
		return err
	}
	if err := mk(sys, roleUser[roleRW], 2, "db1"); err != nil {
		return err
	}
	if err := mk(sys, roleUser[roleAdmin], 254, "db1"); err != nil {
		return err
	}
	// victims are created by the db1 admin so that it is allowed to manage them
	ar, err := e.ic.OpenSession(bg(), &schema.OpenSessionRequest{Username: []byte(roleUser[roleAdmin]), Password: []byte(userPw), DatabaseName: "db1"})
	if err != nil {
		return fmt.Errorf("admin session: %w", err)
	}
	actx := sessCtx(ar.SessionID)
	if err := mk(actx, vicUser, 1, "db1"); err != nil {
		return err
	}
	if err := mk(actx, vic2User, 1, "db1"); err != nil {
		return err
	}
	e.ic.CloseSession(actx, &emptypb.Empty{})

	// users of the session-transaction flows: <role> on db1 and Admin on db3 (completed by resetXUser)
	for role, name := range xUser {
		if err := mk(sys, name, 254, "db3"); err != nil {
			return err
		}
		_ = role
	}

	for _, db := range dataDBs {
		if err := e.plant(db); err != nil {
			return fmt.Errorf("plant %s: %w", db, err)
		}
	}
	return nil
}

// plant writes the marker data set into db: the same keys / table / collection
// names in every database, values carrying the database's marker.
func (e *env) plant(db string) error {
	ctx := e.saCtx(db)
	m := marker(db)
	kvs := []*schema.KeyValue{}
	for i := 0; i < 4; i++ {
		kvs = append(kvs, &schema.KeyValue{Key: []byte(fmt.Sprintf("k%d", i)), Value: []byte(fmt.Sprintf("%sv%d", m, i))})
	}
	if _, err := e.ic.Set(ctx, &schema.SetRequest{KVs: kvs}); err != nil {
		return err
	}
	if _, err := e.ic.ZAdd(ctx, &schema.ZAddRequest{Set: []byte("zs"), Score: 1.5, Key: []byte("k0")}); err != nil {
		return err
	}
	if _, err := e.ic.SetReference(ctx, &schema.ReferenceRequest{Key: []byte("ref0"), ReferencedKey: []byte("k1")}); err != nil {
		return err
	}
	if _, err := e.ic.SQLExec(ctx, &schema.SQLExecRequest{Sql: fmt.Sprintf(
		"CREATE TABLE IF NOT EXISTS t(id INTEGER, name VARCHAR[64], PRIMARY KEY id); UPSERT INTO t(id, name) VALUES (1, '%srow');", m)}); err != nil {
		return err
	}
	if _, err := e.dc.CreateCollection(ctx, &protomodel.CreateCollectionRequest{Name: "c", DocumentIdFieldName: "_id",
		Fields: []*protomodel.Field{{Name: "name", Type: protomodel.FieldType_STRING}, {Name: "n", Type: protomodel.FieldType_INTEGER}},
		Indexes: []*protomodel.Index{{Fields: []string{"name"}}}}); err != nil {
		return err
	}
	doc, _ := structpb.NewStruct(map[string]any{"name": m + "doc", "n": 1})
	r, err := e.dc.InsertDocuments(ctx, &protomodel.InsertDocumentsRequest{CollectionName: "c", Documents: []*structpb.Struct{doc}})
	if err != nil {
		return err
	}
	if len(r.DocumentIds) > 0 {
		e.docID[db] = r.DocumentIds[0]
	}
	return nil
}

// baseline brings the shared server back to the state every case starts from (role users active, holding
// exactly their permission on their home database; data databases loaded) and verifies it; an error means the
// server must be replaced.
func (e *env) baseline() error {
	sys := e.saCtx(defDBn)
	want := map[string]map[string]uint32{
		roleUser[roleNone]:  {"db3": 2},
		roleUser[roleR]:     {"db1": 1},
		roleUser[roleRW]:    {"db1": 2},
		roleUser[roleAdmin]: {"db1": 254},
	}
	list, _ := e.internals()
	if list == nil {
		return fmt.Errorf("no database list")
	}
	for _, db := range []string{"db1", "db2", "db3"} {
		d, err := list.GetByName(db)
		if err != nil {
			return fmt.Errorf("database %s: %v", db, err)
		}
		if d.IsClosed() {
			if _, err := e.ic.LoadDatabase(sys, &schema.LoadDatabaseRequest{Database: db}); err != nil {
				return fmt.Errorf("load %s: %v", db, err)
			}
			e.dropSA(db)
		}
	}
	check := func(repair bool) error {
		ul, err := e.ic.ListUsers(sys, &emptypb.Empty{})
		if err != nil {
			return err
		}
		seen := map[string]bool{}
		for _, u := range ul.Users {
			name := string(u.User)
			if name == vic2User {
				e.vic2act = u.Active
			}
			w, ok := want[name]
			if !ok {
				continue
			}
			seen[name] = true
			if !u.Active {
				if !repair {
					return fmt.Errorf("user %s inactive", name)
				}
				e.ic.SetActiveUser(sys, &schema.SetActiveUserRequest{Username: name, Active: true})
			}
			have := map[string]uint32{}
			for _, p := range u.Permissions {
				have[p.Database] = p.Permission
			}
			for _, db := range dataDBs {
				if have[db] == w[db] {
					continue
				}
				if !repair {
					return fmt.Errorf("user %s holds %d on %s, expected %d", name, have[db], db, w[db])
				}
				if w[db] == 0 {
					e.ic.ChangePermission(sys, &schema.ChangePermissionRequest{Action: schema.PermissionAction_REVOKE, Username: name, Database: db, Permission: have[db]})
				} else {
					e.ic.ChangePermission(sys, &schema.ChangePermissionRequest{Action: schema.PermissionAction_GRANT, Username: name, Database: db, Permission: w[db]})
				}
			}
		}
		if len(seen) != len(want) {
			return fmt.Errorf("role users missing")
		}
		return nil
	}
	if err := check(true); err != nil {
		return err
	}
	return check(false)
}

// ---------------------------------------------------------------- digest

type dbDigest struct {
	Exists   bool
	Loaded   bool
	TxID     uint64
	Hash     string
	Settings string
}

type userDigest struct {
	Active bool
	Perms  map[string]uint32
	Privs  string
}

type digest struct {
	DBs   map[string]dbDigest
	Users map[string]userDigest
	Err   string
}

var knownDBs = []string{sysDBn, defDBn, "db1", "db2", "db3"}

// internal handles of the server (read-only use): the database list and the system database
func (e *env) internals() (database.DatabaseList, database.DB) {
	v := reflect.ValueOf(e.srv).Elem()
	get := func(name string) any {
		f := v.FieldByName(name)
		return reflect.NewAt(f.Type(), unsafe.Pointer(f.UnsafeAddr())).Elem().Interface()
	}
	l, _ := get("dbList").(database.DatabaseList)
	sdb, _ := get("sysDB").(database.DB)
	return l, sdb
}

func (e *env) digest() *digest {
	d := &digest{DBs: map[string]dbDigest{}, Users: map[string]userDigest{}}
	list, sdb := e.internals()
	if list == nil || sdb == nil {
		d.Err = "server internals (dbList, sysDB) not reachable"
		return d
	}
	state := func(db database.DB) dbDigest {
		dd := dbDigest{Exists: true, Loaded: !db.IsClosed()}
		if dd.Loaded {
			if st, err := db.CurrentState(); err != nil {
				dd.Hash = "err:" + err.Error()
			} else {
				dd.TxID, dd.Hash = st.TxId, string(st.TxHash)
			}
		}
		return dd
	}
	d.DBs[sysDBn] = state(sdb)
	for i := 0; i < list.Length(); i++ {
		db, err := list.GetByIndex(i)
		if err != nil {
			continue // deleted
		}
		d.DBs[db.GetName()] = state(db)
	}
	for _, db := range dataDBs {
		dd := d.DBs[db]
		if !dd.Exists || !dd.Loaded {
			continue
		}
		st, err := e.ic.GetDatabaseSettingsV2(e.saCtx(db), &schema.DatabaseSettingsRequest{})
		if err != nil {
			e.dropSA(db)
			st, err = e.ic.GetDatabaseSettingsV2(e.saCtx(db), &schema.DatabaseSettingsRequest{})
		}
		if err != nil {
			dd.Settings = "err:" + err.Error()
		} else {
			dd.Settings = prototext.MarshalOptions{}.Format(st.Settings)
		}
		d.DBs[db] = dd
	}
	sys := e.saCtx(defDBn)
	ul, err := e.ic.ListUsers(sys, &emptypb.Empty{})
	if err != nil {
		e.dropSA(defDBn)
		ul, err = e.ic.ListUsers(e.saCtx(defDBn), &emptypb.Empty{})
	}
	if err != nil {
		d.Err = "ListUsers: " + err.Error()
		return d
	}
	for _, u := range ul.Users {
		ud := userDigest{Active: u.Active, Perms: map[string]uint32{}}
		for _, p := range u.Permissions {
			ud.Perms[p.Database] = p.Permission
		}
		pr := []string{}
		for _, p := range u.SqlPrivileges {
			pr = append(pr, p.Database+":"+p.Privilege)
		}
		sort.Strings(pr)
		ud.Privs = strings.Join(pr, ",")
		d.Users[string(u.User)] = ud
	}
	return d
}

// change is one observed difference between two digests.
type change struct {
	Kind string // data | settings | loaded | dblist | userperm | useractive | userprivs | userlist
	DB   string // database concerned ("" when none)
	What string
}

func diffDigests(a, b *digest) []change {
	var out []change
	names := map[string]bool{}
	for n := range a.DBs {
		names[n] = true
	}
	for n := range b.DBs {
		names[n] = true
	}
	sorted := make([]string, 0, len(names))
	for n := range names {
		sorted = append(sorted, n)
	}
	sort.Strings(sorted)
	for _, n := range sorted {
		x, y := a.DBs[n], b.DBs[n]
		switch {
		case x.Exists != y.Exists:
			out = append(out, change{"dblist", n, fmt.Sprintf("exists %v -> %v", x.Exists, y.Exists)})
			continue
		case x.Loaded != y.Loaded:
			out = append(out, change{"loaded", n, fmt.Sprintf("loaded %v -> %v", x.Loaded, y.Loaded)})
			continue
		}
		if x.TxID != y.TxID || x.Hash != y.Hash {
			out = append(out, change{"data", n, fmt.Sprintf("tx %d -> %d", x.TxID, y.TxID)})
		}
		if x.Settings != y.Settings {
			out = append(out, change{"settings", n, "settings changed"})
		}
	}
	unames := map[string]bool{}
	for n := range a.Users {
		unames[n] = true
	}
	for n := range b.Users {
		unames[n] = true
	}
	us := make([]string, 0, len(unames))
	for n := range unames {
		us = append(us, n)
	}
	sort.Strings(us)
	for _, n := range us {
		x, okx := a.Users[n]
		y, oky := b.Users[n]
		if okx != oky {
			dbs := y.Perms
			if !oky {
				dbs = x.Perms
			}
			if len(dbs) == 0 {
				out = append(out, change{"userlist", "", "user " + n + " added/removed"})
			}
			for db := range dbs {
				out = append(out, change{"userlist", db, "user " + n + " added/removed with permission on " + db})
			}
			continue
		}
		if x.Active != y.Active {
			out = append(out, change{"useractive", "", fmt.Sprintf("user %s active %v -> %v", n, x.Active, y.Active)})
		}
		dbs := map[string]bool{}
		for db := range x.Perms {
			dbs[db] = true
		}
		for db := range y.Perms {
			dbs[db] = true
		}
		for db := range dbs {
			if x.Perms[db] != y.Perms[db] {
				out = append(out, change{"userperm", db, fmt.Sprintf("user %s permission on %s %d -> %d", n, db, x.Perms[db], y.Perms[db])})
			}
		}
		if x.Privs != y.Privs {
			out = append(out, change{"userprivs", "", fmt.Sprintf("user %s sql privileges %q -> %q", n, x.Privs, y.Privs)})
		}
	}
	return out
}
