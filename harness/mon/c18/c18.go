// Package c18: monitor for property C18 (see DESIGN.md section 2).
//
// Access control: every RPC served by the gRPC server (method list taken at run
// time from grpc.Server.GetServiceInfo) is called for every role x database
// selection x session state; around every call a digest of every database and
// of the user table is taken with a sysadmin handle and the oracle decides from
// the observed status and the observed state change.
package c18

import (
	"bytes"
	"encoding/json"
	"fmt"
	"os"
	"path/filepath"
	"runtime/pprof"
	"sort"
	"strings"
	"time"

	"github.com/codenotary/immudb/pkg/api/schema"
	"google.golang.org/grpc/status"
	"google.golang.org/protobuf/types/known/emptypb"

	"verifharness/internal/fw"
)

func init() {
	fw.RegisterMonitor("C18", "exploration", Run)
	fw.RegisterIsolated("c18-case", runCase)
}

type caseSpec struct {
	Role    int    `json:"role"`
	Sel     string `json:"sel"`   // own | other | system | none
	State   string `json:"state"` // see states
	Content int64  `json:"content_seed"`
	Mode    string `json:"mode,omitempty"` // "" matrix | "concurrent"
	Only    string `json:"only,omitempty"` // debugging: substring of the method name
}

var sels = []string{"own", "other", "system", "none"}

// the six session states of the matrix
var states = []string{"nocreds", "token", "session", "expired", "deactivated", "permchanged"}

// extra refused states (own database only): the same invalidations with session
// authentication, and with the user logged in twice before the invalidation
var extraStates = []string{"deactivated-session", "permchanged-session", "deactivated-2logins", "permchanged-2logins"}

// regrantStates: every transition old permission -> new permission made by GRANT after login (GRANT replaces
// the permission held on that database, so it is also how a permission is lowered). Downgrades are run with a
// token, a session, two logins, and through SQL ALTER USER; upgrades with a token and a session.
func regrantStates(role int) []string {
	old := role // levels are numbered like the roles R, RW, Admin
	if role == roleNone {
		old = pRW // on its home database db3
	}
	var out []string
	for lvl, name := range map[int]string{pR: "R", pRW: "RW", pAdmin: "Admin"} {
		switch {
		case lvl < old:
			for _, v := range []string{"", "-session", "-2logins", "-alteruser"} {
				out = append(out, "regrant-"+name+v)
			}
		case lvl > old:
			for _, v := range []string{"", "-session"} {
				out = append(out, "regrant-"+name+v)
			}
		}
	}
	sort.Strings(out)
	return out
}

func Run(c *fw.Ctx) {
	c.Rule = "every RPC served (list from the gRPC server at run time) x role {none,R,RW,Admin,SysAdmin on db1} x database selection " +
		"{own db1, other db2, systemdb, none} x session state {no credentials, token, session, session removed, user deactivated, permission revoked after login}; " +
		"digest (CurrentState id+hash, settings, loaded flag of every database; user table) before/after every call: a database changes only if the caller holds >= RW on it " +
		"(settings/users: admin), systemdb contents change only through user/database administration, refused sessions are not served and change nothing, " +
		"responses carry no planted marker / state hash of a database the caller cannot read; distinct = (class, role, selection, state, outcome) of cells whose builder succeeded for the permitted role"
	c.Assume("the digest is taken through sysadmin sessions of the same server (CurrentState, DatabaseListV2, ListUsers)")
	c.Assume("classes (write/read/admin/session/open/public/filtered) are assigned in the harness from the meaning of each RPC, not from pkg/auth")
	c.Assume("an expired session is a session removed through sessions.Manager.DeleteSession (no clock)")

	var cases [][]byte
	add := func(cs caseSpec) {
		b, _ := json.Marshal(cs)
		cases = append(cases, b)
	}
	if c.ReplayPath != "" {
		if b, err := os.ReadFile(filepath.Join(c.ReplayPath, "case.json")); err == nil {
			cases = append(cases, b)
		}
	}
	if len(cases) == 0 {
		only := os.Getenv("VERIF_C18_ONLY")
		seeds := []int64{c.Seed}
		if c.Thorough() {
			seeds = append(seeds, c.Seed+1000, c.Seed+2000)
		}
		for _, cseed := range seeds {
			for role := roleNone; role <= roleSys; role++ {
				for _, sel := range sels {
					for _, st := range states {
						if role == roleSys && (st == "deactivated" || st == "permchanged") {
							continue // the sysadmin can be neither deactivated nor re-permissioned
						}
						add(caseSpec{Role: role, Sel: sel, State: st, Content: cseed, Only: only})
					}
				}
				if role != roleSys {
					for _, st := range extraStates {
						add(caseSpec{Role: role, Sel: "own", State: st, Content: cseed, Only: only})
					}
					for _, st := range regrantStates(role) {
						add(caseSpec{Role: role, Sel: "own", State: st, Content: cseed, Only: only})
					}
				}
			}
		}
		for role := roleNone; role <= roleAdmin; role++ {
			add(caseSpec{Role: role, Sel: "own", State: "session", Content: c.Seed, Mode: "txflow", Only: only})
		}
		add(caseSpec{Role: roleAdmin, Sel: "own", State: "session", Content: c.Seed, Mode: "openstream", Only: only})
		if c.Thorough() {
			for role := roleR; role <= roleAdmin; role++ {
				for i := 0; i < 3; i++ {
					add(caseSpec{Role: role, Sel: "own", State: "token", Content: c.Seed + int64(i), Mode: "concurrent"})
				}
			}
		}
		if f := os.Getenv("VERIF_C18_CASES"); f != "" { // debugging: "role/sel/state" substrings, comma separated
			var kept [][]byte
			for _, b := range cases {
				var cs caseSpec
				json.Unmarshal(b, &cs)
				key := fmt.Sprintf("%s/%s/%s/%s", roleNames[cs.Role], cs.Sel, cs.State, cs.Mode)
				for _, want := range strings.Split(f, ",") {
					if strings.Contains(key, want) {
						kept = append(kept, b)
						break
					}
				}
			}
			cases = kept
		}
	}
	c.Set("cases", len(cases))
	c.RunIsolated("c18-case", cases, fw.CasesOpts{Workers: 14, CaseTimout: 10 * time.Minute})
}

// ------------------------------------------------------------------ one case

// builders validated by the permitted-role pass of this (child) process
var procValid map[string]bool

// server shared by the cases of this (child) process
var (
	procEnv  *env
	procEnvN int
)

type caseRun struct {
	c      *fw.Ctx
	cs     caseSpec
	e      *env
	specs  map[string]*spec
	valid  map[string]bool      // builder shown to succeed for the permitted role on this server
	served map[string]map[string][]string // refused state -> method -> what was observed (served / changed / leaked)
	trace  []map[string]any     // last cells (witness)
	sigs   map[string]bool
	cur    *held // credential shared by consecutive cells of the same (role, selection, state)
}

// held is an established (and, per state, invalidated) credential.
type held struct {
	key     string
	x       *cx // carries role / user / state / cred / logins of the establishment
	steps    []string
	revoked  bool
	newLevel int // >= 0: permission on the home database re-GRANTed after login
	dirty    bool
}

func (r *caseRun) hold(x *cx) *held {
	key := fmt.Sprintf("%d/%s/%s", x.role, x.sel, x.state)
	if r.cur != nil && (r.cur.key != key || r.cur.dirty) {
		r.release(r.cur.x)
		r.cur = nil
	}
	if r.cur == nil {
		hx := &cx{e: r.e, role: x.role, user: x.user, sel: x.sel, state: x.state}
		steps, revoked, newLevel := r.establish(hx)
		r.cur = &held{key: key, x: hx, steps: steps, revoked: revoked, newLevel: newLevel}
	}
	x.cred = r.cur.x.cred
	return r.cur
}

func (r *caseRun) dropHeld() {
	if r.cur != nil {
		r.release(r.cur.x)
		r.cur = nil
	}
}

func runCase(c *fw.Ctx, data []byte) {
	var cs caseSpec
	if err := json.Unmarshal(data, &cs); err != nil {
		c.Inconclusive("bad case: " + err.Error())
		return
	}
	if pf := os.Getenv("VERIF_C18_PROF"); pf != "" {
		f, _ := os.Create(pf)
		pprof.StartCPUProfile(f)
		defer pprof.StopCPUProfile()
	}
	// one server per child process, shared by its cases (starting one costs seconds of CPU: systemdb and
	// defaultdb are opened with the default, large, store options); every case starts from a verified baseline
	e := procEnv
	if e != nil && cs.Mode != "concurrent" {
		if err := e.baseline(); err != nil {
			c.Note("shared server replaced: " + err.Error())
			e.stop()
			e, procEnv = nil, nil
		}
	}
	if e == nil || cs.Mode == "concurrent" {
		procEnvN++
		dir := filepath.Join(filepath.Dir(c.Scratch()), fmt.Sprintf("srv%d", procEnvN))
		os.RemoveAll(dir) // a child that died (known fatal map race) may have left a half-written server there
		os.MkdirAll(dir, 0o755)
		var err error
		e, err = startEnv(dir)
		if err != nil {
			c.Inconclusive("server start: " + err.Error())
			return
		}
		if err := e.setup(); err != nil {
			e.stop()
			c.Inconclusive("server setup: " + err.Error())
			return
		}
		c.Count("servers_started", 1)
		if cs.Mode == "concurrent" {
			defer func() { e.stop(); os.RemoveAll(dir) }()
		} else {
			procEnv = e
		}
	}
	r := &caseRun{c: c, cs: cs, e: e, specs: buildSpecs(), valid: map[string]bool{}, served: map[string]map[string][]string{}, sigs: map[string]bool{}}
	if cs.Mode == "concurrent" {
		r.concurrent(data)
		return
	}
	if cs.Mode == "txflow" {
		r.txflows(data)
		return
	}
	if cs.Mode == "openstream" {
		r.openStreams(data)
		return
	}

	methods := append([]methodInfo(nil), e.methods...)
	sort.SliceStable(methods, func(i, j int) bool {
		li, lj := 0, 0
		if s := r.specs[methods[i].Full]; s != nil {
			li = s.late
		}
		if s := r.specs[methods[j].Full]; s != nil {
			lj = s.late
		}
		return li < lj
	})
	if cs.Only != "" {
		var kept []methodInfo
		for _, mi := range methods {
			if strings.Contains(mi.Full, cs.Only) {
				kept = append(kept, mi)
			}
		}
		methods = kept
	}

	uncovered := []string{}
	for _, mi := range e.methods {
		if r.specs[mi.Full] == nil {
			uncovered = append(uncovered, mi.Full)
		}
	}
	stale := []string{}
	served := map[string]bool{}
	for _, mi := range e.methods {
		served[mi.Full] = true
	}
	for full := range r.specs {
		if !served[full] {
			stale = append(stale, full)
		}
	}
	sort.Strings(stale)
	c.Set("methods_discovered", len(e.methods))
	c.Set("methods_with_builder", len(e.methods)-len(uncovered))
	c.Set("uncovered_methods", uncovered)
	c.Set("builders_without_served_method", stale)
	c.Set("ignored_services", e.ignored)

	// 1. permitted role: every builder must succeed for the role that is meant to be allowed.
	// Done on the first server of every child process (about one case in ten); the later cases of
	// the same process reuse the result (same binary, same builders, identically built server).
	if procValid != nil && cs.Only == "" {
		r.valid = procValid
	}
	notValidated := map[string]any{}
	type vcell struct {
		mi methodInfo
		st string
	}
	var vcells []vcell
	for i, mi := range methods {
		sp := r.specs[mi.Full]
		if sp == nil || sp.okRole < 0 {
			continue
		}
		st := "token"
		if sp.needSess || (i%2 == 1 && !sp.needTok) {
			st = "session"
		}
		vcells = append(vcells, vcell{mi, st})
	}
	sort.SliceStable(vcells, func(i, j int) bool { // keeps the late ones last, groups equal credentials
		a, b := r.specs[vcells[i].mi.Full], r.specs[vcells[j].mi.Full]
		if a.late != b.late {
			return a.late < b.late
		}
		if a.okRole != b.okRole {
			return a.okRole < b.okRole
		}
		return vcells[i].st < vcells[j].st
	})
	if procValid != nil && cs.Only == "" {
		vcells = nil
	}
	for _, vc := range vcells {
		mi, st := vc.mi, vc.st
		sp := r.specs[mi.Full]
		ok := r.cell(mi, sp, sp.okRole, "own", st, true)
		r.valid[mi.Full] = ok
		if ok {
			c.Count("permitted_success", 1)
		} else {
			notValidated[shortName(mi.Full)] = 1.0
		}
	}
	if len(notValidated) > 0 {
		c.Set("permitted_role_failed", notValidated)
	}
	if procValid == nil && cs.Only == "" {
		procValid = r.valid
	}

	// 2. the row of the matrix. A refused session is turned away before the handler looks at the selected
	// database: with the own database every method is called; with the other selections the methods whose
	// request names a database (it follows the selection), the first two unary and the first two streaming
	// methods of every class, and the methods without a builder.
	if refusedState(cs.State) && cs.Sel != "own" && cs.Only == "" {
		var kept []methodInfo
		n := map[string]int{}
		for _, mi := range methods {
			sp := r.specs[mi.Full]
			if sp == nil || sp.explicit {
				kept = append(kept, mi)
				continue
			}
			k := fmt.Sprintf("%s/%v", sp.class, mi.ClientStr || mi.ServerStr)
			if n[k] < 2 {
				n[k]++
				kept = append(kept, mi)
			}
		}
		c.Count("cells_skipped_refused_other_selection", int64(len(methods)-len(kept)))
		methods = kept
	}
	for _, mi := range methods {
		r.cell(mi, r.specs[mi.Full], cs.Role, cs.Sel, cs.State, false)
	}
	r.dropHeld()

	// refused sessions that were served: one signature per method, or one per state when the
	// whole session layer let the state through
	for st, byMethod := range r.served {
		ms := make([]string, 0, len(byMethod))
		for m := range byMethod {
			ms = append(ms, m)
		}
		sort.Strings(ms)
		if strings.HasPrefix(st, "regrant-") {
			// served beyond the permission GRANTed after login (judged by the new permission)
			old := roleNames[cs.Role]
			if cs.Role == roleNone {
				old = "homeRW"
			}
			trans := old + "-to-" + strings.TrimPrefix(st, "regrant-")
			oldLvl := cs.Role
			if cs.Role == roleNone {
				oldLvl = pRW
			}
			label := "upgrade-by-grant"
			if nl, _ := regrantLevel(st); nl < oldLvl {
				label = "downgrade-by-grant"
			}
			if strings.HasSuffix(st, "-alteruser") {
				label = strings.Replace(label, "by-grant", "by-alter-user", 1)
			}
			parts := []string{}
			for _, m := range ms {
				parts = append(parts, m+"("+strings.Join(dedup(byMethod[m]), ",")+")")
			}
			sig := "stale-permission-served/" + label + "/*"
			if len(ms) <= 6 {
				sig = "stale-permission-served/" + label + "/" + strings.Join(ms, "+")
			}
			r.violate(sig, fmt.Sprintf("user %s logged in, then the sysadmin GRANTed it the lower permission (%s): through the login made before the change %d methods still acted beyond the new permission: %s",
				roleUser[cs.Role], trans, len(ms), strings.Join(parts, " ")), data)
			continue
		}
		if len(ms) > 6 {
			parts := []string{}
			for _, m := range ms {
				parts = append(parts, m+"("+strings.Join(dedup(byMethod[m]), ",")+")")
			}
			r.violate("refused-session-served/"+st+"/*", fmt.Sprintf("role %s, selection %s: %d methods were served for a %s session: %s",
				roleNames[cs.Role], cs.Sel, len(ms), st, strings.Join(parts, " ")), data)
			continue
		}
		for _, m := range ms {
			r.violate("refused-session-served/"+st+"/"+m, fmt.Sprintf("role %s, selection %s: %s for a %s session: %s",
				roleNames[cs.Role], cs.Sel, m, st, strings.Join(dedup(byMethod[m]), ", ")), data)
		}
	}
}

func dedup(in []string) []string {
	seen := map[string]bool{}
	var out []string
	for _, s := range in {
		if !seen[s] {
			seen[s] = true
			out = append(out, s)
		}
	}
	return out
}

func (r *caseRun) noteRefused(state, method, what string) {
	if r.served[state] == nil {
		r.served[state] = map[string][]string{}
	}
	r.served[state][method] = append(r.served[state][method], what)
}

func shortName(full string) string {
	p := strings.Split(strings.TrimPrefix(full, "/"), "/")
	if len(p) != 2 {
		return full
	}
	svc := p[0][strings.LastIndex(p[0], ".")+1:]
	if svc == "ImmuService" {
		return p[1]
	}
	return svc + "." + p[1]
}

func (r *caseRun) violate(sig, detail string, caseData []byte) {
	if r.sigs[sig] {
		r.c.Count("violating_cells", 1)
		return
	}
	r.sigs[sig] = true
	tr, _ := json.MarshalIndent(r.trace, "", " ")
	r.c.Violation(sig, detail, map[string][]byte{"case.json": caseData, "trace.json": tr})
}

func homeOf(role int) string {
	switch role {
	case roleNone:
		return "db3"
	case roleSys:
		return defDBn
	}
	return "db1"
}

func selDB(sel string) string {
	switch sel {
	case "own":
		return "db1"
	case "other":
		return "db2"
	case "system":
		return sysDBn
	}
	return ""
}

func refusedState(st string) bool {
	return st != "token" && st != "session" && !strings.HasPrefix(st, "regrant-")
}

// regrantLevel parses a state "regrant-<R|RW|Admin>[-session|-2logins|-alteruser]": after login the sysadmin
// GRANTs that permission on the user's home database, which REPLACES the one held at login (this is how a
// permission is lowered). Calls through the old login are judged by the NEW permission.
func regrantLevel(st string) (int, bool) {
	if !strings.HasPrefix(st, "regrant-") {
		return 0, false
	}
	f := strings.Split(strings.TrimPrefix(st, "regrant-"), "-")
	switch f[0] {
	case "R":
		return pR, true
	case "RW":
		return pRW, true
	case "Admin":
		return pAdmin, true
	}
	return 0, false
}

func permissionCode(level int) uint32 {
	switch level {
	case pR:
		return 1
	case pRW:
		return 2
	}
	return 254
}

// permission of the cell's user on db, from the harness's own bookkeeping
func permOf(role int, revoked bool, db string) int {
	if role == roleSys {
		return pSys
	}
	if revoked {
		return pNone
	}
	switch {
	case db == "db1":
		return []int{pNone, pR, pRW, pAdmin}[role]
	case db == "db3" && role == roleNone:
		return pRW
	}
	return pNone
}

func origPermission(role int) uint32 {
	switch role {
	case roleNone, roleRW:
		return 2
	case roleR:
		return 1
	}
	return 254
}

// establish logs the cell's user in, selects the database and then invalidates the credential as the state says.
func (r *caseRun) establish(x *cx) (steps []string, revoked bool, newLevel int) {
	newLevel = -1
	e := r.e
	note := func(s string, err error) {
		if err != nil {
			steps = append(steps, s+": "+status.Code(err).String()+" "+trunc(err.Error(), 80))
		} else {
			steps = append(steps, s+": ok")
		}
	}
	st := x.state
	useSession := st == "session" || st == "expired" || strings.HasSuffix(st, "-session")
	home, want := homeOf(x.role), selDB(x.sel)
	pw := pwOf(x.role)
	switch {
	case st == "nocreds":
		x.cred = cred{kind: "none"}
		return
	case useSession:
		rs, err := e.ic.OpenSession(bg(), &schema.OpenSessionRequest{Username: []byte(x.user), Password: []byte(pw), DatabaseName: home})
		note("OpenSession("+home+")", err)
		if err != nil {
			x.cred = cred{kind: "none"}
			return
		}
		x.cred = cred{kind: "session", sessID: rs.SessionID, ok: true}
		if want != "" && want != home {
			_, err := e.ic.UseDatabase(x.ctx(), &schema.Database{DatabaseName: want})
			note("UseDatabase("+want+")", err)
		}
	default:
		n := 1
		if strings.HasSuffix(st, "-2logins") {
			n = 2
		}
		for i := 0; i < n; i++ {
			rl, err := e.ic.Login(bg(), &schema.LoginRequest{User: []byte(x.user), Password: []byte(pw)})
			note("Login", err)
			if err != nil {
				x.cred = cred{kind: "none"}
				return
			}
			if i == 1 {
				x.logins = append(x.logins, rl.Token) // the second login is only logged out at the end
				break
			}
			x.cred = cred{kind: "token", token: rl.Token, ok: true}
		}
		if want != "" {
			for _, db := range []string{home, want} {
				ru, err := e.ic.UseDatabase(x.ctx(), &schema.Database{DatabaseName: db})
				note("UseDatabase("+db+")", err)
				if err == nil {
					x.cred.token = ru.Token
				}
				if home == want {
					break
				}
			}
		}
	}
	sys := e.saCtx(defDBn)
	switch {
	case st == "expired":
		note("sessions.Manager.DeleteSession", e.srv.SessManager.DeleteSession(x.cred.sessID))
	case strings.HasPrefix(st, "deactivated"):
		_, err := e.ic.SetActiveUser(sys, &schema.SetActiveUserRequest{Username: x.user, Active: false})
		note("sysadmin SetActiveUser(false)", err)
	case strings.HasPrefix(st, "permchanged"):
		_, err := e.ic.ChangePermission(sys, &schema.ChangePermissionRequest{Action: schema.PermissionAction_REVOKE, Username: x.user, Database: home, Permission: origPermission(x.role)})
		note("sysadmin ChangePermission(REVOKE "+home+")", err)
		revoked = err == nil
	case strings.HasPrefix(st, "regrant-"):
		lvl, _ := regrantLevel(st)
		var err error
		if strings.HasSuffix(st, "-alteruser") {
			word := map[int]string{pR: "READ", pRW: "READWRITE", pAdmin: "ADMIN"}[lvl]
			_, err = e.ic.SQLExec(e.saCtx(home), &schema.SQLExecRequest{Sql: fmt.Sprintf("ALTER USER %s WITH PASSWORD '%s' %s;", x.user, pw, word)})
			note("sysadmin SQL ALTER USER ... "+word+" on "+home, err)
		} else {
			_, err = e.ic.ChangePermission(sys, &schema.ChangePermissionRequest{Action: schema.PermissionAction_GRANT, Username: x.user, Database: home, Permission: permissionCode(lvl)})
			note(fmt.Sprintf("sysadmin ChangePermission(GRANT %d on %s)", permissionCode(lvl), home), err)
		}
		if err == nil {
			newLevel = lvl
		}
	}
	return
}

func (r *caseRun) release(x *cx) {
	e := r.e
	for _, id := range x.opened {
		e.ic.CloseSession(sessCtx(id), &emptypb.Empty{})
	}
	switch x.cred.kind {
	case "token":
		e.ic.Logout(tokCtx(x.cred.token), &emptypb.Empty{})
	case "session":
		e.ic.CloseSession(sessCtx(x.cred.sessID), &emptypb.Empty{})
	}
	for _, t := range x.logins {
		e.ic.Logout(tokCtx(t), &emptypb.Empty{})
	}
	sys := e.saCtx(defDBn)
	switch {
	case strings.HasPrefix(x.state, "deactivated"):
		e.ic.SetActiveUser(sys, &schema.SetActiveUserRequest{Username: x.user, Active: true})
	case strings.HasPrefix(x.state, "permchanged"), strings.HasPrefix(x.state, "regrant-"):
		e.ic.ChangePermission(sys, &schema.ChangePermissionRequest{Action: schema.PermissionAction_GRANT, Username: x.user, Database: homeOf(x.role), Permission: origPermission(x.role)})
	}
}

func trunc(s string, n int) string {
	if len(s) > n {
		return s[:n] + "..."
	}
	return s
}

// cell runs one call under test and applies the oracle. It returns whether the call succeeded.
func (r *caseRun) cell(mi methodInfo, sp *spec, role int, sel, state string, permitted bool) bool {
	e, c := r.e, r.c
	name := shortName(mi.Full)
	x := &cx{e: e, role: role, user: roleUser[role], sel: sel, state: state,
		rnd: fw.NewRand(r.cs.Content, fmt.Sprintf("c18/%s/%d/%s/%s", mi.Full, role, sel, state))}
	x.target = selDB(sel)
	if x.target == "" {
		x.target = "db1"
	}
	class := clUnknown
	if sp != nil {
		class = sp.class
		if sp.prep != nil {
			if sp.userPrep {
				r.dropHeld() // the prep changes the user's permissions, which ends its logins
			}
			sp.prep(x)
		}
	}
	t0 := time.Now()
	h := r.hold(x)
	steps, revoked := h.steps, h.revoked
	t1 := time.Now()
	d0 := e.digest()
	t2 := time.Now()
	var err error
	if sp != nil {
		err = sp.run(x)
	} else {
		err = x.zeroCall(mi)
	}
	t3 := time.Now()
	d1 := e.digest()
	changes := diffDigests(d0, d1)
	if dbg := os.Getenv("VERIF_C18_DEBUG"); dbg != "" {
		f, _ := os.OpenFile(dbg, os.O_CREATE|os.O_APPEND|os.O_WRONLY, 0o644)
		defer f.Close()
		fmt.Fprintf(f, "%-40s %-8s %-6s %-12s establish=%v digest=%v run=%v err=%v changes=%v steps=%v\n", shortName(mi.Full), roleNames[role], sel, state, t1.Sub(t0), t2.Sub(t1), t3.Sub(t2), err, changes, steps)
	}
	x.txid = ""
	// sessions / logins opened by the call itself
	for _, id := range x.opened {
		e.ic.CloseSession(sessCtx(id), &emptypb.Empty{})
	}
	for _, t := range x.logins {
		e.ic.Logout(tokCtx(t), &emptypb.Empty{})
	}
	// the credential is re-established when the call may have disturbed it
	switch {
	case refusedState(state):
		h.dirty = err == nil && class != clPublic
	default:
		h.dirty = sp == nil || sp.needSess || class == clSession || class == clOpen || class == clAdmin || !x.cred.ok
	}
	if sp != nil && sp.cleanup != nil {
		r.dropHeld() // cleanups may unload / restore databases the credential is bound to
	}
	if sp != nil && sp.cleanup != nil {
		sp.cleanup(x)
	}
	if d0.Err != "" || d1.Err != "" {
		c.Inconclusive(fmt.Sprintf("%s: digest unavailable: %s %s", name, d0.Err, d1.Err))
		return err == nil
	}
	c.Eval(1)
	c.Count("cells", 1)

	outcome := "allowed"
	if err != nil {
		outcome = "denied:" + status.Code(err).String()
	}
	chs := []string{}
	for _, ch := range changes {
		chs = append(chs, ch.Kind+":"+ch.DB)
	}
	rec := map[string]any{"method": name, "class": class, "role": roleNames[role], "selection": sel, "state": state, "permitted_pass": permitted,
		"setup": steps, "outcome": outcome, "changes": changes}
	if err != nil {
		rec["error"] = trunc(err.Error(), 200)
	}
	r.trace = append(r.trace, rec)
	if len(r.trace) > 12 {
		r.trace = r.trace[len(r.trace)-12:]
	}
	caseData, _ := json.Marshal(r.cs)
	where := fmt.Sprintf("%s by role %s (user %s), selection %s, state %s [%s]: %s", name, roleNames[role], x.user, sel, state, strings.Join(steps, "; "), outcome)
	if err != nil {
		where += " (" + trunc(err.Error(), 120) + ")"
	}

	refused := refusedState(state) || !x.cred.ok
	stName := state
	if !refusedState(state) && !x.cred.ok {
		stName = "login-refused"
	}
	// a permission re-GRANTed after login: the calls made through the old login are judged by the NEW permission
	newLevel := h.newLevel
	regranted := newLevel >= 0 && !refused
	jrole := role
	if regranted && role >= roleR && role <= roleAdmin {
		jrole = newLevel // levels R, RW, Admin are numbered like the roles
	}
	perm := func(db string) int {
		if regranted && db == homeOf(role) {
			return newLevel
		}
		if p, ok := x.extraPerm[db]; ok && !revoked {
			return p
		}
		return permOf(role, revoked, db)
	}
	// in a re-granted state one defect of the login layer shows on many methods: aggregated per case like the refused states
	viol := func(sig, detail, short string) {
		if regranted {
			r.noteRefused(state, name, short)
			return
		}
		r.violate(sig, detail, caseData)
	}

	// ---- rule 1: observed state changes
	for _, ch := range changes {
		desc := fmt.Sprintf("%s -> %s %s (%s)", where, ch.Kind, ch.DB, ch.What)
		if refused {
			r.noteRefused(stName, name, "changed "+ch.Kind+" of "+ch.DB)
			continue
		}
		if ch.Kind == "data" && ch.DB == sysDBn && class != clAdmin {
			// contents of the system database changed through something that is not user / database administration
			r.violate("systemdb-written/"+name, desc, caseData)
			continue
		}
		okc := false
		switch ch.Kind {
		case "data":
			if ch.DB == sysDBn {
				okc = jrole >= roleAdmin // user table / database catalogue
			} else {
				okc = perm(ch.DB) >= pRW
			}
		case "settings", "loaded":
			okc = perm(ch.DB) >= pAdmin
		case "dblist":
			okc = jrole >= roleAdmin
		case "userperm", "userlist":
			okc = jrole == roleSys || (ch.DB != "" && perm(ch.DB) >= pAdmin) || (ch.DB == "" && jrole >= roleAdmin)
		case "useractive", "userprivs":
			okc = jrole >= roleAdmin
		}
		if !okc {
			viol(fmt.Sprintf("unauthorized-change/%s/%s-%s", name, roleNames[role], ch.Kind), desc, "changed "+ch.Kind+" of "+ch.DB)
		}
	}

	// ---- rule 2: refused sessions are not served
	if refused && err == nil {
		mustFail := class != clPublic && class != clOpen && class != clUnknown
		if class == clOpen && strings.HasPrefix(state, "deactivated") {
			mustFail = true // the request carries the credentials of the deactivated user
		}
		if mustFail {
			r.noteRefused(stName, name, "served")
		}
	}

	// ---- rule 3: by class, valid sessions
	if !refused && err == nil {
		if class == clAdmin && jrole < roleAdmin {
			viol(fmt.Sprintf("unauthorized-admin/%s/%s", name, roleNames[role]), where, "admin operation served")
		}
	}
	if err == nil && sp != nil && sp.explicit && (class == clOpen || !refused) {
		// the request names a database: succeeding needs the level on THAT database (current permissions)
		if perm(x.target) < sp.level {
			viol(fmt.Sprintf("unauthorized-%s/%s/%s-on-%s", class, name, roleNames[role], sel), where+" on "+x.target, "served on "+x.target)
		}
	}
	if err == nil && class != clPublic && class != clFiltered {
		all := bytes.Join(x.resp, []byte{0})
		for _, db := range knownDBs {
			p := perm(db)
			if refused {
				p = pNone
			}
			if p >= pR {
				continue
			}
			leak := ""
			if db != sysDBn && bytes.Contains(all, []byte(marker(db))) {
				leak = "planted marker " + marker(db)
			} else if h := d0.DBs[db].Hash; len(h) == 32 && d0.DBs[db].TxID > 0 && bytes.Contains(all, []byte(h)) {
				leak = "current state hash of " + db
			} else if db == sysDBn && bytes.Contains(all, []byte(vicUser)) {
				leak = "user record " + vicUser
			}
			if leak != "" && refused {
				r.noteRefused(stName, name, "returned "+leak)
			} else if leak != "" {
				viol(fmt.Sprintf("unauthorized-read/%s/%s-%s", name, roleNames[role], sel), where+": response carries "+leak, "returned "+leak)
			}
		}
	}

	// ---- evidence
	oc := outcome
	if len(changes) > 0 {
		oc += "+state-changed"
	}
	fp := fmt.Sprintf("%s|%s|%s|%s|%s", class, roleNames[role], sel, state, oc)
	if permitted {
		c.Count("cells_permitted_pass", 1)
	}
	if sp != nil && (permitted && err == nil || !permitted && r.valid[mi.Full]) {
		c.Distinct(fp)
		c.Count("cells_nontrivial", 1)
	} else {
		c.Count("cells_trivial", 1)
	}
	if err == nil {
		c.Count("calls_allowed", 1)
	} else {
		c.Count("calls_denied", 1)
	}
	if len(changes) > 0 {
		c.Count("calls_changing_state", 1)
	}
	if !permitted && (name == "Set" || name == "DocumentService.InsertDocuments" || name == "ChangePermission") {
		c.Sample(map[string]any{"method": name, "role": roleNames[role], "selection": sel, "state": state, "setup": steps, "outcome": outcome, "changes": chs})
	}
	return err == nil
}
