// Package c18: monitor for property C18 (see DESIGN.md section 2).
package c18
