package c18

import (
	"bytes"
	"fmt"
	"os"
	"strings"

	"github.com/codenotary/immudb/pkg/api/schema"
	"google.golang.org/grpc/status"
	"google.golang.org/protobuf/types/known/emptypb"

	"verifharness/internal/fw"
)

// Session SQL transactions (mode "txflow").
//
// NewTx / TxSQLExec / TxSQLQuery / Commit do not pass through getDBFromCtx: the transaction stays bound to the
// database the session had selected at NewTx, while the SQL engine asks the server for the caller's permission
// on the database the session has selected NOW. The flows below move the session (UseDatabase, SQL USE) or the
// user's permission (REVOKE, GRANT of a lower one) between the steps of one transaction.
//
// Users: x<role> holds <role> on db1 (database A) and Admin on db3 (database B, "another database with higher
// rights"). Oracle (class independent, as everywhere): the contents of a database change only if the caller
// holds, at that moment, >= RW on THAT database; a response carries the planted marker of a database only if
// the caller holds >= R on it.

var xUser = []string{"xnonec18", "xrc18", "xrwc18", "xadmc18"}

type flowStep struct {
	name string
	run  func(x *cx) error
}

type txFlow struct {
	name  string
	home  string     // database of OpenSession
	pre   []flowStep // by the user, with the permissions held at login
	admin string     // "", "revoke-A", "grant-R-A": by the sysadmin between pre and post
	post  []flowStep // by the user, judged with the permissions after the sysadmin's step
}

func sUse(db string) flowStep {
	return flowStep{"UseDatabase(" + db + ")", func(x *cx) error {
		_, err := x.unary(svcI+"UseDatabase", &schema.Database{DatabaseName: db})
		return err
	}}
}

func sSQLUse(db string) flowStep {
	return flowStep{"SQLExec(USE " + db + ")", func(x *cx) error {
		tx := x.txid
		x.txid = "" // outside the transaction (USE is refused inside a transaction block)
		_, err := x.unary(svcI+"SQLExec", &schema.SQLExecRequest{Sql: "USE " + db + ";"})
		x.txid = tx
		return err
	}}
}

func sNewTx(mode schema.TxMode) flowStep {
	return flowStep{"NewTx(" + mode.String() + ")", func(x *cx) error { return x.newTx(mode) }}
}

var sTxWrite = flowStep{"TxSQLExec(UPSERT t)", func(x *cx) error {
	_, err := x.unary(svcI+"TxSQLExec", &schema.SQLExecRequest{Sql: fmt.Sprintf(
		"CREATE TABLE IF NOT EXISTS t(id INTEGER, name VARCHAR[64], PRIMARY KEY id); UPSERT INTO t(id, name) VALUES (%d, 'txflow-%s');", 2000+x.rnd.IntN(1000), x.user)})
	return err
}}

var sTxDDL = flowStep{"TxSQLExec(CREATE TABLE)", func(x *cx) error {
	_, err := x.unary(svcI+"TxSQLExec", &schema.SQLExecRequest{Sql: fmt.Sprintf("CREATE TABLE %s(id INTEGER, PRIMARY KEY id);", x.e.fresh("txt"))})
	return err
}}

var sCommit = flowStep{"Commit", func(x *cx) error {
	_, err := x.unary(svcI+"Commit", &emptypb.Empty{})
	return err
}}

var sTxQuery = flowStep{"TxSQLQuery(SELECT t)", func(x *cx) error {
	st, err := x.e.ic.TxSQLQuery(x.ctx(), &schema.SQLQueryRequest{Sql: "SELECT id, name FROM t"})
	if err != nil {
		return err
	}
	return recvAll(x, st.Recv)
}}

func txFlows() []txFlow {
	const A, B = "db1", "db3"
	rw, ro := schema.TxMode_ReadWrite, schema.TxMode_ReadOnly
	return []txFlow{
		{name: "tx-on-A", home: A, pre: []flowStep{sNewTx(rw), sTxWrite, sCommit}},
		{name: "tx-on-A-ddl", home: A, pre: []flowStep{sNewTx(rw), sTxDDL, sCommit}},
		{name: "use-A-then-tx", home: B, pre: []flowStep{sUse(A), sNewTx(rw), sTxWrite, sCommit}},
		{name: "tx-on-A-then-use-B", home: A, pre: []flowStep{sNewTx(rw), sUse(B), sTxWrite, sCommit}},
		{name: "tx-on-A-then-use-B-ddl", home: A, pre: []flowStep{sNewTx(rw), sUse(B), sTxDDL, sCommit}},
		{name: "tx-on-A-then-sql-use-B", home: A, pre: []flowStep{sNewTx(rw), sSQLUse(B), sTxWrite, sCommit}},
		{name: "tx-on-B-then-use-A", home: B, pre: []flowStep{sNewTx(rw), sUse(A), sTxWrite, sCommit}},
		{name: "rotx-on-A-then-use-B-write", home: A, pre: []flowStep{sNewTx(ro), sUse(B), sTxWrite, sCommit}},
		{name: "rotx-on-A-then-use-B-query", home: A, pre: []flowStep{sNewTx(ro), sUse(B), sTxQuery}},
		{name: "tx-on-A-then-revoked-write", home: A, pre: []flowStep{sNewTx(rw)}, admin: "revoke-A", post: []flowStep{sTxWrite, sCommit}},
		{name: "tx-on-A-then-revoked-query", home: A, pre: []flowStep{sNewTx(ro)}, admin: "revoke-A", post: []flowStep{sTxQuery}},
		{name: "tx-on-A-then-lowered-to-R-write", home: A, pre: []flowStep{sNewTx(rw)}, admin: "grant-R-A", post: []flowStep{sTxWrite, sCommit}},
		{name: "tx-on-A-written-then-lowered-to-R-commit", home: A, pre: []flowStep{sNewTx(rw), sTxWrite}, admin: "grant-R-A", post: []flowStep{sCommit}},
		{name: "tx-on-A-then-use-B-then-revoked-A-write", home: A, pre: []flowStep{sNewTx(rw), sUse(B)}, admin: "revoke-A", post: []flowStep{sTxWrite, sCommit}},
	}
}

func (r *caseRun) txflows(caseData []byte) {
	e, c, cs := r.e, r.c, r.cs
	if cs.Role < roleNone || cs.Role > roleAdmin {
		return
	}
	user := xUser[cs.Role]
	sys := e.saCtx(defDBn)
	for _, fl := range txFlows() {
		if cs.Only != "" && !strings.Contains(fl.name, cs.Only) {
			continue
		}
		permA := []int{pNone, pR, pRW, pAdmin}[cs.Role]
		perm := map[string]int{"db1": permA, "db3": pAdmin}
		if err := e.resetXUser(cs.Role); err != nil {
			c.Inconclusive("txflow: cannot prepare " + user + ": " + err.Error())
			continue
		}
		x := &cx{e: e, role: cs.Role, user: user, sel: "own", state: "txflow", rnd: fw.NewRand(cs.Content, "c18/txflow/"+fl.name+"/"+user)}
		var steps []string
		rs, err := e.ic.OpenSession(bg(), &schema.OpenSessionRequest{Username: []byte(user), Password: []byte(userPw), DatabaseName: fl.home})
		if err != nil {
			// (no permission on A: the flow cannot even start there; it is run from B instead, the user then tries to reach A)
			steps = append(steps, "OpenSession("+fl.home+"): "+status.Code(err).String())
			rs, err = e.ic.OpenSession(bg(), &schema.OpenSessionRequest{Username: []byte(user), Password: []byte(userPw), DatabaseName: "db3"})
			if err != nil {
				c.Inconclusive("txflow: no session for " + user + ": " + err.Error())
				continue
			}
			steps = append(steps, "OpenSession(db3): ok")
			x.cred = cred{kind: "session", sessID: rs.SessionID, ok: true}
			_, uerr := x.unary(svcI+"UseDatabase", &schema.Database{DatabaseName: fl.home})
			steps = append(steps, "UseDatabase("+fl.home+"): "+errCode(uerr))
		} else {
			steps = append(steps, "OpenSession("+fl.home+"): ok")
			x.cred = cred{kind: "session", sessID: rs.SessionID, ok: true}
		}

		window := func(part string, list []flowStep) {
			if len(list) == 0 {
				return
			}
			d0 := e.digest()
			x.resp = nil
			last := ""
			for _, st := range list {
				err := st.run(x)
				last = "ok"
				if err != nil {
					last = "denied:" + status.Code(err).String()
				}
				steps = append(steps, st.name+": "+errCode(err))
			}
			d1 := e.digest()
			if d0.Err != "" || d1.Err != "" {
				c.Inconclusive("txflow: digest unavailable: " + d0.Err + d1.Err)
				return
			}
			c.Eval(1)
			c.Count("txflow_windows", 1)
			changes := diffDigests(d0, d1)
			if dbg := os.Getenv("VERIF_C18_DEBUG"); dbg != "" {
				if f, err := os.OpenFile(dbg, os.O_CREATE|os.O_APPEND|os.O_WRONLY, 0o644); err == nil {
					fmt.Fprintf(f, "%-45s %-5s %-8s changes=%v steps=%v\n", fl.name, part, roleNames[cs.Role], changes, steps)
					f.Close()
				}
			}
			where := fmt.Sprintf("flow %s by %s (db1: %s, db3: Admin), permissions now db1=%d db3=%d [%s]", fl.name, user, roleNames[cs.Role], perm["db1"], perm["db3"], strings.Join(steps, "; "))
			r.trace = append(r.trace, map[string]any{"flow": fl.name, "part": part, "user": user, "steps": append([]string(nil), steps...), "changes": changes})
			changed := ""
			for _, ch := range changes {
				changed += " " + ch.Kind + ":" + ch.DB
				desc := fmt.Sprintf("%s -> %s %s (%s)", where, ch.Kind, ch.DB, ch.What)
				switch {
				case ch.Kind == "data" && ch.DB == sysDBn:
					r.violate("systemdb-written/txflow:"+fl.name, desc, caseData)
				case ch.Kind == "data":
					if perm[ch.DB] < pRW {
						r.violate(fmt.Sprintf("unauthorized-change/txflow:%s/%s-on-A", fl.name, roleNames[cs.Role]), desc, caseData)
					}
				default:
					r.violate(fmt.Sprintf("unauthorized-change/txflow:%s/%s-%s", fl.name, roleNames[cs.Role], ch.Kind), desc, caseData)
				}
			}
			all := bytes.Join(x.resp, []byte{0})
			for _, db := range dataDBs {
				if perm[db] >= pR {
					continue
				}
				if bytes.Contains(all, []byte(marker(db))) {
					r.violate(fmt.Sprintf("unauthorized-read/txflow:%s/%s-on-A", fl.name, roleNames[cs.Role]), where+": response carries planted marker "+marker(db), caseData)
				}
			}
			c.Distinct(fmt.Sprintf("txflow|%s|%s|%s|%s|last=%s|changed=%s", fl.name, part, roleNames[cs.Role], fl.admin, last, strings.TrimSpace(changed)))
		}

		window("pre", fl.pre)
		switch fl.admin {
		case "revoke-A":
			if permA > pNone {
				_, err := e.ic.ChangePermission(sys, &schema.ChangePermissionRequest{Action: schema.PermissionAction_REVOKE, Username: user, Database: "db1", Permission: permissionCode(permA)})
				steps = append(steps, "sysadmin ChangePermission(REVOKE db1): "+errCode(err))
				if err == nil {
					perm["db1"] = pNone
				}
			}
		case "grant-R-A":
			if permA > pR {
				_, err := e.ic.ChangePermission(sys, &schema.ChangePermissionRequest{Action: schema.PermissionAction_GRANT, Username: user, Database: "db1", Permission: 1})
				steps = append(steps, "sysadmin ChangePermission(GRANT R on db1): "+errCode(err))
				if err == nil {
					perm["db1"] = pR
				}
			}
		}
		window("post", fl.post)
		x.txid = ""
		e.ic.CloseSession(sessCtx(x.cred.sessID), &emptypb.Empty{})
		if len(r.trace) > 12 {
			r.trace = r.trace[len(r.trace)-12:]
		}
	}
	e.resetXUser(cs.Role)
}

// resetXUser gives x<role> exactly: <role> on db1, Admin on db3, and the default SQL privileges of both.
// (ChangePermission replaces ALL SQL privileges of the user by the defaults of the one database it is called
// for, so the privileges of the other database are granted again explicitly.)
func (e *env) resetXUser(role int) error {
	sys := e.saCtx(defDBn)
	user := xUser[role]
	all := []string{"SELECT", "CREATE", "INSERT", "UPDATE", "DELETE", "DROP", "ALTER"}
	if role == roleNone {
		e.ic.ChangePermission(sys, &schema.ChangePermissionRequest{Action: schema.PermissionAction_REVOKE, Username: user, Database: "db1", Permission: 1})
	} else if _, err := e.ic.ChangePermission(sys, &schema.ChangePermissionRequest{Action: schema.PermissionAction_GRANT, Username: user, Database: "db1", Permission: permissionCode(role)}); err != nil {
		return err
	}
	if _, err := e.ic.ChangePermission(sys, &schema.ChangePermissionRequest{Action: schema.PermissionAction_GRANT, Username: user, Database: "db3", Permission: 254}); err != nil {
		return err
	}
	if role != roleNone {
		privs := all
		if role == roleR {
			privs = []string{"SELECT"}
		}
		if _, err := e.ic.ChangeSQLPrivileges(sys, &schema.ChangeSQLPrivilegesRequest{Action: schema.PermissionAction_GRANT, Username: user, Database: "db1", Privileges: privs}); err != nil {
			return err
		}
	}
	return nil
}

func errCode(err error) string {
	if err == nil {
		return "ok"
	}
	return "denied:" + status.Code(err).String() + " " + trunc(err.Error(), 90)
}
