package c18

import (
	"bytes"
	"context"
	"fmt"
	"io"
	"math/rand/v2"
	"strings"

	"github.com/codenotary/immudb/pkg/api/protomodel"
	"github.com/codenotary/immudb/pkg/api/schema"
	"github.com/codenotary/immudb/pkg/stream"
	"google.golang.org/grpc"
	"google.golang.org/grpc/metadata"
	"google.golang.org/protobuf/proto"
	"google.golang.org/protobuf/reflect/protoreflect"
	"google.golang.org/protobuf/reflect/protoregistry"
	"google.golang.org/protobuf/types/known/emptypb"
	"google.golang.org/protobuf/types/known/structpb"
)

// Method classes, given from what the RPC MEANS (not from pkg/auth):
//
//	write    changes the contents of the selected database
//	read     returns contents / state / settings of the selected database
//	admin    user management, database management, maintenance, replication feed
//	session  acts on the caller's own session / transaction / login
//	open     opens a session or login from credentials carried in the request
//	public   needs no authentication by design
//	filtered returns a list restricted to what the caller may see
const (
	clWrite    = "write"
	clRead     = "read"
	clAdmin    = "admin"
	clSession  = "session"
	clOpen     = "open"
	clPublic   = "public"
	clFiltered = "filtered"
	clUnknown  = "unclassified"
)

type spec struct {
	class    string
	okRole   int  // lowest role expected to succeed on its own database with a valid session; -1: cannot succeed in this setup
	needSess bool // only meaningful with session authentication (transactions, KeepAlive, CloseSession)
	userPrep bool // the prep step changes the permissions of the cell's user
	needTok  bool // only meaningful with token authentication (Logout)
	// explicit: the request names a database (x.target); succeeding requires `level` on THAT database
	explicit bool
	level    int
	late     int // destructive methods run last
	prep     func(x *cx)
	run      func(x *cx) error
	cleanup  func(x *cx)
}

type cred struct {
	kind   string // none | token | session
	token  string
	sessID string
	ok     bool
}

// cx is the context of one call under test.
type cx struct {
	e      *env
	role   int
	user   string
	sel    string
	state  string
	cred   cred
	target string // database named in requests that carry a database name
	txid   string
	resp   [][]byte
	rnd    *rand.Rand
	opened []string // sessions opened by the call itself
	logins []string // tokens obtained by the call itself
	// permissions granted by a prep step on a scratch database (level as in permOf)
	extraPerm map[string]int
	created   string // database created by the call under test (removed afterwards: the server is shared by the cases of a process)
}

func (x *cx) ctx() context.Context {
	kv := []string{}
	switch x.cred.kind {
	case "token":
		kv = append(kv, "authorization", "Bearer "+x.cred.token)
	case "session":
		kv = append(kv, "sessionid", x.cred.sessID)
	}
	if x.txid != "" {
		kv = append(kv, "transactionid", x.txid)
	}
	if len(kv) == 0 {
		return bg()
	}
	return metadata.NewOutgoingContext(bg(), metadata.Pairs(kv...))
}

func (x *cx) keep(m proto.Message) {
	if m == nil {
		return
	}
	if b, err := proto.Marshal(m); err == nil {
		x.resp = append(x.resp, b)
	}
}

func (x *cx) val() []byte { return []byte(fmt.Sprintf("w-%s-%d-%d", x.user, x.e.seq, x.rnd.IntN(1<<20))) }
func (x *cx) key() []byte { return []byte(fmt.Sprintf("k%d", x.rnd.IntN(4))) }

func methodDescriptor(full string) protoreflect.MethodDescriptor {
	parts := strings.Split(strings.TrimPrefix(full, "/"), "/")
	if len(parts) != 2 {
		return nil
	}
	d, err := protoregistry.GlobalFiles.FindDescriptorByName(protoreflect.FullName(parts[0]))
	if err != nil {
		return nil
	}
	sd, ok := d.(protoreflect.ServiceDescriptor)
	if !ok {
		return nil
	}
	return sd.Methods().ByName(protoreflect.Name(parts[1]))
}

func newMsg(md protoreflect.MessageDescriptor) proto.Message {
	mt, err := protoregistry.GlobalTypes.FindMessageByName(md.FullName())
	if err != nil {
		return nil
	}
	return mt.New().Interface()
}

// unary invokes a unary method generically; the response type comes from the registered descriptors.
func (x *cx) unary(full string, req proto.Message) (proto.Message, error) {
	md := methodDescriptor(full)
	if md == nil {
		return nil, fmt.Errorf("no descriptor for %s", full)
	}
	if req == nil {
		req = newMsg(md.Input())
	}
	resp := newMsg(md.Output())
	if req == nil || resp == nil {
		return nil, fmt.Errorf("no message type for %s", full)
	}
	if err := x.e.conn.Invoke(x.ctx(), full, req, resp); err != nil {
		return nil, err
	}
	x.keep(resp)
	return resp, nil
}

// zeroCall: class-independent fallback for a method without a builder.
func (x *cx) zeroCall(mi methodInfo) error {
	md := methodDescriptor(mi.Full)
	if md == nil {
		return fmt.Errorf("no descriptor for %s", mi.Full)
	}
	if !mi.ClientStr && !mi.ServerStr {
		_, err := x.unary(mi.Full, nil)
		return err
	}
	st, err := x.e.conn.NewStream(x.ctx(), &grpc.StreamDesc{StreamName: mi.Name, ClientStreams: mi.ClientStr, ServerStreams: mi.ServerStr}, mi.Full)
	if err != nil {
		return err
	}
	if err := st.SendMsg(newMsg(md.Input())); err != nil && err != io.EOF {
		return err
	}
	st.CloseSend()
	for i := 0; i < 64; i++ {
		resp := newMsg(md.Output())
		if err := st.RecvMsg(resp); err != nil {
			if err == io.EOF {
				return nil
			}
			return err
		}
		x.keep(resp)
		if !mi.ServerStr {
			return nil
		}
	}
	return nil
}

const (
	svcI = "/immudb.schema.ImmuService/"
	svcD = "/immudb.model.DocumentService/"
	svcA = "/immudb.model.AuthorizationService/"
)

// u builds a spec for a unary method whose request is produced by mk.
func u(full, class string, okRole int, mk func(x *cx) proto.Message) *spec {
	return &spec{class: class, okRole: okRole, run: func(x *cx) error {
		_, err := x.unary(full, mk(x))
		return err
	}}
}

func (s *spec) sess() *spec              { s.needSess = true; return s }
func (s *spec) touchesUser() *spec       { s.userPrep = true; return s }
func (s *spec) tok() *spec               { s.needTok = true; return s }
func (s *spec) onTarget(level int) *spec { s.explicit, s.level = true, level; return s }
func (s *spec) withPrep(f func(x *cx)) *spec {
	s.prep = f
	return s
}
func (s *spec) withCleanup(f func(x *cx)) *spec {
	s.cleanup = f
	return s
}
func (s *spec) lateBy(n int) *spec { s.late = n; return s }

func empty(*cx) proto.Message { return &emptypb.Empty{} }

// recvChunks drains a server stream of chunks.
func recvAll[T proto.Message](x *cx, recv func() (T, error)) error {
	for i := 0; i < 4096; i++ {
		m, err := recv()
		if err != nil {
			if err == io.EOF {
				return nil
			}
			return err
		}
		x.keep(m)
	}
	return nil
}

func kvOf(k, v []byte) *stream.KeyValue {
	return &stream.KeyValue{
		Key:   &stream.ValueSize{Content: bytes.NewReader(k), Size: len(k)},
		Value: &stream.ValueSize{Content: bytes.NewReader(v), Size: len(v)},
	}
}

// onAllDBs runs f with a sysadmin session bound to every data database (prep steps:
// the call under test lands on whichever database the caller managed to select).
func onAllDBs(x *cx, f func(ctx context.Context, db string)) {
	for _, db := range dataDBs {
		f(x.e.saCtx(db), db)
	}
}

func nameQuery(coll, name string) *protomodel.Query {
	return &protomodel.Query{CollectionName: coll, Expressions: []*protomodel.QueryExpression{{
		FieldComparisons: []*protomodel.FieldComparison{{Field: "name", Operator: protomodel.ComparisonOperator_EQ, Value: structpb.NewStringValue(name)}}}}}
}

func (x *cx) newTx(mode schema.TxMode) error {
	r, err := x.unary(svcI+"NewTx", &schema.NewTxRequest{Mode: mode})
	if err != nil {
		return err
	}
	x.txid = r.(*schema.NewTxResponse).TransactionID
	return nil
}

func (x *cx) ensureLoaded(db string) {
	if db == "" || db == sysDBn || db == defDBn {
		return
	}
	x.e.ic.LoadDatabase(x.e.saCtx(defDBn), &schema.LoadDatabaseRequest{Database: db})
}

func (x *cx) ensureUnloaded(db string) {
	if db == "" || db == sysDBn || db == defDBn {
		return
	}
	x.e.ic.UnloadDatabase(x.e.saCtx(defDBn), &schema.UnloadDatabaseRequest{Database: db})
}

// dropDB removes a scratch database (if it exists), so that databases do not pile up on the shared server.
func (x *cx) dropDB(name string) {
	if name == "" || name == sysDBn || name == defDBn {
		return
	}
	for _, d := range dataDBs {
		if d == name {
			return
		}
	}
	sys := x.e.saCtx(defDBn)
	x.e.ic.UnloadDatabase(sys, &schema.UnloadDatabaseRequest{Database: name})
	x.e.ic.DeleteDatabase(sys, &schema.DeleteDatabaseRequest{Database: name})
}

// restoreDB brings a data database back after a destructive call (reload, or recreate + replant).
func (x *cx) restoreDB(db string) {
	if db == "" || db == sysDBn || db == defDBn {
		return
	}
	sys := x.e.saCtx(defDBn)
	l, err := x.e.ic.DatabaseListV2(sys, &schema.DatabaseListRequestV2{})
	if err != nil {
		return
	}
	for _, info := range l.Databases {
		if info.Name == db {
			if !info.Loaded {
				x.e.ic.LoadDatabase(sys, &schema.LoadDatabaseRequest{Database: db})
				x.e.dropSA(db)
			}
			return
		}
	}
	x.e.dropSA(db)
	if _, err := x.e.ic.CreateDatabaseV2(sys, &schema.CreateDatabaseRequest{Name: db, Settings: smallSettings()}); err == nil {
		x.e.plant(db)
	}
}

func buildSpecs() map[string]*spec {
	m := map[string]*spec{}

	// ---------------------------------------------------------------- users
	m[svcI+"ListUsers"] = u(svcI+"ListUsers", clFiltered, roleNone, empty)
	m[svcI+"CreateUser"] = u(svcI+"CreateUser", clAdmin, roleAdmin, func(x *cx) proto.Message {
		return &schema.CreateUserRequest{User: []byte(x.e.fresh("nu")), Password: []byte(userPw), Permission: 1, Database: x.target}
	}).onTarget(pAdmin)
	m[svcI+"ChangePassword"] = u(svcI+"ChangePassword", clAdmin, roleAdmin, func(x *cx) proto.Message {
		return &schema.ChangePasswordRequest{User: []byte(vicUser), NewPassword: []byte(fmt.Sprintf("N3w-Passw0rd!%d", x.rnd.IntN(1000)))}
	})
	m[svcI+"ChangePermission"] = u(svcI+"ChangePermission", clAdmin, roleAdmin, func(x *cx) proto.Message {
		return &schema.ChangePermissionRequest{Action: schema.PermissionAction_GRANT, Username: vicUser, Database: x.target, Permission: x.e.flipPerm()}
	}).onTarget(pAdmin)
	m[svcI+"ChangeSQLPrivileges"] = u(svcI+"ChangeSQLPrivileges", clAdmin, roleAdmin, func(x *cx) proto.Message {
		privs := []string{"SELECT", "INSERT", "UPDATE", "DELETE"}
		act := schema.PermissionAction_GRANT
		if x.rnd.IntN(3) == 0 {
			act = schema.PermissionAction_REVOKE
		}
		return &schema.ChangeSQLPrivilegesRequest{Action: act, Username: vicUser, Database: x.target, Privileges: []string{privs[x.rnd.IntN(len(privs))]}}
	}).onTarget(pAdmin)
	m[svcI+"SetActiveUser"] = u(svcI+"SetActiveUser", clAdmin, roleAdmin, func(x *cx) proto.Message {
		return &schema.SetActiveUserRequest{Username: vic2User, Active: !x.e.vic2act}
	}).withCleanup(func(x *cx) {
		// follow the real state so that the next request is again a change
		if l, err := x.e.ic.ListUsers(x.e.saCtx(defDBn), &emptypb.Empty{}); err == nil {
			for _, usr := range l.Users {
				if string(usr.User) == vic2User {
					x.e.vic2act = usr.Active
				}
			}
		}
	})
	m[svcI+"UpdateAuthConfig"] = u(svcI+"UpdateAuthConfig", clAdmin, -1, func(x *cx) proto.Message { return &schema.AuthConfig{Kind: 1} })
	m[svcI+"UpdateMTLSConfig"] = u(svcI+"UpdateMTLSConfig", clAdmin, -1, func(x *cx) proto.Message { return &schema.MTLSConfig{Enabled: true} })

	// ---------------------------------------------------------------- sessions / login
	openSess := func(x *cx) error {
		r, err := x.unary(svcI+"OpenSession", &schema.OpenSessionRequest{Username: []byte(x.user), Password: []byte(pwOf(x.role)), DatabaseName: x.target})
		if err == nil {
			x.opened = append(x.opened, r.(*schema.OpenSessionResponse).SessionID)
		}
		return err
	}
	m[svcI+"OpenSession"] = (&spec{class: clOpen, okRole: roleR, run: openSess}).onTarget(pR)
	m[svcA+"OpenSession"] = (&spec{class: clOpen, okRole: roleR, run: func(x *cx) error {
		r, err := x.unary(svcA+"OpenSession", &protomodel.OpenSessionRequest{Username: x.user, Password: pwOf(x.role), Database: x.target})
		if err == nil {
			x.opened = append(x.opened, r.(*protomodel.OpenSessionResponse).SessionID)
		}
		return err
	}}).onTarget(pR)
	m[svcI+"Login"] = &spec{class: clOpen, okRole: roleNone, run: func(x *cx) error {
		r, err := x.unary(svcI+"Login", &schema.LoginRequest{User: []byte(x.user), Password: []byte(pwOf(x.role))})
		if err == nil {
			x.logins = append(x.logins, r.(*schema.LoginResponse).Token)
		}
		return err
	}}
	m[svcI+"Logout"] = u(svcI+"Logout", clSession, roleNone, empty).tok()
	m[svcI+"CloseSession"] = u(svcI+"CloseSession", clSession, roleNone, empty).sess()
	m[svcA+"CloseSession"] = u(svcA+"CloseSession", clSession, roleNone, func(*cx) proto.Message { return &protomodel.CloseSessionRequest{} }).sess()
	m[svcI+"KeepAlive"] = u(svcI+"KeepAlive", clSession, roleNone, empty).sess()
	m[svcA+"KeepAlive"] = u(svcA+"KeepAlive", clSession, roleNone, func(*cx) proto.Message { return &protomodel.KeepAliveRequest{} }).sess()
	m[svcI+"UseDatabase"] = u(svcI+"UseDatabase", clSession, roleR, func(x *cx) proto.Message {
		return &schema.Database{DatabaseName: x.target}
	}).onTarget(pR)

	// ---------------------------------------------------------------- SQL transactions (session only)
	m[svcI+"NewTx"] = (&spec{class: clSession, okRole: roleRW, run: func(x *cx) error { return x.newTx(schema.TxMode_ReadWrite) }}).sess()
	insert := func(x *cx) *schema.SQLExecRequest {
		return &schema.SQLExecRequest{Sql: fmt.Sprintf("CREATE TABLE IF NOT EXISTS t(id INTEGER, name VARCHAR[64], PRIMARY KEY id); UPSERT INTO t(id, name) VALUES (%d, 'tx-%s');", 100+x.rnd.IntN(1000), x.user)}
	}
	m[svcI+"TxSQLExec"] = (&spec{class: clWrite, okRole: roleRW, run: func(x *cx) error {
		if err := x.newTx(schema.TxMode_ReadWrite); err != nil {
			return err
		}
		_, err := x.unary(svcI+"TxSQLExec", insert(x))
		return err
	}}).sess()
	m[svcI+"Commit"] = (&spec{class: clWrite, okRole: roleRW, run: func(x *cx) error {
		if err := x.newTx(schema.TxMode_ReadWrite); err != nil {
			return err
		}
		if _, err := x.unary(svcI+"TxSQLExec", insert(x)); err != nil {
			return err
		}
		_, err := x.unary(svcI+"Commit", &emptypb.Empty{})
		return err
	}}).sess()
	m[svcI+"Rollback"] = (&spec{class: clSession, okRole: roleRW, run: func(x *cx) error {
		if err := x.newTx(schema.TxMode_ReadWrite); err != nil {
			return err
		}
		if _, err := x.unary(svcI+"TxSQLExec", insert(x)); err != nil {
			return err
		}
		_, err := x.unary(svcI+"Rollback", &emptypb.Empty{})
		return err
	}}).sess()
	m[svcI+"TxSQLQuery"] = (&spec{class: clRead, okRole: roleR, run: func(x *cx) error {
		if err := x.newTx(schema.TxMode_ReadOnly); err != nil {
			return err
		}
		st, err := x.e.ic.TxSQLQuery(x.ctx(), &schema.SQLQueryRequest{Sql: "SELECT id, name FROM t"})
		if err != nil {
			return err
		}
		return recvAll(x, st.Recv)
	}}).sess()

	// ---------------------------------------------------------------- KV writes
	m[svcI+"Set"] = u(svcI+"Set", clWrite, roleRW, func(x *cx) proto.Message {
		return &schema.SetRequest{KVs: []*schema.KeyValue{{Key: []byte("w0"), Value: x.val()}}}
	})
	m[svcI+"VerifiableSet"] = u(svcI+"VerifiableSet", clWrite, roleRW, func(x *cx) proto.Message {
		return &schema.VerifiableSetRequest{SetRequest: &schema.SetRequest{KVs: []*schema.KeyValue{{Key: []byte("w1"), Value: x.val()}}}, ProveSinceTx: 1}
	})
	m[svcI+"Delete"] = u(svcI+"Delete", clWrite, roleRW, func(x *cx) proto.Message {
		return &schema.DeleteKeysRequest{Keys: [][]byte{[]byte("del0")}}
	}).withPrep(func(x *cx) {
		onAllDBs(x, func(ctx context.Context, db string) {
			x.e.ic.Set(ctx, &schema.SetRequest{KVs: []*schema.KeyValue{{Key: []byte("del0"), Value: []byte("x")}}})
		})
	})
	m[svcI+"ExecAll"] = u(svcI+"ExecAll", clWrite, roleRW, func(x *cx) proto.Message {
		return &schema.ExecAllRequest{Operations: []*schema.Op{
			{Operation: &schema.Op_Kv{Kv: &schema.KeyValue{Key: []byte("w2"), Value: x.val()}}},
			{Operation: &schema.Op_ZAdd{ZAdd: &schema.ZAddRequest{Set: []byte("zs"), Score: 2, Key: []byte("k1"), BoundRef: true, AtTx: 1}}},
		}}
	})
	m[svcI+"SetReference"] = u(svcI+"SetReference", clWrite, roleRW, func(x *cx) proto.Message {
		return &schema.ReferenceRequest{Key: []byte(x.e.fresh("ref")), ReferencedKey: x.key()}
	})
	m[svcI+"VerifiableSetReference"] = u(svcI+"VerifiableSetReference", clWrite, roleRW, func(x *cx) proto.Message {
		return &schema.VerifiableReferenceRequest{ReferenceRequest: &schema.ReferenceRequest{Key: []byte(x.e.fresh("vref")), ReferencedKey: x.key()}, ProveSinceTx: 1}
	})
	m[svcI+"ZAdd"] = u(svcI+"ZAdd", clWrite, roleRW, func(x *cx) proto.Message {
		return &schema.ZAddRequest{Set: []byte("zs"), Score: float64(x.rnd.IntN(100)), Key: x.key()}
	})
	m[svcI+"VerifiableZAdd"] = u(svcI+"VerifiableZAdd", clWrite, roleRW, func(x *cx) proto.Message {
		return &schema.VerifiableZAddRequest{ZAddRequest: &schema.ZAddRequest{Set: []byte("zs"), Score: float64(x.rnd.IntN(100)), Key: x.key()}, ProveSinceTx: 1}
	})

	// ---------------------------------------------------------------- KV reads
	m[svcI+"Get"] = u(svcI+"Get", clRead, roleR, func(x *cx) proto.Message { return &schema.KeyRequest{Key: x.key()} })
	m[svcI+"VerifiableGet"] = u(svcI+"VerifiableGet", clRead, roleR, func(x *cx) proto.Message {
		return &schema.VerifiableGetRequest{KeyRequest: &schema.KeyRequest{Key: x.key()}, ProveSinceTx: 1}
	})
	m[svcI+"GetAll"] = u(svcI+"GetAll", clRead, roleRW, func(x *cx) proto.Message {
		return &schema.KeyListRequest{Keys: [][]byte{[]byte("k0"), []byte("k1")}}
	})
	m[svcI+"Scan"] = u(svcI+"Scan", clRead, roleR, func(x *cx) proto.Message { return &schema.ScanRequest{Prefix: []byte("k"), Limit: 10} })
	m[svcI+"Count"] = u(svcI+"Count", clRead, roleR, func(x *cx) proto.Message { return &schema.KeyPrefix{Prefix: []byte("k")} })
	m[svcI+"CountAll"] = u(svcI+"CountAll", clRead, roleR, empty)
	m[svcI+"TxById"] = u(svcI+"TxById", clRead, roleR, func(x *cx) proto.Message { return &schema.TxRequest{Tx: 1} })
	m[svcI+"VerifiableTxById"] = u(svcI+"VerifiableTxById", clRead, roleR, func(x *cx) proto.Message {
		return &schema.VerifiableTxRequest{Tx: 1, ProveSinceTx: 1}
	})
	m[svcI+"TxScan"] = u(svcI+"TxScan", clRead, roleR, func(x *cx) proto.Message { return &schema.TxScanRequest{InitialTx: 1, Limit: 3} })
	m[svcI+"History"] = u(svcI+"History", clRead, roleR, func(x *cx) proto.Message { return &schema.HistoryRequest{Key: x.key(), Limit: 5} })
	m[svcI+"ZScan"] = u(svcI+"ZScan", clRead, roleR, func(x *cx) proto.Message { return &schema.ZScanRequest{Set: []byte("zs"), Limit: 5} })
	m[svcI+"DatabaseHealth"] = u(svcI+"DatabaseHealth", clRead, roleR, empty)
	m[svcI+"CurrentState"] = u(svcI+"CurrentState", clRead, roleR, empty)
	m[svcI+"GetDatabaseSettings"] = u(svcI+"GetDatabaseSettings", clRead, roleR, empty)
	m[svcI+"GetDatabaseSettingsV2"] = u(svcI+"GetDatabaseSettingsV2", clRead, roleR, func(*cx) proto.Message { return &schema.DatabaseSettingsRequest{} })

	// ---------------------------------------------------------------- public
	m[svcI+"ServerInfo"] = u(svcI+"ServerInfo", clPublic, roleNone, func(*cx) proto.Message { return &schema.ServerInfoRequest{} })
	m[svcI+"Health"] = u(svcI+"Health", clPublic, roleNone, empty)

	// ---------------------------------------------------------------- database management
	m[svcI+"CreateDatabase"] = u(svcI+"CreateDatabase", clAdmin, roleSys, func(x *cx) proto.Message {
		x.created = x.e.fresh("ndb")
		return &schema.Database{DatabaseName: x.created}
	}).withCleanup(func(x *cx) { x.dropDB(x.created) })
	m[svcI+"CreateDatabaseWith"] = u(svcI+"CreateDatabaseWith", clAdmin, roleSys, func(x *cx) proto.Message {
		x.created = x.e.fresh("ndbw")
		return &schema.DatabaseSettings{DatabaseName: x.created, MaxTxEntries: 64}
	}).withCleanup(func(x *cx) { x.dropDB(x.created) })
	m[svcI+"CreateDatabaseV2"] = u(svcI+"CreateDatabaseV2", clAdmin, roleSys, func(x *cx) proto.Message {
		x.created = x.e.fresh("ndbv")
		return &schema.CreateDatabaseRequest{Name: x.created, Settings: smallSettings()}
	}).withCleanup(func(x *cx) { x.dropDB(x.created) })
	m[svcI+"DatabaseList"] = u(svcI+"DatabaseList", clFiltered, roleNone, empty)
	m[svcI+"DatabaseListV2"] = u(svcI+"DatabaseListV2", clFiltered, roleNone, func(*cx) proto.Message { return &schema.DatabaseListRequestV2{} })
	m[svcI+"UpdateDatabase"] = u(svcI+"UpdateDatabase", clAdmin, roleAdmin, func(x *cx) proto.Message {
		return &schema.DatabaseSettings{DatabaseName: x.target, ExcludeCommitTime: x.e.flip()}
	}).onTarget(pAdmin)
	m[svcI+"UpdateDatabaseV2"] = u(svcI+"UpdateDatabaseV2", clAdmin, roleAdmin, func(x *cx) proto.Message {
		return &schema.UpdateDatabaseRequest{Database: x.target, Settings: &schema.DatabaseNullableSettings{
			Autoload: &schema.NullableBool{Value: x.e.flip()}}}
	}).onTarget(pAdmin).withCleanup(func(x *cx) {
		x.e.ic.UpdateDatabaseV2(x.e.saCtx(defDBn), &schema.UpdateDatabaseRequest{Database: x.target, Settings: &schema.DatabaseNullableSettings{Autoload: &schema.NullableBool{Value: true}}})
	})
	m[svcI+"FlushIndex"] = u(svcI+"FlushIndex", clAdmin, roleAdmin, func(*cx) proto.Message { return &schema.FlushIndexRequest{CleanupPercentage: 1} })
	m[svcI+"CompactIndex"] = u(svcI+"CompactIndex", clAdmin, roleAdmin, empty)
	m[svcI+"TruncateDatabase"] = u(svcI+"TruncateDatabase", clAdmin, roleAdmin, func(x *cx) proto.Message {
		return &schema.TruncateDatabaseRequest{Database: x.target, RetentionPeriod: 24 * 3600 * 1000}
	}).onTarget(pAdmin).lateBy(1)
	m[svcI+"UnloadDatabase"] = u(svcI+"UnloadDatabase", clAdmin, roleAdmin, func(x *cx) proto.Message {
		return &schema.UnloadDatabaseRequest{Database: x.target}
	}).onTarget(pAdmin).lateBy(2).withCleanup(func(x *cx) { x.restoreDB(x.target) })
	m[svcI+"LoadDatabase"] = u(svcI+"LoadDatabase", clAdmin, roleAdmin, func(x *cx) proto.Message {
		return &schema.LoadDatabaseRequest{Database: x.target}
	}).onTarget(pAdmin).lateBy(3).withPrep(func(x *cx) { x.ensureUnloaded(x.target) }).withCleanup(func(x *cx) { x.restoreDB(x.target) })
	m[svcI+"DeleteDatabase"] = u(svcI+"DeleteDatabase", clAdmin, roleAdmin, func(x *cx) proto.Message {
		return &schema.DeleteDatabaseRequest{Database: x.target}
	}).onTarget(pAdmin).lateBy(4).touchesUser().withPrep(func(x *cx) {
		// a deleted database name cannot be re-created on the same server: the call is aimed at a scratch
		// database on which the user holds the same permission as on db1 (own) or none (other)
		if x.target == sysDBn {
			return
		}
		sys := x.e.saCtx(defDBn)
		name := x.e.fresh("vd")
		if _, err := x.e.ic.CreateDatabaseV2(sys, &schema.CreateDatabaseRequest{Name: name, Settings: smallSettings()}); err != nil {
			return
		}
		if x.sel != "other" && x.role >= roleR && x.role <= roleAdmin {
			if _, err := x.e.ic.ChangePermission(sys, &schema.ChangePermissionRequest{Action: schema.PermissionAction_GRANT, Username: x.user, Database: name, Permission: origPermission(x.role)}); err == nil {
				x.extraPerm = map[string]int{name: []int{pNone, pR, pRW, pAdmin}[x.role]}
			}
		}
		x.e.ic.UnloadDatabase(sys, &schema.UnloadDatabaseRequest{Database: name})
		x.target = name
	}).withCleanup(func(x *cx) {
		if strings.HasPrefix(x.target, "vd") {
			x.dropDB(x.target)
		}
	})

	// ---------------------------------------------------------------- SQL
	m[svcI+"SQLExec"] = u(svcI+"SQLExec", clWrite, roleRW, func(x *cx) proto.Message {
		return &schema.SQLExecRequest{Sql: fmt.Sprintf("CREATE TABLE IF NOT EXISTS t(id INTEGER, name VARCHAR[64], PRIMARY KEY id); UPSERT INTO t(id, name) VALUES (%d, 'w-%s');", 10+x.rnd.IntN(50), x.user)}
	})
	m[svcI+"UnarySQLQuery"] = u(svcI+"UnarySQLQuery", clRead, roleR, func(*cx) proto.Message { return &schema.SQLQueryRequest{Sql: "SELECT id, name FROM t"} })
	m[svcI+"ListTables"] = u(svcI+"ListTables", clRead, roleR, empty)
	m[svcI+"DescribeTable"] = u(svcI+"DescribeTable", clRead, roleR, func(*cx) proto.Message { return &schema.Table{TableName: "t"} })
	m[svcI+"VerifiableSQLGet"] = u(svcI+"VerifiableSQLGet", clRead, roleR, func(*cx) proto.Message {
		return &schema.VerifiableSQLGetRequest{SqlGetRequest: &schema.SQLGetRequest{Table: "t", PkValues: []*schema.SQLValue{{Value: &schema.SQLValue_N{N: 1}}}}, ProveSinceTx: 1}
	})
	m[svcI+"SQLQuery"] = &spec{class: clRead, okRole: roleR, run: func(x *cx) error {
		st, err := x.e.ic.SQLQuery(x.ctx(), &schema.SQLQueryRequest{Sql: "SELECT id, name FROM t"})
		if err != nil {
			return err
		}
		return recvAll(x, st.Recv)
	}}

	// ---------------------------------------------------------------- streams
	m[svcI+"streamGet"] = &spec{class: clRead, okRole: roleR, run: func(x *cx) error {
		st, err := x.e.ic.StreamGet(x.ctx(), &schema.KeyRequest{Key: x.key()})
		if err != nil {
			return err
		}
		return recvAll(x, st.Recv)
	}}
	m[svcI+"streamVerifiableGet"] = &spec{class: clRead, okRole: roleR, run: func(x *cx) error {
		st, err := x.e.ic.StreamVerifiableGet(x.ctx(), &schema.VerifiableGetRequest{KeyRequest: &schema.KeyRequest{Key: x.key()}, ProveSinceTx: 1})
		if err != nil {
			return err
		}
		return recvAll(x, st.Recv)
	}}
	m[svcI+"streamScan"] = &spec{class: clRead, okRole: roleR, run: func(x *cx) error {
		st, err := x.e.ic.StreamScan(x.ctx(), &schema.ScanRequest{Prefix: []byte("k"), Limit: 10})
		if err != nil {
			return err
		}
		return recvAll(x, st.Recv)
	}}
	m[svcI+"streamZScan"] = &spec{class: clRead, okRole: roleR, run: func(x *cx) error {
		st, err := x.e.ic.StreamZScan(x.ctx(), &schema.ZScanRequest{Set: []byte("zs"), Limit: 5})
		if err != nil {
			return err
		}
		return recvAll(x, st.Recv)
	}}
	m[svcI+"streamHistory"] = &spec{class: clRead, okRole: roleR, run: func(x *cx) error {
		st, err := x.e.ic.StreamHistory(x.ctx(), &schema.HistoryRequest{Key: x.key(), Limit: 5})
		if err != nil {
			return err
		}
		return recvAll(x, st.Recv)
	}}
	m[svcI+"streamSet"] = &spec{class: clWrite, okRole: roleRW, run: func(x *cx) error {
		st, err := x.e.ic.StreamSet(x.ctx())
		if err != nil {
			return err
		}
		f := stream.NewStreamServiceFactory(stream.DefaultChunkSize)
		if err := f.NewKvStreamSender(f.NewMsgSender(st)).Send(kvOf([]byte("w3"), x.val())); err != nil && err != io.EOF {
			return err
		}
		r, err := st.CloseAndRecv()
		if err == nil {
			x.keep(r)
		}
		return err
	}}
	m[svcI+"streamVerifiableSet"] = &spec{class: clWrite, okRole: roleRW, run: func(x *cx) error {
		st, err := x.e.ic.StreamVerifiableSet(x.ctx())
		if err != nil {
			return err
		}
		f := stream.NewStreamServiceFactory(stream.DefaultChunkSize)
		ss := f.NewMsgSender(st)
		since, _ := stream.NumberToBytes(uint64(1))
		if err := ss.Send(bytes.NewBuffer(since), len(since), nil); err != nil && err != io.EOF {
			return err
		}
		if err := f.NewKvStreamSender(ss).Send(kvOf([]byte("w4"), x.val())); err != nil && err != io.EOF {
			return err
		}
		r, err := st.CloseAndRecv()
		if err == nil {
			x.keep(r)
		}
		return err
	}}
	m[svcI+"streamExecAll"] = &spec{class: clWrite, okRole: roleRW, run: func(x *cx) error {
		st, err := x.e.ic.StreamExecAll(x.ctx())
		if err != nil {
			return err
		}
		f := stream.NewStreamServiceFactory(stream.DefaultChunkSize)
		req := &stream.ExecAllRequest{Operations: []*stream.Op{{Operation: &stream.Op_KeyValue{KeyValue: kvOf([]byte("w5"), x.val())}}}}
		if err := f.NewExecAllStreamSender(f.NewMsgSender(st)).Send(req); err != nil && err != io.EOF {
			return err
		}
		r, err := st.CloseAndRecv()
		if err == nil {
			x.keep(r)
		}
		return err
	}}
	// replication feed: raw transactions of the selected database (values included)
	m[svcI+"exportTx"] = &spec{class: clRead, okRole: roleAdmin, run: func(x *cx) error {
		st, err := x.e.ic.ExportTx(x.ctx(), &schema.ExportTxRequest{Tx: 1})
		if err != nil {
			return err
		}
		return recvAll(x, st.Recv)
	}}
	m[svcI+"streamExportTx"] = &spec{class: clRead, okRole: roleAdmin, run: func(x *cx) error {
		st, err := x.e.ic.StreamExportTx(x.ctx())
		if err != nil {
			return err
		}
		if err := st.Send(&schema.ExportTxRequest{Tx: 1}); err != nil && err != io.EOF {
			return err
		}
		// one exported transaction: chunks until the payload is complete; read the first chunk then stop
		c, err := st.Recv()
		if err != nil {
			return err
		}
		x.keep(c)
		st.CloseSend()
		for i := 0; i < 256; i++ {
			c, err := st.Recv()
			if err != nil {
				break
			}
			x.keep(c)
		}
		return nil
	}}
	m[svcI+"replicateTx"] = &spec{class: clWrite, okRole: -1, run: func(x *cx) error {
		st, err := x.e.ic.ReplicateTx(x.ctx())
		if err != nil {
			return err
		}
		// an exported transaction of db1 (taken with the sysadmin handle) is offered to the selected database
		payload := x.e.exported()
		f := stream.NewStreamServiceFactory(stream.DefaultChunkSize)
		if err := f.NewMsgSender(st).Send(bytes.NewReader(payload), len(payload), nil); err != nil && err != io.EOF {
			return err
		}
		r, err := st.CloseAndRecv()
		if err == nil {
			x.keep(r)
		}
		return err
	}}

	// ---------------------------------------------------------------- documents
	m[svcD+"CreateCollection"] = u(svcD+"CreateCollection", clWrite, roleRW, func(x *cx) proto.Message {
		name := x.e.fresh("nc")
		if x.sel == "system" {
			// collection "c" is planted in every data database but not in systemdb: asking for it here lets the
			// other document RPCs of the same row find it if (and only if) this call manages to write systemdb
			name = "c"
		}
		return &protomodel.CreateCollectionRequest{Name: name, Fields: []*protomodel.Field{{Name: "name", Type: protomodel.FieldType_STRING}, {Name: "n", Type: protomodel.FieldType_INTEGER}}}
	}).lateBy(-1)
	m[svcD+"UpdateCollection"] = u(svcD+"UpdateCollection", clWrite, roleRW, func(x *cx) proto.Message {
		return &protomodel.UpdateCollectionRequest{Name: "cu", DocumentIdFieldName: x.e.fresh("id")}
	}).withPrep(func(x *cx) {
		onAllDBs(x, func(ctx context.Context, db string) {
			x.e.dc.CreateCollection(ctx, &protomodel.CreateCollectionRequest{Name: "cu"})
		})
	})
	m[svcD+"DeleteCollection"] = u(svcD+"DeleteCollection", clWrite, roleRW, func(x *cx) proto.Message {
		return &protomodel.DeleteCollectionRequest{Name: "cdel"}
	}).withPrep(func(x *cx) {
		onAllDBs(x, func(ctx context.Context, db string) {
			x.e.dc.CreateCollection(ctx, &protomodel.CreateCollectionRequest{Name: "cdel"})
		})
	})
	m[svcD+"AddField"] = u(svcD+"AddField", clWrite, roleRW, func(x *cx) proto.Message {
		return &protomodel.AddFieldRequest{CollectionName: "c", Field: &protomodel.Field{Name: x.e.fresh("f"), Type: protomodel.FieldType_INTEGER}}
	})
	m[svcD+"RemoveField"] = u(svcD+"RemoveField", clWrite, roleRW, func(x *cx) proto.Message {
		return &protomodel.RemoveFieldRequest{CollectionName: "c", FieldName: "frem"}
	}).withPrep(func(x *cx) {
		onAllDBs(x, func(ctx context.Context, db string) {
			x.e.dc.AddField(ctx, &protomodel.AddFieldRequest{CollectionName: "c", Field: &protomodel.Field{Name: "frem", Type: protomodel.FieldType_INTEGER}})
		})
	})
	m[svcD+"CreateIndex"] = u(svcD+"CreateIndex", clWrite, roleRW, func(x *cx) proto.Message {
		return &protomodel.CreateIndexRequest{CollectionName: "c", Fields: []string{"n"}}
	}).withPrep(func(x *cx) {
		onAllDBs(x, func(ctx context.Context, db string) {
			x.e.dc.DeleteIndex(ctx, &protomodel.DeleteIndexRequest{CollectionName: "c", Fields: []string{"n"}})
		})
	})
	m[svcD+"DeleteIndex"] = u(svcD+"DeleteIndex", clWrite, roleRW, func(x *cx) proto.Message {
		return &protomodel.DeleteIndexRequest{CollectionName: "c", Fields: []string{"n"}}
	}).withPrep(func(x *cx) {
		onAllDBs(x, func(ctx context.Context, db string) {
			x.e.dc.CreateIndex(ctx, &protomodel.CreateIndexRequest{CollectionName: "c", Fields: []string{"n"}})
		})
	})
	m[svcD+"InsertDocuments"] = u(svcD+"InsertDocuments", clWrite, roleRW, func(x *cx) proto.Message {
		d, _ := structpb.NewStruct(map[string]any{"name": "ins-" + x.user, "n": x.rnd.IntN(1000)})
		return &protomodel.InsertDocumentsRequest{CollectionName: "c", Documents: []*structpb.Struct{d}}
	})
	m[svcD+"ReplaceDocuments"] = u(svcD+"ReplaceDocuments", clWrite, roleRW, func(x *cx) proto.Message {
		d, _ := structpb.NewStruct(map[string]any{"name": "rep", "n": x.rnd.IntN(1000)})
		return &protomodel.ReplaceDocumentsRequest{Query: nameQuery("c", "rep"), Document: d}
	}).withPrep(func(x *cx) {
		onAllDBs(x, func(ctx context.Context, db string) {
			if r, err := x.e.dc.CountDocuments(ctx, &protomodel.CountDocumentsRequest{Query: nameQuery("c", "rep")}); err == nil && r.Count == 0 {
				d, _ := structpb.NewStruct(map[string]any{"name": "rep", "n": 0})
				x.e.dc.InsertDocuments(ctx, &protomodel.InsertDocumentsRequest{CollectionName: "c", Documents: []*structpb.Struct{d}})
			}
		})
	})
	m[svcD+"DeleteDocuments"] = u(svcD+"DeleteDocuments", clWrite, roleRW, func(x *cx) proto.Message {
		q := nameQuery("c", "tmp")
		q.Limit = 1
		return &protomodel.DeleteDocumentsRequest{Query: q}
	}).withPrep(func(x *cx) {
		onAllDBs(x, func(ctx context.Context, db string) {
			if r, err := x.e.dc.CountDocuments(ctx, &protomodel.CountDocumentsRequest{Query: nameQuery("c", "tmp")}); err == nil && r.Count == 0 {
				d, _ := structpb.NewStruct(map[string]any{"name": "tmp", "n": 0})
				x.e.dc.InsertDocuments(ctx, &protomodel.InsertDocumentsRequest{CollectionName: "c", Documents: []*structpb.Struct{d}})
			}
		})
	})
	m[svcD+"GetCollection"] = u(svcD+"GetCollection", clRead, roleR, func(*cx) proto.Message { return &protomodel.GetCollectionRequest{Name: "c"} })
	m[svcD+"GetCollections"] = u(svcD+"GetCollections", clRead, roleR, func(*cx) proto.Message { return &protomodel.GetCollectionsRequest{} })
	m[svcD+"SearchDocuments"] = u(svcD+"SearchDocuments", clRead, roleR, func(*cx) proto.Message {
		return &protomodel.SearchDocumentsRequest{Query: &protomodel.Query{CollectionName: "c"}, Page: 1, PageSize: 10}
	}).sess()
	m[svcD+"CountDocuments"] = u(svcD+"CountDocuments", clRead, roleR, func(*cx) proto.Message {
		return &protomodel.CountDocumentsRequest{Query: &protomodel.Query{CollectionName: "c"}}
	})
	// the planted document ids differ per database: the id of the database that serves the call is not
	// known to the caller, so every planted id is tried in turn by the builder (first success wins)
	m[svcD+"AuditDocument"] = &spec{class: clRead, okRole: roleR, run: func(x *cx) error {
		var last error
		for _, db := range dataDBs {
			_, err := x.unary(svcD+"AuditDocument", &protomodel.AuditDocumentRequest{CollectionName: "c", DocumentId: x.e.docID[db], Page: 1, PageSize: 5})
			if err == nil {
				return nil
			}
			last = err
		}
		return last
	}}
	m[svcD+"ProofDocument"] = &spec{class: clRead, okRole: roleR, run: func(x *cx) error {
		var last error
		for _, db := range dataDBs {
			_, err := x.unary(svcD+"ProofDocument", &protomodel.ProofDocumentRequest{CollectionName: "c", DocumentId: x.e.docID[db]})
			if err == nil {
				return nil
			}
			last = err
		}
		return last
	}}
	return m
}

func smallSettings() *schema.DatabaseNullableSettings {
	return &schema.DatabaseNullableSettings{
		MaxTxEntries:   &schema.NullableUint32{Value: 64},
		ReadTxPoolSize: &schema.NullableUint32{Value: 2},
		MaxConcurrency: &schema.NullableUint32{Value: 4},
	}
}

func pwOf(role int) string {
	if role == roleSys {
		return sysPw
	}
	return userPw
}

// exported returns one exported transaction of db1 taken with the sysadmin handle.
func (e *env) exported() []byte {
	st, err := e.ic.ExportTx(e.saCtx("db1"), &schema.ExportTxRequest{Tx: 1})
	if err != nil {
		return []byte{0}
	}
	f := stream.NewStreamServiceFactory(stream.DefaultChunkSize)
	r, _, err := f.NewMsgReceiver(st).ReadFully()
	if err != nil || len(r) == 0 {
		return []byte{0}
	}
	return r
}
