package c06

import (
	"context"
	"encoding/binary"
	"errors"
	"fmt"
	"math/rand/v2"
	"sync"
	"sync/atomic"
	"time"

	"github.com/codenotary/immudb/embedded/store"
	"github.com/codenotary/immudb/pkg/api/schema"
	"github.com/codenotary/immudb/pkg/database"

	"verifharness/internal/fw"
)

// ent is one entry of a read result, reduced to what the oracle compares.
type ent struct {
	Key  string `json:"key"`
	Tx   uint64 `json:"tx"`
	Val  string `json:"val,omitempty"`
	Rev  uint64 `json:"rev,omitempty"`
	Del  bool   `json:"del,omitempty"` // History only
	RefK string `json:"refKey,omitempty"`
	RefT uint64 `json:"refTx,omitempty"`
	RefR uint64 `json:"refRev,omitempty"`
	RefA uint64 `json:"refAtTx,omitempty"`
	// ZScan only
	Score float64 `json:"score,omitempty"`
	ZAtTx uint64  `json:"zAtTx,omitempty"`
}

// error classes
const (
	eNone     = ""
	ePrecond  = "precondition-failed"
	eNotFound = "key-not-found"
	eConflict = "read-conflict"
	eInvRev   = "invalid-revision"
	eNoMore   = "no-more-entries"
	eTimeout  = "timeout"
	eOther    = "other"
)

// rec is one operation of the recorded history.
type rec struct {
	ID     int    `json:"id"`
	Client int    `json:"client"`
	Op     progOp `json:"op"`
	Call   int64  `json:"call"`  // ticket taken before invoking
	Ret    int64  `json:"ret"`   // ticket taken after the reply (open operations: end of round)
	Lo     uint64 `json:"lo"`    // committed frontier known before the call (commit notes and acknowledgements)
	AckLo  uint64 `json:"ackLo"` // greatest tx id acknowledged to any client before the call
	Hi     uint64 `json:"hi"`    // greatest tx id issued before the return
	Open   bool   `json:"open,omitempty"`
	Class  string `json:"class,omitempty"`
	Err    string `json:"err,omitempty"`
	TxID   uint64 `json:"txid,omitempty"`
	Ents   []ent  `json:"ents,omitempty"`
	Count  uint64 `json:"count,omitempty"`
	// set by the resolution step
	Effective bool `json:"effective,omitempty"` // a write that took effect (TxID is its position)
}

func isWrite(kind string) bool {
	switch kind {
	case kSet, kSetN, kCSet, kDel, kExec, kSetRef, kZAdd:
		return true
	}
	return false
}

func classify(err error) string {
	switch {
	case err == nil:
		return eNone
	case errors.Is(err, store.ErrPreconditionFailed):
		return ePrecond
	case errors.Is(err, store.ErrKeyNotFound):
		return eNotFound
	case errors.Is(err, store.ErrTxReadConflict):
		return eConflict
	case errors.Is(err, database.ErrInvalidRevision):
		return eInvRev
	case errors.Is(err, store.ErrNoMoreEntries):
		return eNoMore
	case errors.Is(err, context.DeadlineExceeded), errors.Is(err, context.Canceled):
		return eTimeout
	}
	return eOther
}

func atomicMax(a *atomic.Uint64, v uint64) {
	for {
		old := a.Load()
		if v <= old || a.CompareAndSwap(old, v) {
			return
		}
	}
}

// opTimeout is a generous per-operation limit (operations take well under a millisecond of work);
// its firing decides nothing: the operation stays open and the round is reported inconclusive.
const opTimeout = 60 * time.Second

type runner struct {
	c  *fw.Ctx
	db database.DB

	ticket    atomic.Int64
	committed atomic.Uint64 // commit notes and acknowledgements
	acked     atomic.Uint64
	issued    atomic.Uint64
	timeouts  atomic.Int64
	otherErrs atomic.Int64
}

type client struct {
	id      int
	ownW    map[string]uint64 // tx of this client's last acknowledged plain write per key
	seen    map[string]uint64 // last tx this client was shown for a key (own writes and reads)
	lastAck uint64
	base    uint64
}

func newClient(id int, base uint64) *client {
	return &client{id: id, ownW: map[string]uint64{}, seen: map[string]uint64{}, base: base}
}

func entFrom(e *schema.Entry) ent {
	x := ent{Key: string(e.Key), Tx: e.Tx, Val: string(e.Value), Rev: e.Revision}
	if rb := e.ReferencedBy; rb != nil {
		x.RefK, x.RefT, x.RefR, x.RefA = string(rb.Key), rb.Tx, rb.Revision, rb.AtTx
	}
	return x
}

func refString(target string, atTx uint64) string { return fmt.Sprintf("ref:%s@%d", target, atTx) }

// histEnt converts one History entry; values of reference keys are decoded to "ref:<target>@<atTx>".
func histEnt(key string, isRef bool, e *schema.Entry) ent {
	x := ent{Key: key, Tx: e.Tx, Rev: e.Revision, Del: e.Metadata != nil && e.Metadata.Deleted}
	if x.Del {
		return x
	}
	if isRef && len(e.Value) >= 9 {
		x.Val = refString(string(e.Value[9:]), binary.BigEndian.Uint64(e.Value[:8]))
	} else {
		x.Val = string(e.Value)
	}
	return x
}

func pcProto(p precond) *schema.Precondition {
	switch p.Kind {
	case pcExist:
		return schema.PreconditionKeyMustExist([]byte(p.Key))
	case pcNotExist:
		return schema.PreconditionKeyMustNotExist([]byte(p.Key))
	}
	return schema.PreconditionKeyNotModifiedAfterTX([]byte(p.Key), p.Tx)
}

func nz(x, def uint64) uint64 {
	if x == 0 {
		return def
	}
	return x
}

// resolve fills the run-time parts of an operation from what the client was told so far.
func (cl *client) resolve(op progOp) progOp {
	one := nz(cl.base, 1)
	if len(op.Pre) > 0 {
		pre := make([]precond, len(op.Pre))
		copy(pre, op.Pre)
		for i := range pre {
			if pre[i].Kind == pcNotMod {
				pre[i].Tx = nz(cl.seen[pre[i].Key], one)
			}
		}
		op.Pre = pre
	}
	switch op.Kind {
	case kGetSince:
		op.SinceTx = nz(cl.lastAck, cl.base)
		if op.SinceTx == 0 {
			op.Kind, op.Since = kGet, false
		}
	case kGetAll, kScan:
		if op.Since {
			op.SinceTx = nz(cl.lastAck, cl.base)
			op.Since = op.SinceTx > 0
		}
	case kGetAtTx:
		k := op.Keys[0]
		if op.MissKey {
			// a tx of this client that wrote another key
			for k2, t := range cl.ownW {
				if k2 != k && (op.AtTx == 0 || t < op.AtTx || (t == op.AtTx && k2 < k)) {
					op.AtTx = t
				}
			}
			if op.AtTx != 0 && cl.ownW[k] == op.AtTx {
				op.MissKey = false // a multi-key write of ours wrote both
			}
		} else {
			op.AtTx = cl.ownW[k]
		}
		if op.AtTx == 0 {
			op.Kind, op.MissKey = kGet, false
		}
	case kSetRef:
		if op.Bound {
			op.AtTx = cl.ownW[op.RefTarget]
			op.Bound = op.AtTx > 0
		}
	case kZAdd:
		if op.Bound {
			op.AtTx = cl.ownW[op.ZKey]
			op.Bound = op.AtTx > 0
		}
	}
	return op
}

func (rn *runner) invoke(ctx context.Context, op progOp, refKeys map[string]bool, rc *rec) error {
	db := rn.db
	kvs := func() []*schema.KeyValue {
		out := make([]*schema.KeyValue, len(op.Keys))
		for i, k := range op.Keys {
			out[i] = &schema.KeyValue{Key: []byte(k), Value: []byte(op.Vals[i])}
		}
		return out
	}
	pcs := func() []*schema.Precondition {
		var out []*schema.Precondition
		for _, p := range op.Pre {
			out = append(out, pcProto(p))
		}
		return out
	}
	var hdr *schema.TxHeader
	var err error
	switch op.Kind {
	case kSet, kSetN, kCSet:
		hdr, err = db.Set(ctx, &schema.SetRequest{KVs: kvs(), Preconditions: pcs()})
	case kDel:
		keys := make([][]byte, len(op.Keys))
		for i, k := range op.Keys {
			keys[i] = []byte(k)
		}
		hdr, err = db.Delete(ctx, &schema.DeleteKeysRequest{Keys: keys})
	case kExec:
		var ops []*schema.Op
		for _, kv := range kvs() {
			ops = append(ops, &schema.Op{Operation: &schema.Op_Kv{Kv: kv}})
		}
		if op.RefKey != "" {
			ops = append(ops, &schema.Op{Operation: &schema.Op_Ref{Ref: &schema.ReferenceRequest{Key: []byte(op.RefKey), ReferencedKey: []byte(op.RefTarget)}}})
		}
		if op.ZSet != "" {
			ops = append(ops, &schema.Op{Operation: &schema.Op_ZAdd{ZAdd: &schema.ZAddRequest{Set: []byte(op.ZSet), Score: op.Score, Key: []byte(op.ZKey)}}})
		}
		hdr, err = db.ExecAll(ctx, &schema.ExecAllRequest{Operations: ops, Preconditions: pcs()})
	case kSetRef:
		hdr, err = db.SetReference(ctx, &schema.ReferenceRequest{Key: []byte(op.RefKey), ReferencedKey: []byte(op.RefTarget), AtTx: op.AtTx, BoundRef: op.Bound})
	case kZAdd:
		hdr, err = db.ZAdd(ctx, &schema.ZAddRequest{Set: []byte(op.ZSet), Score: op.Score, Key: []byte(op.ZKey), AtTx: op.AtTx, BoundRef: op.Bound})
	case kGet, kGetSince, kGetAtTx, kGetAtRev:
		req := &schema.KeyRequest{Key: []byte(op.Keys[0]), SinceTx: op.SinceTx, AtRevision: op.AtRev}
		if op.Kind == kGetAtTx {
			req.AtTx = op.AtTx
			if op.MissKey {
				// the key asked for is Keys[0]; AtTx names a tx that wrote another key
			}
		}
		var e *schema.Entry
		e, err = db.Get(ctx, req)
		if err == nil {
			rc.Ents = []ent{entFrom(e)}
		}
	case kGetAll:
		keys := make([][]byte, len(op.Keys))
		for i, k := range op.Keys {
			keys[i] = []byte(k)
		}
		var es *schema.Entries
		es, err = db.GetAll(ctx, &schema.KeyListRequest{Keys: keys, SinceTx: op.SinceTx})
		if err == nil {
			for _, e := range es.Entries {
				rc.Ents = append(rc.Ents, entFrom(e))
			}
		}
	case kScan:
		var es *schema.Entries
		es, err = db.Scan(ctx, &schema.ScanRequest{Prefix: []byte(op.Prefix), Desc: op.Desc, Limit: op.Limit, SeekKey: []byte(op.Seek), InclusiveSeek: op.InclSeek, SinceTx: op.SinceTx})
		if err == nil {
			for _, e := range es.Entries {
				rc.Ents = append(rc.Ents, entFrom(e))
			}
		}
	case kZScan:
		req := &schema.ZScanRequest{Set: []byte(op.ZSet), Desc: op.Desc}
		if op.MinScore != nil {
			req.MinScore = &schema.Score{Score: *op.MinScore}
		}
		if op.MaxScore != nil {
			req.MaxScore = &schema.Score{Score: *op.MaxScore}
		}
		var zs *schema.ZEntries
		zs, err = db.ZScan(ctx, req)
		if err == nil {
			for _, z := range zs.Entries {
				x := entFrom(z.Entry)
				x.Score, x.ZAtTx = z.Score, z.AtTx
				if string(z.Key) != x.Key {
					x.Key = string(z.Key) + "!=" + x.Key // never expected: makes the comparison fail visibly
				}
				rc.Ents = append(rc.Ents, x)
			}
		}
	case kHist:
		var es *schema.Entries
		es, err = db.History(ctx, &schema.HistoryRequest{Key: []byte(op.Keys[0]), Offset: op.Offset, Limit: int32(op.Limit), Desc: op.Desc})
		if err == nil {
			for _, e := range es.Entries {
				rc.Ents = append(rc.Ents, histEnt(op.Keys[0], refKeys[op.Keys[0]], e))
			}
		}
	case kCount:
		var n *schema.EntryCount
		n, err = db.Count(ctx, &schema.KeyPrefix{Prefix: []byte(op.Prefix)})
		if err == nil {
			rc.Count = n.Count
		}
	default:
		panic("c06: unknown op kind " + op.Kind)
	}
	if hdr != nil {
		rc.TxID = hdr.Id
	}
	return err
}

// do executes one operation for a client: tickets and frontiers are taken at the client boundary.
func (rn *runner) do(cl *client, op progOp, refKeys map[string]bool) *rec {
	op = cl.resolve(op)
	rc := &rec{Client: cl.id, Op: op}
	ctx, cancel := context.WithTimeout(context.Background(), opTimeout)
	defer cancel()

	rc.Call = rn.ticket.Add(1)
	rc.Lo = rn.committed.Load()
	rc.AckLo = rn.acked.Load()

	err := rn.invoke(ctx, op, refKeys, rc)

	if err == nil && rc.TxID > 0 {
		// an acknowledged write is committed: whatever starts from now on must see it
		atomicMax(&rn.acked, rc.TxID)
		atomicMax(&rn.committed, rc.TxID)
		atomicMax(&rn.issued, rc.TxID)
	}
	rc.Hi = rn.issued.Load()
	rc.Ret = rn.ticket.Add(1)

	rc.Class = classify(err)
	if err != nil {
		rc.Err = err.Error()
		rc.Ents, rc.TxID = nil, 0
	}
	if isWrite(op.Kind) {
		switch rc.Class {
		case eNone:
			rc.Effective = true
		case ePrecond, eNotFound, eConflict:
			// definite refusals (verified against the final histories)
		default:
			rc.Open = true
		}
	} else if rc.Class == eTimeout || rc.Class == eOther {
		rc.Open = true
	}
	if rc.Class == eTimeout {
		rn.timeouts.Add(1)
	} else if rc.Class == eOther {
		rn.otherErrs.Add(1)
		rn.c.Note(fmt.Sprintf("%s returned an error outside the documented outcomes: %v", op.Kind, err))
	}

	// what the client learnt
	if rc.Effective {
		cl.lastAck = rc.TxID
		for _, k := range op.Keys {
			cl.seen[k] = rc.TxID
			if op.Kind != kDel {
				cl.ownW[k] = rc.TxID
			} else {
				delete(cl.ownW, k)
			}
		}
	}
	if !isWrite(op.Kind) && op.Kind != kHist {
		for _, e := range rc.Ents {
			if e.RefA == 0 && e.ZAtTx == 0 {
				cl.seen[e.Key] = e.Tx
			}
		}
	}
	return rc
}

// roundResult is everything the oracles need about one round.
type roundResult struct {
	Plan  *roundPlan
	Base  uint64 // last tx id before the round
	Last  uint64 // last tx id after the round (quiescent)
	Recs  []*rec
	Final map[string][]ent // final History of every plain and reference key, ascending
	// broken is set when the quiescent state could not be collected
	Broken string
	// call tickets of the CompactIndex calls made during the round
	Compactions []int64
}

func (rn *runner) history(key string, isRef bool) ([]ent, error) {
	ctx, cancel := context.WithTimeout(context.Background(), opTimeout)
	defer cancel()
	es, err := rn.db.History(ctx, &schema.HistoryRequest{Key: []byte(key)})
	if err != nil {
		if errors.Is(err, store.ErrKeyNotFound) {
			return nil, nil
		}
		return nil, err
	}
	var out []ent
	for _, e := range es.Entries {
		out = append(out, histEnt(key, isRef, e))
	}
	return out, nil
}

func (rn *runner) runRound(pl *roundPlan, seed int64, caseIdx int, compaction bool) *roundResult {
	res := &roundResult{Plan: pl, Final: map[string][]ent{}}
	st, err := rn.db.CurrentState()
	if err != nil {
		res.Broken = "CurrentState: " + err.Error()
		return res
	}
	res.Base = st.TxId
	atomicMax(&rn.committed, res.Base)
	atomicMax(&rn.issued, res.Base)
	refKeys := map[string]bool{}
	for _, k := range pl.Refs {
		refKeys[k] = true
	}

	nc := len(pl.Clients)
	// prologue: sequential writes by an extra client
	pro := newClient(nc, res.Base)
	for _, op := range pl.Prologue {
		res.Recs = append(res.Recs, rn.do(pro, op, refKeys))
	}

	var mu sync.Mutex
	var wg sync.WaitGroup
	start := make(chan struct{})
	var stopAll atomic.Bool
	for ci := 0; ci < nc; ci++ {
		wg.Add(1)
		go func(ci int) {
			defer wg.Done()
			cl := newClient(ci, res.Base)
			var mine []*rec
			<-start
			for _, op := range pl.Clients[ci] {
				if stopAll.Load() {
					break
				}
				rc := rn.do(cl, op, refKeys)
				mine = append(mine, rc)
				if rc.Class == eTimeout {
					stopAll.Store(true) // the database stopped making progress: end the round
				}
			}
			mu.Lock()
			res.Recs = append(res.Recs, mine...)
			mu.Unlock()
		}(ci)
	}
	// maintenance: flushes and compactions interleaved with the clients
	stop := make(chan struct{})
	var bg sync.WaitGroup
	bg.Add(1)
	go func() {
		defer bg.Done()
		r := fw.NewRand(seed, fmt.Sprintf("c06/case%d/round%d/maint", caseIdx, pl.Round))
		for {
			select {
			case <-stop:
				return
			default:
			}
			var err error
			if compaction && r.IntN(5) == 0 {
				t := rn.ticket.Add(1)
				err = rn.db.CompactIndex()
				rn.c.Count("compactions", 1)
				// recorded whatever it returned: CompactIndexes stops at the first indexer that
				// reports an error (e.g. threshold not reached) after having swapped earlier ones
				mu.Lock()
				res.Compactions = append(res.Compactions, t)
				mu.Unlock()
			} else {
				err = rn.db.FlushIndex(&schema.FlushIndexRequest{CleanupPercentage: pick(r, []float32{0, 0, 10, 50, 100}), Synced: r.IntN(8) == 0})
				rn.c.Count("flushes", 1)
			}
			if err != nil {
				rn.c.Count("maintenance_errors", 1)
			}
			time.Sleep(time.Duration(1000+r.IntN(5000)) * time.Microsecond)
		}
	}()
	close(start)
	wg.Wait()
	close(stop)
	bg.Wait()

	// quiescence: everything precommitted becomes committed (synced stores commit asynchronously)
	ok := false
	for i := 0; i < 20000; i++ {
		st, err = rn.db.CurrentState()
		if err == nil && st.TxId == st.PrecommittedTxId {
			ok = true
			break
		}
		time.Sleep(500 * time.Microsecond)
	}
	if !ok {
		res.Broken = "the committed frontier did not reach the precommitted one"
		return res
	}
	res.Last = st.TxId
	atomicMax(&rn.committed, res.Last)
	atomicMax(&rn.issued, res.Last)

	// epilogue: quiescent reads, judged like any other read (their interval is a single point)
	epi := newClient(nc+1, res.Base)
	var eops []progOp
	eops = append(eops, progOp{Kind: kScan, Prefix: pl.Prefix}, progOp{Kind: kGetAll, Keys: append(append([]string{}, pl.Plain...), pl.Refs...)},
		progOp{Kind: kCount, Prefix: pl.Prefix})
	for _, z := range pl.ZSets {
		eops = append(eops, progOp{Kind: kZScan, ZSet: z})
	}
	for _, op := range eops {
		res.Recs = append(res.Recs, rn.do(epi, op, refKeys))
	}
	for _, k := range append(append([]string{}, pl.Plain...), pl.Refs...) {
		h, err := rn.history(k, refKeys[k])
		if err != nil {
			res.Broken = fmt.Sprintf("final History(%s): %v", k, err)
			return res
		}
		res.Final[k] = h
	}
	endTicket := rn.ticket.Add(1)
	for i, rc := range res.Recs {
		rc.ID = i
		if rc.Open {
			rc.Ret = endTicket
			rc.Hi = res.Last
		}
	}
	return res
}

var _ = rand.IntN
