package c06

import (
	"encoding/json"
	"fmt"
	"sort"
	"strings"

	"verifharness/internal/fw"
)

type checker struct {
	c       *fw.Ctx
	res     *roundResult
	m       *model
	refKeys map[string]bool
	cfg     string
	histJS  []byte
	// call tickets of the CompactIndex calls made so far in this case
	compactions []int64
}

func (ck *checker) viol(sig, detail string, rc *rec) { ck.violX(sig, detail, rc, nil) }

func (ck *checker) violX(sig, detail string, rc *rec, extra map[string][]byte) {
	if ck.histJS == nil {
		ck.histJS, _ = json.Marshal(map[string]any{"config": ck.cfg, "prefix": ck.res.Plan.Prefix, "base": ck.res.Base, "last": ck.res.Last,
			"history": ck.res.Recs, "final": ck.res.Final})
		if len(ck.histJS) > 1<<20 {
			ck.histJS = ck.histJS[:1<<20]
		}
	}
	// Cases that run CompactIndex: once a compaction was started, the index may have gone
	// back in time (stale reads, stale precondition checks) or lack entries; that defect has its own
	// two signatures, since its symptoms cannot be told apart from here. The original signature stays
	// in the detail.
	for _, t := range ck.compactions {
		if rc == nil || t < rc.Ret {
			switch {
			case strings.HasPrefix(sig, "read/"), strings.HasPrefix(sig, "cond/"), strings.HasPrefix(sig, "porcupine/"):
				detail = "(" + sig + ") " + detail
				sig = "after-compaction/index-went-back-in-time"
			case strings.HasPrefix(sig, "final-history/"), strings.HasPrefix(sig, "write/acknowledged-but-absent"), strings.HasPrefix(sig, "write/partially-applied"):
				detail = "(" + sig + ") " + detail
				sig = "after-compaction/index-entries-missing"
			}
			break
		}
	}
	files := map[string][]byte{"round.json": ck.histJS}
	for k, v := range extra {
		files[k] = v
	}
	if rc != nil {
		b, _ := json.MarshalIndent(rc, "", " ")
		files["operation.json"] = b
		detail = fmt.Sprintf("%s | op#%d client %d tickets [%d,%d] window S[%d..%d]", detail, rc.ID, rc.Client, rc.Call, rc.Ret, rc.Lo, rc.Hi)
	}
	ck.c.Violation(sig, fmt.Sprintf("[%s round %d] %s", ck.cfg, ck.res.Plan.Round, detail), files)
}

// resolve decides, from the final histories, which writes took effect and where; it returns a
// reason when the round cannot be judged (an open write without unique values).
func (ck *checker) resolve() (inconclusive string) {
	res := ck.res
	type where struct {
		key string
		tx  uint64
	}
	valAt := map[string]where{}
	for k, h := range res.Final {
		for _, e := range h {
			if !e.Del && !ck.refKeys[k] {
				valAt[e.Val] = where{k, e.Tx}
			}
		}
	}
	for _, rc := range res.Recs {
		if !isWrite(rc.Op.Kind) {
			continue
		}
		op := rc.Op
		found, txs := 0, map[uint64]bool{}
		for i, v := range op.Vals {
			if w, ok := valAt[v]; ok && w.key == op.Keys[i] {
				found++
				txs[w.tx] = true
			}
		}
		switch {
		case rc.Effective:
			for i, v := range op.Vals {
				if w, ok := valAt[v]; !ok || w.tx != rc.TxID || w.key != op.Keys[i] {
					ck.viol("write/acknowledged-but-absent/"+op.Kind, fmt.Sprintf("%s acknowledged with tx %d, but the final history of %s does not hold value %q at that tx", op.Kind, rc.TxID, op.Keys[i], v), rc)
				}
			}
		case !rc.Open:
			if found > 0 {
				ck.viol("write/refused-but-applied/"+op.Kind+"/"+rc.Class, fmt.Sprintf("%s was refused (%s) but %d of its values are in the final histories", op.Kind, rc.Err, found), rc)
			}
		default: // open
			if len(op.Vals) == 0 {
				return fmt.Sprintf("%s ended with %q and carries no unique value: its effect cannot be read back", op.Kind, rc.Err)
			}
			if found == 0 {
				continue // took no effect: drops out of the history
			}
			if found != len(op.Vals) || len(txs) != 1 {
				ck.viol("write/partially-applied/"+op.Kind, fmt.Sprintf("%s ended with %q; %d of %d values are in the final histories, in %d txs", op.Kind, rc.Err, found, len(op.Vals), len(txs)), rc)
				return "partially applied write"
			}
			for t := range txs {
				rc.TxID = t
			}
			rc.Effective = true
			ck.c.Count("open_writes_resolved", 1)
		}
	}
	return ""
}

// build makes the model from the effective writes and cross-checks it with the final histories.
func (ck *checker) build() (inconclusive string) {
	res := ck.res
	m := newModel(res.Base, res.Last)
	owner := map[uint64]*rec{}
	for _, rc := range res.Recs {
		if !rc.Effective {
			continue
		}
		t := rc.TxID
		if t <= res.Base || t > res.Last {
			ck.viol("tx/id-outside-round", fmt.Sprintf("%s acknowledged with tx %d; the round spans (%d,%d]", rc.Op.Kind, t, res.Base, res.Last), rc)
			return "tx id outside the round"
		}
		if o := owner[t]; o != nil {
			ck.viol("tx/assigned-twice", fmt.Sprintf("tx %d was acknowledged to op#%d (%s) and to op#%d (%s)", t, o.ID, o.Op.Kind, rc.ID, rc.Op.Kind), rc)
			return "tx id assigned twice"
		}
		owner[t] = rc
		op := rc.Op
		switch op.Kind {
		case kSet, kSetN, kCSet, kExec:
			for i, k := range op.Keys {
				m.add(k, ver{Tx: t, Val: op.Vals[i]})
			}
			if op.RefKey != "" {
				m.add(op.RefKey, ver{Tx: t, IsRef: true, Target: op.RefTarget})
			}
			if op.ZSet != "" {
				m.z = append(m.z, zent{Set: op.ZSet, Score: op.Score, Key: op.ZKey, Tx: t})
			}
		case kDel:
			for _, k := range op.Keys {
				m.add(k, ver{Tx: t, Del: true})
			}
		case kSetRef:
			m.add(op.RefKey, ver{Tx: t, IsRef: true, Target: op.RefTarget, AtTx: op.AtTx})
		case kZAdd:
			m.z = append(m.z, zent{Set: op.ZSet, Score: op.Score, Key: op.ZKey, AtTx: op.AtTx, Tx: t})
		}
	}
	m.sortAll()
	ck.m = m
	for t := res.Base + 1; t <= res.Last; t++ {
		if owner[t] == nil {
			ck.viol("tx/unaccounted", fmt.Sprintf("tx %d exists although every operation of the round was acknowledged with another id or refused", t), nil)
			return "unaccounted tx"
		}
	}
	// the final histories must be exactly the acknowledged writes, in tx order
	for _, k := range append(append([]string{}, res.Plan.Plain...), res.Plan.Refs...) {
		want, _ := m.history(k, ck.refKeys[k], 0, false, 0, res.Last)
		got := res.Final[k]
		if !entsEq(want, got) {
			ck.viol("final-history/differs-from-acknowledged-writes", fmt.Sprintf("History(%s) at the end: %s; acknowledged writes give %s", k, showEnts(got), showEnts(want)), nil)
			return "final history differs"
		}
		ck.c.Eval(1)
	}
	return ""
}

func showEnts(es []ent) string {
	var sb strings.Builder
	sb.WriteString("[")
	for i, e := range es {
		if i > 0 {
			sb.WriteString(" ")
		}
		if i >= 12 {
			fmt.Fprintf(&sb, "…%d more", len(es)-i)
			break
		}
		switch {
		case e.Del:
			fmt.Fprintf(&sb, "%s@%d:deleted", short(e.Key), e.Tx)
		case e.RefK != "":
			fmt.Fprintf(&sb, "%s@%d=%q(rev %d) via %s@%d(rev %d)", short(e.Key), e.Tx, e.Val, e.Rev, short(e.RefK), e.RefT, e.RefR)
		default:
			fmt.Fprintf(&sb, "%s@%d=%q(rev %d)", short(e.Key), e.Tx, e.Val, e.Rev)
		}
	}
	sb.WriteString("]")
	return sb.String()
}

func short(k string) string {
	if i := strings.LastIndexByte(k, '/'); i >= 0 {
		return k[i+1:]
	}
	return k
}

// readMatches reports whether what the read returned equals the model at S[p].
func (ck *checker) readMatches(rc *rec, p uint64) bool {
	m, op := ck.m, rc.Op
	switch op.Kind {
	case kGet, kGetSince:
		e, ok := m.get(op.Keys[0], p)
		if !ok {
			return rc.Class == eNotFound
		}
		return rc.Class == eNone && len(rc.Ents) == 1 && entEq(e, rc.Ents[0])
	case kGetAtRev:
		e, class := m.getAtRev(op.Keys[0], op.AtRev, p)
		switch class {
		case eNone:
			return rc.Class == eNone && len(rc.Ents) == 1 && entEq(e, rc.Ents[0])
		case "absent":
			return rc.Class == eNotFound || rc.Class == eInvRev
		}
		return rc.Class == class
	case kGetAll:
		var want []ent
		for _, k := range op.Keys {
			if e, ok := m.get(k, p); ok {
				want = append(want, e)
			}
		}
		return rc.Class == eNone && entsEq(want, rc.Ents)
	case kScan:
		return rc.Class == eNone && entsEq(m.scan(op, p), rc.Ents)
	case kZScan:
		return rc.Class == eNone && entsEq(m.zscan(op, p), rc.Ents)
	case kHist:
		want, ok := m.history(op.Keys[0], ck.refKeys[op.Keys[0]], op.Offset, op.Desc, op.Limit, p)
		if !ok {
			return rc.Class == eNotFound || rc.Class == eNoMore || (rc.Class == eNone && len(rc.Ents) == 0)
		}
		return rc.Class == eNone && entsEq(want, rc.Ents)
	case kCount:
		all, live := m.count(op.Prefix, p)
		return rc.Class == eNone && (rc.Count == all || rc.Count == live)
	}
	return true
}

// getRefTwoStates: a Get through a reference that matches no single state but matches the
// reference at S[p1] and the referenced key at S[p2], p1 <= p2 inside the window.
func (ck *checker) getRefTwoStates(rc *rec, lo, hi uint64) bool {
	if rc.Op.Kind != kGet || !ck.refKeys[rc.Op.Keys[0]] || rc.Class != eNone || len(rc.Ents) != 1 {
		return false
	}
	o := rc.Ents[0]
	for p1 := lo; p1 <= hi; p1++ {
		v, n, ok := ck.m.latest(rc.Op.Keys[0], p1)
		if !ok || v.Del || !v.IsRef || v.Tx != o.RefT || uint64(n) != o.RefR || v.Target != o.Key {
			continue
		}
		for p2 := p1; p2 <= hi; p2++ {
			if e, ok := ck.m.resolveVer(rc.Op.Keys[0], v, n, p2); ok && entEq(e, o) {
				return true
			}
		}
	}
	return false
}

func (ck *checker) checkRead(rc *rec) {
	op := rc.Op
	if rc.Open {
		return
	}
	ck.c.Eval(1)
	if op.Kind == kGetAtTx {
		// the entry of exactly that (acknowledged) tx: does not depend on the moment of the read
		v, ok := ck.m.at(op.Keys[0], op.AtTx)
		switch {
		case !ok || v.Del:
			if rc.Class != eNotFound {
				ck.viol("read/getAtTx/entry-not-of-that-tx", fmt.Sprintf("Get(%s, AtTx %d): the tx has no live entry for the key, got %s %s", op.Keys[0], op.AtTx, rc.Class, showEnts(rc.Ents)), rc)
			}
		default:
			if rc.Class != eNone || len(rc.Ents) != 1 || rc.Ents[0].Key != op.Keys[0] || rc.Ents[0].Tx != op.AtTx || rc.Ents[0].Val != v.Val {
				ck.viol("read/getAtTx/acknowledged-write-not-returned", fmt.Sprintf("Get(%s, AtTx %d) must return %q; got %s %s %s", op.Keys[0], op.AtTx, v.Val, rc.Class, rc.Err, showEnts(rc.Ents)), rc)
			}
		}
		return
	}
	lo, hi := rc.Lo, rc.Hi
	if op.SinceTx > 0 {
		lo = op.SinceTx // "wait until that tx is indexed": older acknowledged state is a legitimate answer
	}
	if hi > ck.res.Last {
		hi = ck.res.Last
	}
	for p := lo; p <= hi; p++ {
		if ck.readMatches(rc, p) {
			return
		}
	}
	// diagnosis
	diag := "state-never-existed"
	switch {
	case ck.getRefTwoStates(rc, lo, hi):
		diag = "reference-resolved-across-two-states"
	default:
		for p := ck.res.Base; p <= ck.res.Last; p++ {
			if ck.readMatches(rc, p) {
				if p < lo {
					// the first (oldest) matching state decides: older than something acknowledged to a
					// client before the call, or only older than the committed frontier at the call
					diag = "stale-misses-committed-tx"
					if p < rc.AckLo && op.SinceTx == 0 {
						diag = "stale-misses-acknowledged-write"
					}
				} else {
					diag = "from-the-future"
				}
				break
			}
		}
		if diag == "state-never-existed" && len(rc.Ents) > 1 && (op.Kind == kGetAll || op.Kind == kScan || op.Kind == kZScan) && ck.eachEntryExisted(rc) {
			diag = "torn-no-single-snapshot"
		}
	}
	var want string
	switch op.Kind {
	case kCount:
		a, l := ck.m.count(op.Prefix, hi)
		want = fmt.Sprintf("count %d (live %d) at S[%d]; got %d", a, l, hi, rc.Count)
	default:
		want = fmt.Sprintf("got %s %s", rc.Class, showEnts(rc.Ents))
	}
	ck.viol("read/"+op.Kind+"/"+diag, fmt.Sprintf("%s %s matches no state S[p], %d <= p <= %d: %s", op.Kind, describe(op), lo, hi, want), rc)
}

func (ck *checker) eachEntryExisted(rc *rec) bool {
	for _, o := range rc.Ents {
		found := false
		k := o.Key
		if o.RefK != "" {
			k = o.RefK
		}
		for p := ck.res.Base; p <= ck.res.Last && !found; p++ {
			if e, ok := ck.m.get(k, p); ok {
				e.Score, e.ZAtTx = o.Score, o.ZAtTx
				found = entEq(e, o)
			}
		}
		if !found {
			return false
		}
	}
	return true
}

func describe(op progOp) string {
	var parts []string
	if len(op.Keys) > 0 {
		ks := make([]string, len(op.Keys))
		for i, k := range op.Keys {
			ks[i] = short(k)
		}
		parts = append(parts, strings.Join(ks, ","))
	}
	if op.Prefix != "" {
		parts = append(parts, "prefix="+op.Prefix)
	}
	if op.ZSet != "" {
		parts = append(parts, "set="+short(op.ZSet))
	}
	if op.SinceTx > 0 {
		parts = append(parts, fmt.Sprintf("sinceTx=%d", op.SinceTx))
	}
	if op.AtRev != 0 {
		parts = append(parts, fmt.Sprintf("atRevision=%d", op.AtRev))
	}
	if op.Desc {
		parts = append(parts, "desc")
	}
	if op.Limit > 0 {
		parts = append(parts, fmt.Sprintf("limit=%d", op.Limit))
	}
	if op.Offset > 0 {
		parts = append(parts, fmt.Sprintf("offset=%d", op.Offset))
	}
	if op.Seek != "" {
		parts = append(parts, fmt.Sprintf("seek=%s incl=%v", short(op.Seek), op.InclSeek))
	}
	for _, p := range op.Pre {
		parts = append(parts, p.String())
	}
	return "(" + strings.Join(parts, " ") + ")"
}

// implicit conditions of an operation on state S[p]: the keys that must exist.
func implicitKeys(op progOp) []string {
	in := func(k string) bool {
		for _, x := range op.Keys {
			if x == k {
				return true
			}
		}
		return false
	}
	switch op.Kind {
	case kDel:
		return op.Keys
	case kSetRef:
		if !op.Bound {
			return []string{op.RefTarget}
		}
	case kZAdd:
		if !op.Bound {
			return []string{op.ZKey}
		}
	case kExec:
		var out []string
		if op.RefKey != "" && !in(op.RefTarget) {
			out = append(out, op.RefTarget)
		}
		if op.ZSet != "" && !in(op.ZKey) {
			out = append(out, op.ZKey)
		}
		return out
	}
	return nil
}

func (ck *checker) checkWrite(rc *rec) {
	op, m := rc.Op, ck.m
	if rc.Effective {
		ck.c.Eval(1)
		t := rc.TxID
		// real-time order: everything acknowledged before this call has a smaller id
		if t <= rc.AckLo {
			ck.viol("write/real-time-order", fmt.Sprintf("%s got tx %d although tx %d had been acknowledged before it was called", op.Kind, t, rc.AckLo), rc)
		}
		for _, pc := range op.Pre {
			if !m.holds(pc, t-1) {
				ck.viol(fmt.Sprintf("cond/%s/applied-although-%s-false", op.Kind, pcName(pc)), fmt.Sprintf("%s %s committed as tx %d, but %s is false on S[%d]", op.Kind, describe(op), t, pc, t-1), rc)
			}
		}
		for _, k := range implicitKeys(op) {
			if !m.exists(k, t-1) {
				ck.viol(fmt.Sprintf("cond/%s/applied-although-key-absent", op.Kind), fmt.Sprintf("%s %s committed as tx %d, but %s does not exist on S[%d]", op.Kind, describe(op), t, short(k), t-1), rc)
			}
		}
		if (op.Kind == kSetRef || op.Kind == kZAdd) && op.Bound {
			k := op.RefTarget
			if op.Kind == kZAdd {
				k = op.ZKey
			}
			if v, ok := m.at(k, op.AtTx); !ok || v.Del {
				ck.viol(fmt.Sprintf("cond/%s/applied-although-key-absent", op.Kind), fmt.Sprintf("%s bound to tx %d committed, but that tx has no live entry for %s", op.Kind, op.AtTx, short(k)), rc)
			}
		}
		return
	}
	if rc.Open {
		return
	}
	lo, hi := rc.Lo, rc.Hi
	if hi > ck.res.Last {
		hi = ck.res.Last
	}
	switch rc.Class {
	case ePrecond:
		ck.c.Eval(1)
		for p := lo; p <= hi; p++ {
			for _, pc := range op.Pre {
				if !m.holds(pc, p) {
					return
				}
			}
		}
		var names []string
		for _, pc := range op.Pre {
			names = append(names, pcName(pc))
		}
		sort.Strings(names)
		ck.viol(fmt.Sprintf("cond/%s/refused-although-held/%s", op.Kind, strings.Join(names, "+")), fmt.Sprintf("%s %s was refused (%s) although every precondition holds on each of S[%d..%d]", op.Kind, describe(op), rc.Err, lo, hi), rc)
	case eNotFound:
		keys := implicitKeys(op)
		if len(keys) == 0 {
			ck.c.Count("unexpected_refusals", 1)
			ck.c.Note(fmt.Sprintf("%s %s refused with %q", op.Kind, describe(op), rc.Err))
			return
		}
		ck.c.Eval(1)
		for p := lo; p <= hi; p++ {
			for _, k := range keys {
				if !m.exists(k, p) {
					return
				}
			}
		}
		ck.viol(fmt.Sprintf("cond/%s/refused-although-key-existed", op.Kind), fmt.Sprintf("%s %s was refused (%s) although the key(s) exist on each of S[%d..%d]", op.Kind, describe(op), rc.Err, lo, hi), rc)
	case eConflict:
		ck.c.Count("read_conflicts", 1) // spurious conflicts are not forbidden
	}
}

func pcName(pc precond) string {
	switch pc.Kind {
	case pcExist:
		return "KeyMustExist"
	case pcNotExist:
		return "KeyMustNotExist"
	}
	return "KeyNotModifiedAfterTX"
}

func outcome(rc *rec) string {
	switch {
	case rc.Open:
		return "open"
	case isWrite(rc.Op.Kind):
		if rc.Effective {
			return "applied"
		}
		return rc.Class
	case rc.Class != eNone:
		return rc.Class
	case rc.Op.Kind == kCount:
		return "n"
	case len(rc.Ents) == 0:
		return "empty"
	}
	return "hit"
}

func touched(op progOp) (keys []string, all bool) {
	switch op.Kind {
	case kScan, kCount, kZScan:
		return nil, true
	}
	keys = append(keys, op.Keys...)
	if op.RefKey != "" {
		keys = append(keys, op.RefKey, op.RefTarget)
	}
	if op.ZKey != "" {
		keys = append(keys, op.ZKey)
	}
	for _, pc := range op.Pre {
		keys = append(keys, pc.Key)
	}
	return
}

// overlaps records the distinct patterns "operation kind/outcome x operation kind/outcome"
// observed concurrently (overlapping intervals) on a common key, at least one being a write.
func (ck *checker) overlaps() {
	recs := ck.res.Recs
	type info struct {
		keys map[string]bool
		all  bool
		lab  string
	}
	inf := make([]info, len(recs))
	for i, rc := range recs {
		ks, all := touched(rc.Op)
		m := map[string]bool{}
		for _, k := range ks {
			m[k] = true
		}
		inf[i] = info{m, all, rc.Op.Kind + ":" + outcome(rc)}
	}
	n := 0
	for i, a := range recs {
		for j := i + 1; j < len(recs); j++ {
			b := recs[j]
			if a.Ret < b.Call || b.Ret < a.Call {
				continue
			}
			if !isWrite(a.Op.Kind) && !isWrite(b.Op.Kind) {
				continue
			}
			common := inf[i].all || inf[j].all
			if !common {
				for k := range inf[i].keys {
					if inf[j].keys[k] {
						common = true
						break
					}
				}
			}
			if !common {
				continue
			}
			x, y := inf[i].lab, inf[j].lab
			if x > y {
				x, y = y, x
			}
			ck.c.Distinct("overlap/" + x + "|" + y)
			n++
		}
	}
	ck.c.Count("concurrent_pairs_on_a_key", int64(n))
}

// checkRound runs the commit-order oracle on one round.
func (ck *checker) checkRound() (judged bool) {
	if why := ck.resolve(); why != "" {
		ck.c.Inconclusive(fmt.Sprintf("[%s round %d] %s", ck.cfg, ck.res.Plan.Round, why))
		return false
	}
	if why := ck.build(); why != "" {
		return false // a violation was recorded
	}
	for _, rc := range ck.res.Recs {
		if isWrite(rc.Op.Kind) {
			ck.checkWrite(rc)
		} else {
			ck.checkRead(rc)
		}
	}
	ck.overlaps()
	return true
}
