package c06

import (
	"fmt"
	"sort"
	"strings"
)

// ver is one version of a key in commit order.
type ver struct {
	Tx     uint64
	Del    bool
	Val    string // plain value
	IsRef  bool
	Target string
	AtTx   uint64 // bound reference: resolved at exactly this tx
}

type zent struct {
	Set   string
	Score float64
	Key   string
	AtTx  uint64
	Tx    uint64 // tx of the first ZAdd of this element
}

// model is the sequence of states S[base..last] of one round's keys: S[p] holds every
// version with Tx <= p. It is built from the writes that took effect, at their tx ids.
type model struct {
	base, last uint64
	vers       map[string][]ver // ascending Tx
	keys       []string         // sorted
	z          []zent
}

func newModel(base, last uint64) *model {
	return &model{base: base, last: last, vers: map[string][]ver{}}
}

func (m *model) add(key string, v ver) {
	if _, ok := m.vers[key]; !ok {
		i := sort.SearchStrings(m.keys, key)
		m.keys = append(m.keys, "")
		copy(m.keys[i+1:], m.keys[i:])
		m.keys[i] = key
	}
	m.vers[key] = append(m.vers[key], v)
}

func (m *model) sortAll() {
	for k := range m.vers {
		vs := m.vers[k]
		sort.SliceStable(vs, func(i, j int) bool { return vs[i].Tx < vs[j].Tx })
	}
	sort.SliceStable(m.z, func(i, j int) bool { return m.z[i].Tx < m.z[j].Tx })
}

// n is the number of versions of key visible at p.
func (m *model) n(key string, p uint64) int {
	vs := m.vers[key]
	return sort.Search(len(vs), func(i int) bool { return vs[i].Tx > p })
}

// latest returns the newest version at p.
func (m *model) latest(key string, p uint64) (ver, int, bool) {
	n := m.n(key, p)
	if n == 0 {
		return ver{}, 0, false
	}
	return m.vers[key][n-1], n, true
}

// exists: the key has a newest version that is not a deletion (what KeyMustExist means).
func (m *model) exists(key string, p uint64) bool {
	v, _, ok := m.latest(key, p)
	return ok && !v.Del
}

// at returns the version of key written by exactly tx t.
func (m *model) at(key string, t uint64) (ver, bool) {
	vs := m.vers[key]
	i := sort.Search(len(vs), func(i int) bool { return vs[i].Tx >= t })
	if i < len(vs) && vs[i].Tx == t {
		return vs[i], true
	}
	return ver{}, false
}

func (m *model) holds(pc precond, p uint64) bool {
	switch pc.Kind {
	case pcExist:
		return m.exists(pc.Key, p)
	case pcNotExist:
		return !m.exists(pc.Key, p)
	default:
		v, _, ok := m.latest(pc.Key, p)
		return !ok || v.Tx <= pc.Tx
	}
}

// resolveVer turns version v (revision rev) of key into the entry a read returns at p.
func (m *model) resolveVer(key string, v ver, rev int, p uint64) (ent, bool) {
	if v.Del {
		return ent{}, false
	}
	if !v.IsRef {
		return ent{Key: key, Tx: v.Tx, Val: v.Val, Rev: uint64(rev)}, true
	}
	if v.AtTx > 0 {
		tv, ok := m.at(v.Target, v.AtTx)
		if !ok || tv.Del || tv.IsRef {
			return ent{}, false
		}
		return ent{Key: v.Target, Tx: tv.Tx, Val: tv.Val, Rev: 0, RefK: key, RefT: v.Tx, RefR: uint64(rev), RefA: v.AtTx}, true
	}
	tv, tn, ok := m.latest(v.Target, p)
	if !ok || tv.Del || tv.IsRef {
		return ent{}, false
	}
	return ent{Key: v.Target, Tx: tv.Tx, Val: tv.Val, Rev: uint64(tn), RefK: key, RefT: v.Tx, RefR: uint64(rev), RefA: 0}, true
}

// get is Get(key) on S[p].
func (m *model) get(key string, p uint64) (ent, bool) {
	v, n, ok := m.latest(key, p)
	if !ok {
		return ent{}, false
	}
	return m.resolveVer(key, v, n, p)
}

// getAtRev is Get(key, AtRevision r) on S[p]: class is "", key-not-found or invalid-revision.
func (m *model) getAtRev(key string, r int64, p uint64) (ent, string) {
	n := m.n(key, p)
	idx := int(r)
	if r < 0 {
		idx = n + int(r)
	}
	if idx < 1 || idx > n {
		if n == 0 {
			return ent{}, "absent" // never written: key-not-found or invalid-revision are both acceptable
		}
		return ent{}, eInvRev
	}
	v := m.vers[key][idx-1]
	e, ok := m.resolveVer(key, v, idx, p)
	if !ok {
		return ent{}, eNotFound
	}
	return e, eNone
}

// history is History(key, offset, desc, limit) on S[p]; ok=false when the key has no version
// or the offset is at/after the end (the API then returns an error or nothing).
func (m *model) history(key string, isRef bool, offset uint64, desc bool, limit uint64, p uint64) ([]ent, bool) {
	n := m.n(key, p)
	if n == 0 || offset >= uint64(n) {
		return nil, false
	}
	var out []ent
	for i := 0; i < n; i++ {
		idx := i
		if desc {
			idx = n - 1 - i
		}
		if uint64(i) < offset {
			continue
		}
		if limit > 0 && uint64(len(out)) >= limit {
			break
		}
		v := m.vers[key][idx]
		e := ent{Key: key, Tx: v.Tx, Rev: uint64(idx + 1), Del: v.Del}
		if !v.Del {
			if v.IsRef {
				e.Val = refString(v.Target, v.AtTx)
			} else {
				e.Val = v.Val
			}
		}
		out = append(out, e)
	}
	return out, true
}

// scan is Scan on S[p]. Deleted keys are skipped by the reader; a reference whose target is
// missing takes a slot of the limit without producing an entry (only generated without a limit).
func (m *model) scan(op progOp, p uint64) []ent {
	var ks []string
	for _, k := range m.keys {
		if strings.HasPrefix(k, op.Prefix) {
			ks = append(ks, k)
		}
	}
	if op.Desc {
		for i, j := 0, len(ks)-1; i < j; i, j = i+1, j-1 {
			ks[i], ks[j] = ks[j], ks[i]
		}
	}
	var out []ent
	slots := uint64(0)
	for _, k := range ks {
		if op.Seek != "" {
			c := strings.Compare(k, op.Seek)
			if op.Desc {
				c = -c
			}
			if c < 0 || (c == 0 && !op.InclSeek) {
				continue
			}
		}
		v, n, ok := m.latest(k, p)
		if !ok || v.Del {
			continue
		}
		if op.Limit > 0 && slots >= op.Limit {
			break
		}
		slots++
		if e, ok := m.resolveVer(k, v, n, p); ok {
			out = append(out, e)
		}
	}
	return out
}

// zscan is ZScan(set) on S[p], unlimited: elements ordered by score, key, atTx.
func (m *model) zscan(op progOp, p uint64) []ent {
	type el struct {
		z zent
	}
	seen := map[string]bool{}
	var els []zent
	for _, z := range m.z {
		if z.Tx > p || z.Set != op.ZSet {
			continue
		}
		id := fmt.Sprintf("%v|%s|%d", z.Score, z.Key, z.AtTx)
		if seen[id] {
			continue
		}
		seen[id] = true
		if op.MinScore != nil && z.Score < *op.MinScore {
			continue
		}
		if op.MaxScore != nil && z.Score > *op.MaxScore {
			continue
		}
		els = append(els, z)
	}
	sort.Slice(els, func(i, j int) bool {
		a, b := els[i], els[j]
		if a.Score != b.Score {
			return a.Score < b.Score
		}
		if a.Key != b.Key {
			return a.Key < b.Key
		}
		return a.AtTx < b.AtTx
	})
	if op.Desc {
		for i, j := 0, len(els)-1; i < j; i, j = i+1, j-1 {
			els[i], els[j] = els[j], els[i]
		}
	}
	var out []ent
	for _, z := range els {
		var e ent
		if z.AtTx > 0 {
			tv, ok := m.at(z.Key, z.AtTx)
			if !ok || tv.Del || tv.IsRef {
				continue
			}
			e = ent{Key: z.Key, Tx: tv.Tx, Val: tv.Val}
		} else {
			v, n, ok := m.latest(z.Key, p)
			if !ok || v.Del || v.IsRef {
				continue
			}
			e = ent{Key: z.Key, Tx: v.Tx, Val: v.Val, Rev: uint64(n)}
		}
		e.Score, e.ZAtTx = z.Score, z.AtTx
		out = append(out, e)
	}
	return out
}

// count returns the number of keys under prefix having any version at p (all) and those
// whose newest version is not a deletion (live).
func (m *model) count(prefix string, p uint64) (all, live uint64) {
	for _, k := range m.keys {
		if !strings.HasPrefix(k, prefix) {
			continue
		}
		v, _, ok := m.latest(k, p)
		if ok {
			all++
			if !v.Del {
				live++
			}
		}
	}
	return
}

func entEq(a, b ent) bool {
	// the revision of an entry resolved at a fixed tx (bound reference / bound zadd / AtTx) is not specified
	if a.RefA != 0 || a.ZAtTx != 0 {
		a.Rev, b.Rev = 0, 0
	}
	return a == b
}

func entsEq(a, b []ent) bool {
	if len(a) != len(b) {
		return false
	}
	for i := range a {
		if !entEq(a[i], b[i]) {
			return false
		}
	}
	return true
}
