package c06

import (
	"encoding/json"
	"fmt"
	"strconv"
	"strings"
	"time"

	"github.com/anishathalye/porcupine"
)

// Single-key sequential model used with porcupine. The state of a key is its version list.
// Multi-key operations are projected onto each key they touch (an atomic multi-key operation
// projects to an atomic step on every key), so a history with no linearization of one key's
// projection has no linearization at all. Tx ids take no part in ordering here: they are only
// compared as data (the Tx field a read returns must be the one the write was acknowledged with).

type kstate struct {
	s       string // "tx:value;" per version, value "\x00" for a deletion
	n       int
	lastTx  uint64
	lastVal string
	lastDel bool
}

func (st kstate) exists() bool { return st.n > 0 && !st.lastDel }

func (st kstate) push(tx uint64, val string, del bool) kstate {
	tok := val
	if del {
		tok = "\x00"
	}
	return kstate{s: st.s + strconv.FormatUint(tx, 10) + ":" + tok + ";", n: st.n + 1, lastTx: tx, lastVal: val, lastDel: del}
}

type pver struct {
	tx  uint64
	val string
	del bool
}

func (st kstate) versions() []pver {
	out := make([]pver, 0, st.n)
	for _, tok := range strings.Split(strings.TrimSuffix(st.s, ";"), ";") {
		if tok == "" {
			continue
		}
		i := strings.IndexByte(tok, ':')
		tx, _ := strconv.ParseUint(tok[:i], 10, 64)
		v := tok[i+1:]
		out = append(out, pver{tx, v, v == "\x00"})
	}
	return out
}

type pcond struct {
	Kind int
	Tx   uint64
}

func (st kstate) holds(c pcond) bool {
	switch c.Kind {
	case pcExist:
		return st.exists()
	case pcNotExist:
		return !st.exists()
	}
	return st.n == 0 || st.lastTx <= c.Tx
}

type pin struct {
	Kind   string // write, del, assert, refuse, get, rev, hist
	Val    string
	Tx     uint64
	Conds  []pcond // write: must all hold before; assert: all hold; refuse: not all hold
	AtRev  int64
	Offset uint64
	Limit  uint64
	Desc   bool
	Src    string // originating operation, for the witness
}

type pout struct {
	Class string
	Ents  []ent // get/rev: 0 or 1 entries (Key, Tx, Val, Rev); hist: the list
}

func pstep(state, input, output interface{}) (bool, interface{}) {
	st, in, out := state.(kstate), input.(pin), output.(pout)
	all := func() bool {
		for _, c := range in.Conds {
			if !st.holds(c) {
				return false
			}
		}
		return true
	}
	switch in.Kind {
	case "write":
		if !all() {
			return false, st
		}
		return true, st.push(in.Tx, in.Val, false)
	case "del":
		if !st.exists() {
			return false, st
		}
		return true, st.push(in.Tx, "", true)
	case "assert":
		return all(), st
	case "refuse":
		return !all(), st
	case "get":
		if !st.exists() {
			return out.Class == eNotFound, st
		}
		return out.Class == eNone && len(out.Ents) == 1 && out.Ents[0].Tx == st.lastTx && out.Ents[0].Val == st.lastVal && out.Ents[0].Rev == uint64(st.n), st
	case "rev":
		idx := int(in.AtRev)
		if in.AtRev < 0 {
			idx = st.n + int(in.AtRev)
		}
		if idx < 1 || idx > st.n {
			if st.n == 0 {
				return out.Class == eNotFound || out.Class == eInvRev, st
			}
			return out.Class == eInvRev, st
		}
		v := st.versions()[idx-1]
		if v.del {
			return out.Class == eNotFound, st
		}
		return out.Class == eNone && len(out.Ents) == 1 && out.Ents[0].Tx == v.tx && out.Ents[0].Val == v.val && out.Ents[0].Rev == uint64(idx), st
	case "hist":
		if st.n == 0 || in.Offset >= uint64(st.n) {
			return out.Class == eNotFound || out.Class == eNoMore || (out.Class == eNone && len(out.Ents) == 0), st
		}
		if out.Class != eNone {
			return false, st
		}
		vs := st.versions()
		k := 0
		for i := 0; i < st.n; i++ {
			idx := i
			if in.Desc {
				idx = st.n - 1 - i
			}
			if uint64(i) < in.Offset {
				continue
			}
			if in.Limit > 0 && uint64(k) >= in.Limit {
				break
			}
			if k >= len(out.Ents) {
				return false, st
			}
			e, v := out.Ents[k], vs[idx]
			if e.Tx != v.tx || e.Del != v.del || e.Rev != uint64(idx+1) || (!v.del && e.Val != v.val) {
				return false, st
			}
			k++
		}
		return k == len(out.Ents), st
	}
	return false, st
}

var pmodel = porcupine.Model{
	Init: func() interface{} { return kstate{} },
	Step: pstep,
	DescribeOperation: func(input, output interface{}) string {
		in, out := input.(pin), output.(pout)
		return fmt.Sprintf("%s %s -> %s %s", in.Kind, in.Src, out.Class, showEnts(out.Ents))
	},
	DescribeState: func(state interface{}) string { return state.(kstate).s },
}

func condsOn(key string, pre []precond) (on []pcond, others bool) {
	for _, pc := range pre {
		if pc.Key == key {
			on = append(on, pcond{pc.Kind, pc.Tx})
		} else {
			others = true
		}
	}
	return
}

func entOf(es []ent, key string) []ent {
	for _, e := range es {
		if e.Key == key && e.RefK == "" && e.ZAtTx == 0 {
			return []ent{{Key: key, Tx: e.Tx, Val: e.Val, Rev: e.Rev}}
		}
	}
	return nil
}

// project builds the sub-history of one plain key.
func (ck *checker) project(key string) (ops []porcupine.Operation, shape string) {
	var nW, nR, nC, nD int
	add := func(rc *rec, in pin, out pout) {
		in.Src = fmt.Sprintf("op#%d %s%s", rc.ID, rc.Op.Kind, describe(rc.Op))
		ops = append(ops, porcupine.Operation{ClientId: rc.Client, Input: in, Call: rc.Call, Output: out, Return: rc.Ret})
	}
	idx := func(op progOp) int {
		for i, k := range op.Keys {
			if k == key {
				return i
			}
		}
		return -1
	}
	for _, rc := range ck.res.Recs {
		op := rc.Op
		if isWrite(op.Kind) {
			on, others := condsOn(key, op.Pre)
			i := idx(op)
			implicit := false
			for _, k := range implicitKeys(op) {
				implicit = implicit || k == key
			}
			switch {
			case rc.Effective && op.Kind == kDel && i >= 0:
				add(rc, pin{Kind: "del", Tx: rc.TxID}, pout{})
				nD++
			case rc.Effective && i >= 0:
				add(rc, pin{Kind: "write", Val: op.Vals[i], Tx: rc.TxID, Conds: on}, pout{})
				nW++
				if len(on) > 0 {
					nC++
				}
			case rc.Effective && (len(on) > 0 || implicit):
				if implicit {
					on = append(on, pcond{Kind: pcExist})
				}
				add(rc, pin{Kind: "assert", Conds: on}, pout{})
				nC++
			case !rc.Effective && !rc.Open && rc.Class == ePrecond && len(on) > 0 && !others:
				add(rc, pin{Kind: "refuse", Conds: on}, pout{Class: rc.Class})
				nC++
			case !rc.Effective && !rc.Open && rc.Class == eNotFound && implicit && len(implicitKeys(op)) == 1:
				add(rc, pin{Kind: "refuse", Conds: []pcond{{Kind: pcExist}}}, pout{Class: rc.Class})
				nC++
			}
			continue
		}
		if rc.Open || op.SinceTx > 0 {
			continue // SinceTx reads may legitimately return an older acknowledged state
		}
		switch op.Kind {
		case kGet:
			if op.Keys[0] == key {
				add(rc, pin{Kind: "get"}, pout{Class: rc.Class, Ents: rc.Ents})
				nR++
			}
		case kGetAtRev:
			if op.Keys[0] == key {
				add(rc, pin{Kind: "rev", AtRev: op.AtRev}, pout{Class: rc.Class, Ents: rc.Ents})
				nR++
			}
		case kHist:
			if op.Keys[0] == key {
				add(rc, pin{Kind: "hist", Offset: op.Offset, Limit: op.Limit, Desc: op.Desc}, pout{Class: rc.Class, Ents: rc.Ents})
				nR++
			}
		case kGetAll:
			if idx(op) >= 0 && rc.Class == eNone {
				es := entOf(rc.Ents, key)
				cl := eNone
				if es == nil {
					cl = eNotFound
				}
				add(rc, pin{Kind: "get"}, pout{Class: cl, Ents: es})
				nR++
			}
		case kScan:
			if rc.Class == eNone && op.Limit == 0 && op.Seek == "" && strings.HasPrefix(key, op.Prefix) {
				es := entOf(rc.Ents, key)
				cl := eNone
				if es == nil {
					cl = eNotFound
				}
				add(rc, pin{Kind: "get"}, pout{Class: cl, Ents: es})
				nR++
			}
		}
	}
	b := func(n int) string {
		switch {
		case n == 0:
			return "0"
		case n <= 2:
			return "1-2"
		case n <= 6:
			return "3-6"
		case n <= 15:
			return "7-15"
		}
		return "16+"
	}
	return ops, fmt.Sprintf("partition/writes=%s/deletes=%s/conditionals=%s/reads=%s", b(nW), b(nD), b(nC), b(nR))
}

// porcupineRound checks every plain key's projection.
func (ck *checker) porcupineRound() {
	for _, key := range ck.res.Plan.Plain {
		ops, shape := ck.project(key)
		if len(ops) < 2 {
			continue
		}
		res, info := porcupine.CheckOperationsVerbose(pmodel, ops, 2*time.Second)
		ck.c.Count("porcupine_partitions", 1)
		ck.c.Count("porcupine_operations", int64(len(ops)))
		switch res {
		case porcupine.Ok:
			ck.c.Eval(1)
			ck.c.Distinct(shape)
		case porcupine.Unknown:
			ck.c.Inconclusive(fmt.Sprintf("[%s round %d] porcupine gave up on key %s (%d operations)", ck.cfg, ck.res.Plan.Round, key, len(ops)))
		case porcupine.Illegal:
			ck.c.Eval(1)
			_ = info
			type wop struct {
				Client    int
				Call, Ret int64
				In        pin
				Out       pout
			}
			var w []wop
			for _, o := range ops {
				w = append(w, wop{o.ClientId, o.Call, o.Return, o.Input.(pin), o.Output.(pout)})
			}
			b, _ := json.MarshalIndent(w, "", " ")
			ck.violX("porcupine/key-history-not-linearizable", fmt.Sprintf("the %d operations on key %s have no linearization under the version-list model (sub-history in key-history.json)", len(ops), key), nil, map[string][]byte{"key-history.json": b})
		}
	}
}
