package c06

import (
	"fmt"
	"math/rand/v2"
)

// Operation kinds of the generated client programs.
const (
	kSet      = "set"      // Set, one plain key
	kSetN     = "setN"     // Set, 2-4 plain keys
	kCSet     = "cset"     // Set with 1-2 preconditions
	kDel      = "del"      // Delete (1, rarely 2 keys; plain or reference key)
	kExec     = "exec"     // ExecAll: KVs (+ reference) (+ zadd) (+ preconditions)
	kSetRef   = "setref"   // SetReference (unbound, or bound to an own acknowledged write)
	kZAdd     = "zadd"     // ZAdd (unbound, or bound to an own acknowledged write)
	kGet      = "get"      // Get (plain or reference key)
	kGetSince = "getSince" // Get with SinceTx = an acknowledged tx of this client
	kGetAtTx  = "getAtTx"  // Get with AtTx = tx of an own acknowledged write
	kGetAtRev = "getAtRev" // Get with AtRevision
	kGetAll   = "getAll"
	kScan     = "scan"
	kZScan    = "zscan"
	kHist     = "history"
	kCount    = "count"
)

const (
	pcExist    = 1
	pcNotExist = 2
	pcNotMod   = 3
)

type precond struct {
	Kind int
	Key  string
	Tx   uint64 // resolved at run time for pcNotMod: the tx this client last saw on Key (else the round base)
}

func (p precond) String() string {
	switch p.Kind {
	case pcExist:
		return "MustExist(" + p.Key + ")"
	case pcNotExist:
		return "MustNotExist(" + p.Key + ")"
	}
	return fmt.Sprintf("NotModifiedAfter(%s,%d)", p.Key, p.Tx)
}

// progOp is one step of a client program. Everything is fixed by the PRNG except the
// tx ids marked "resolved at run time", which are taken from what this client was told earlier.
type progOp struct {
	Kind string
	Keys []string // keys written (set/setN/cset/exec KVs/del) or read (get*/getAll/history)
	Vals []string // unique values, one per written key
	Pre  []precond

	// reference part (setref, exec)
	RefKey, RefTarget string
	// sorted-set part (zadd, exec; zscan uses ZSet)
	ZSet, ZKey string
	Score      float64
	Bound      bool   // setref/zadd bound to AtTx
	AtTx       uint64 // resolved at run time: getAtTx / bound setref / bound zadd
	MissKey    bool   // getAtTx: ask for a key the tx did not write

	SinceTx  uint64 // resolved at run time (getSince, and getAll/scan/history when Since is set)
	Since    bool
	AtRev    int64
	Desc     bool
	Limit    uint64
	Offset   uint64
	Prefix   string
	Seek     string
	InclSeek bool
	MinScore *float64
	MaxScore *float64
}

type roundPlan struct {
	Round    int
	Prefix   string   // every key of the round starts with it
	Plain    []string // plain keys
	Refs     []string // reference keys (only ever hold references or deletions)
	ZSets    []string
	Prologue []progOp   // executed sequentially before the clients start
	Clients  [][]progOp // one program per client
}

func pick[T any](r *rand.Rand, xs []T) T { return xs[r.IntN(len(xs))] }

type gen struct {
	r    *rand.Rand
	pl   *roundPlan
	vseq int
	tag  string
}

func (g *gen) val() string {
	g.vseq++
	return fmt.Sprintf("%s#%d", g.tag, g.vseq)
}

func (g *gen) plain() string { return pick(g.r, g.pl.Plain) }

func (g *gen) distinctPlain(n int) []string {
	if n > len(g.pl.Plain) {
		n = len(g.pl.Plain)
	}
	perm := g.r.Perm(len(g.pl.Plain))
	out := make([]string, n)
	for i := 0; i < n; i++ {
		out[i] = g.pl.Plain[perm[i]]
	}
	return out
}

func (g *gen) preconds(onKey string) []precond {
	n := 1
	if g.r.IntN(4) == 0 {
		n = 2
	}
	var out []precond
	for i := 0; i < n; i++ {
		k := onKey
		if g.r.IntN(3) == 0 {
			k = g.plain()
		}
		out = append(out, precond{Kind: 1 + g.r.IntN(3), Key: k})
	}
	return out
}

// write picks a writing operation.
func (g *gen) write() progOp {
	r := g.r
	switch x := r.IntN(100); {
	case x < 30:
		return progOp{Kind: kSet, Keys: []string{g.plain()}, Vals: []string{g.val()}}
	case x < 38:
		ks := g.distinctPlain(2 + r.IntN(3))
		op := progOp{Kind: kSetN, Keys: ks}
		for range ks {
			op.Vals = append(op.Vals, g.val())
		}
		return op
	case x < 60:
		k := g.plain()
		return progOp{Kind: kCSet, Keys: []string{k}, Vals: []string{g.val()}, Pre: g.preconds(k)}
	case x < 76:
		op := progOp{Kind: kDel, Keys: []string{g.plain()}}
		if len(g.pl.Refs) > 0 && r.IntN(6) == 0 {
			op.Keys = []string{pick(r, g.pl.Refs)}
		} else if r.IntN(8) == 0 {
			op.Keys = g.distinctPlain(2)
		}
		return op
	case x < 84:
		ks := g.distinctPlain(1 + r.IntN(3))
		op := progOp{Kind: kExec, Keys: ks}
		for range ks {
			op.Vals = append(op.Vals, g.val())
		}
		if len(g.pl.Refs) > 0 && r.IntN(2) == 0 {
			op.RefKey = pick(r, g.pl.Refs)
			if r.IntN(2) == 0 {
				op.RefTarget = ks[0] // written by the same tx
			} else {
				op.RefTarget = g.plain()
			}
		}
		if len(g.pl.ZSets) > 0 && r.IntN(2) == 0 {
			op.ZSet = pick(r, g.pl.ZSets)
			op.Score = float64(1 + r.IntN(4))
			if r.IntN(2) == 0 {
				op.ZKey = ks[0]
			} else {
				op.ZKey = g.plain()
			}
		}
		if r.IntN(3) == 0 {
			op.Pre = g.preconds(ks[0])
		}
		return op
	case x < 92 && len(g.pl.Refs) > 0:
		return progOp{Kind: kSetRef, RefKey: pick(r, g.pl.Refs), RefTarget: g.plain(), Bound: r.IntN(5) == 0}
	default:
		if len(g.pl.ZSets) == 0 {
			return progOp{Kind: kSet, Keys: []string{g.plain()}, Vals: []string{g.val()}}
		}
		return progOp{Kind: kZAdd, ZSet: pick(r, g.pl.ZSets), ZKey: g.plain(), Score: float64(1 + r.IntN(4)), Bound: r.IntN(5) == 0}
	}
}

func (g *gen) anyKey() string {
	if len(g.pl.Refs) > 0 && g.r.IntN(5) == 0 {
		return pick(g.r, g.pl.Refs)
	}
	return g.plain()
}

func fptr(f float64) *float64 { return &f }

// read picks a reading operation.
func (g *gen) read() progOp {
	r := g.r
	switch x := r.IntN(100); {
	case x < 30:
		return progOp{Kind: kGet, Keys: []string{g.anyKey()}}
	case x < 36:
		return progOp{Kind: kGetSince, Keys: []string{g.plain()}, Since: true}
	case x < 43:
		return progOp{Kind: kGetAtTx, Keys: []string{g.plain()}, MissKey: r.IntN(4) == 0}
	case x < 53:
		return progOp{Kind: kGetAtRev, Keys: []string{g.plain()}, AtRev: pick(r, []int64{1, 1, 2, 3, 5, -1, -1, -2, -4})}
	case x < 63:
		n := 2 + r.IntN(4)
		ks := g.distinctPlain(n)
		if len(g.pl.Refs) > 0 && r.IntN(2) == 0 {
			ks = append(ks, pick(r, g.pl.Refs))
		}
		return progOp{Kind: kGetAll, Keys: ks, Since: r.IntN(6) == 0}
	case x < 75:
		op := progOp{Kind: kScan, Desc: r.IntN(2) == 0, Since: r.IntN(8) == 0}
		if r.IntN(2) == 0 {
			// plain keys only: limit and seek have an unambiguous meaning there
			op.Prefix = g.pl.Prefix + "k"
			if r.IntN(2) == 0 {
				op.Limit = uint64(1 + r.IntN(len(g.pl.Plain)))
			}
			if r.IntN(3) == 0 {
				op.Seek = g.plain()
				op.InclSeek = r.IntN(2) == 0
			}
		} else {
			// the whole round (plain and reference keys), unlimited
			op.Prefix = g.pl.Prefix
		}
		return op
	case x < 82 && len(g.pl.ZSets) > 0:
		op := progOp{Kind: kZScan, ZSet: pick(r, g.pl.ZSets), Desc: r.IntN(2) == 0}
		if r.IntN(3) == 0 {
			op.MinScore = fptr(float64(r.IntN(4)) + 0.5)
		}
		if r.IntN(3) == 0 {
			op.MaxScore = fptr(float64(1+r.IntN(4)) + 0.5)
		}
		return op
	case x < 94:
		op := progOp{Kind: kHist, Keys: []string{g.anyKey()}, Desc: r.IntN(2) == 0}
		if r.IntN(2) == 0 {
			op.Offset = uint64(r.IntN(3))
		}
		if r.IntN(2) == 0 {
			op.Limit = uint64(1 + r.IntN(3))
		}
		return op
	default:
		op := progOp{Kind: kCount, Prefix: g.pl.Prefix + "k"}
		if r.IntN(3) == 0 {
			op.Prefix = g.pl.Prefix
		}
		return op
	}
}

// genRound builds the plan of one round: a pure function of the PRNG stream.
func genRound(r *rand.Rand, caseIdx, round int, maxClients, maxOps int) *roundPlan {
	pl := &roundPlan{Round: round, Prefix: fmt.Sprintf("c%dr%03d/", caseIdx, round)}
	nk := 4 + r.IntN(9) // 4-12 plain keys
	if r.IntN(4) == 0 {
		nk = 4 // few keys: more contention per key
	}
	for i := 0; i < nk; i++ {
		pl.Plain = append(pl.Plain, fmt.Sprintf("%sk%02d", pl.Prefix, i))
	}
	for i := 0; i < r.IntN(3); i++ {
		pl.Refs = append(pl.Refs, fmt.Sprintf("%sf%02d", pl.Prefix, i))
	}
	for i := 0; i < r.IntN(3); i++ {
		pl.ZSets = append(pl.ZSets, fmt.Sprintf("%sz%d", pl.Prefix, i))
	}
	g := &gen{r: r, pl: pl, tag: fmt.Sprintf("c%dr%dp", caseIdx, round)}
	for i := r.IntN(5); i > 0; i-- {
		pl.Prologue = append(pl.Prologue, g.write())
	}
	nc := 4 + r.IntN(maxClients-3)
	ops := 4 + r.IntN(maxOps-3)
	budget := 160
	if nk == 4 {
		budget = 80 // few keys: keep the per-key histories short enough for porcupine
	}
	if nc*ops > budget {
		ops = budget / nc
	}
	writePct := pick(r, []int{25, 40, 50, 65})
	for c := 0; c < nc; c++ {
		g.tag = fmt.Sprintf("c%dr%dg%d", caseIdx, round, c)
		var prog []progOp
		for i := 0; i < ops; i++ {
			if r.IntN(100) < writePct {
				prog = append(prog, g.write())
			} else {
				prog = append(prog, g.read())
			}
		}
		pl.Clients = append(pl.Clients, prog)
	}
	return pl
}
