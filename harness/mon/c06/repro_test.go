package c06

import (
	"context"
	"fmt"
	"os"
	"testing"

	"github.com/codenotary/immudb/pkg/api/schema"
)

// Standalone reproduction of the defect "index compaction moves the index back in time while
// the indexing watermark stays where it was": one client, no concurrency besides CompactIndex.
//
//	. /verif/bin/env.sh && cd /verif/harness && VERIF_C06_REPRO=1 go test -tags verif -count=1 -run TestCompactionStaleRead ./mon/c06/
//
// (opt-in through VERIF_C06_REPRO=1: it fails for as long as the defect is present.)
//
// After a Set was acknowledged (default waiting semantics: committed and indexed), a Get of the
// same key issued afterwards by the same client returns an older value or key-not-found when a
// concurrent CompactIndex has just swapped in the index it dumped from an older snapshot.
func TestCompactionStaleRead(t *testing.T) {
	if os.Getenv("VERIF_C06_REPRO") != "1" {
		t.Skip("reproduction of a known defect: set VERIF_C06_REPRO=1 to run it")
	}
	os.MkdirAll("/var/tmp/verif-scratch", 0o755)
	dir, err := os.MkdirTemp("/var/tmp/verif-scratch", "c06-repro-")
	if err != nil {
		t.Fatal(err)
	}
	defer os.RemoveAll(dir)
	db, err := openDB(dir, caseSpec{FlushThld: 1000, CompThld: 1, VLogCache: 16})
	if err != nil {
		t.Fatal(err)
	}
	defer db.Close()
	ctx := context.Background()
	for i := 0; i < 200; i++ { // something to dump
		if _, err := db.Set(ctx, &schema.SetRequest{KVs: []*schema.KeyValue{{Key: []byte(fmt.Sprintf("fill%03d", i)), Value: []byte("x")}}}); err != nil {
			t.Fatal(err)
		}
	}
	db.FlushIndex(&schema.FlushIndexRequest{CleanupPercentage: 0})
	stale := 0
	for round := 0; round < 50 && stale == 0; round++ {
		done := make(chan error, 1)
		go func() { done <- db.CompactIndex() }()
		compacting := true
		for i := 0; compacting || i%8 != 0; i++ {
			select {
			case <-done:
				compacting = false
			default:
			}
			want := fmt.Sprintf("r%d-v%d", round, i)
			hdr, err := db.Set(ctx, &schema.SetRequest{KVs: []*schema.KeyValue{{Key: []byte("k"), Value: []byte(want)}}})
			if err != nil {
				t.Fatal(err)
			}
			e, err := db.Get(ctx, &schema.KeyRequest{Key: []byte("k")})
			if err != nil || string(e.Value) != want {
				stale++
				got := "error " + fmt.Sprint(err)
				if err == nil {
					got = fmt.Sprintf("%q (tx %d)", e.Value, e.Tx)
				}
				t.Errorf("round %d: Set(k=%q) acknowledged as tx %d, the following Get(k) returned %s", round, want, hdr.Id, got)
				break
			}
		}
		if compacting {
			<-done
		}
	}
	if stale == 0 {
		t.Log("no stale read observed")
	}
}
