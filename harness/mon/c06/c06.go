// Package c06: monitor for property C06 (see DESIGN.md section 2).
package c06
