// Package c06: the key-value API of pkg/database is linearizable and conditional writes are atomic.
//
// Rounds of 4-16 concurrent clients run PRNG programs (Set, multi-key Set, conditional Set,
// Delete, ExecAll, SetReference, ZAdd, Get incl. SinceTx/AtTx/AtRevision, GetAll, Scan, ZScan,
// History, Count) on one database.DB over a small key set with unique values, while a
// maintenance goroutine flushes/compacts the indexes and the verifhook points perturb the commit
// path and the indexer. Call/return tickets come from one atomic counter at the client boundary.
// Two oracles judge each round: a commit-order checker (the write order is the tx ids the API
// returned; every read must equal one state S[p] inside its window, conditional writes are judged
// on S[t-1]) and porcupine on the single-key projections.
package c06

import (
	"encoding/json"
	"fmt"
	"math/rand/v2"
	"os"
	"strconv"
	"time"

	"github.com/codenotary/immudb/embedded/store"
	"github.com/codenotary/immudb/pkg/database"

	"verifharness/internal/fw"
	"verifharness/internal/hook"
	"verifharness/internal/sth"
)

func init() { fw.RegisterMonitor("C06", "exploration", Run) }

type caseSpec struct {
	Idx        int
	Rounds     int
	Synced     bool
	Compaction bool // CompactIndex runs in the maintenance goroutine (a fifth of the cases)
	FlushThld  int
	CompThld   int
	Perturb    float64
	MaxSleepUs int
	MaxClients int
	MaxOps     int
	VLogCache  int
}

func (cs caseSpec) String() string {
	return fmt.Sprintf("case %d synced=%v compaction=%v flushThld=%d perturb=%.2f/%dus", cs.Idx, cs.Synced, cs.Compaction, cs.FlushThld, cs.Perturb, cs.MaxSleepUs)
}

func genCase(r *rand.Rand, i, rounds int) caseSpec {
	return caseSpec{
		Idx: i, Rounds: rounds,
		Synced:     i%4 == 3,
		Compaction: i%5 == 2,
		FlushThld:  pick(r, []int{8, 30, 100, 1000}),
		CompThld:   1 + r.IntN(2),
		Perturb:    pick(r, []float64{0.05, 0.2, 0.4}),
		MaxSleepUs: pick(r, []int{0, 100, 400}),
		MaxClients: 16, MaxOps: 40,
		VLogCache: pick(r, []int{0, 16, 256}),
	}
}

func openDB(dir string, cs caseSpec) (database.DB, error) {
	so := store.DefaultOptions().
		WithMaxTxEntries(16).WithMaxKeyLen(128).WithMaxValueLen(256).
		WithMaxConcurrency(40).WithMaxIOConcurrency(2).
		WithSynced(cs.Synced).WithSyncFrequency(time.Millisecond).
		WithVLogCacheSize(cs.VLogCache).
		WithLogger(sth.QuietLogger())
	so.WithIndexOptions(so.IndexOpts.WithFlushThld(cs.FlushThld).WithSyncThld(cs.FlushThld * 4).WithCompactionThld(cs.CompThld).WithMaxActiveSnapshots(200))
	opts := database.DefaultOptions().WithDBRootPath(dir).WithStoreOptions(so)
	return database.NewDB("c06db", nil, opts, sth.QuietLogger())
}

func envInt(name string, def int) int {
	if v := os.Getenv(name); v != "" {
		if n, err := strconv.Atoi(v); err == nil {
			return n
		}
	}
	return def
}

func runCase(c *fw.Ctx, cs caseSpec) {
	dir := c.Dir("c06")
	defer os.RemoveAll(dir)
	rn := &runner{c: c}
	h := hook.Install(&hook.Config{Seed: c.Seed*1000 + int64(cs.Idx), Perturb: cs.Perturb, MaxSleep: time.Duration(cs.MaxSleepUs) * time.Microsecond,
		OnNote: func(site string, a, b uint64, _ [32]byte) {
			switch site {
			case "store.issued":
				atomicMax(&rn.issued, a)
			case "store.committed":
				atomicMax(&rn.committed, a)
			}
		}})
	defer hook.Uninstall()
	db, err := openDB(dir, cs)
	if err != nil {
		c.Inconclusive("cannot create the database: " + err.Error())
		return
	}
	rn.db = db
	defer db.Close()

	seq := envInt("VERIF_C06_SEQ", 0) == 1 // development: one client, every read has a one-point window
	judged := 0
	var compactions []int64
	for round := 0; round < cs.Rounds; round++ {
		r := fw.NewRand(c.Seed, fmt.Sprintf("c06/case%d/round%d", cs.Idx, round))
		pl := genRound(r, cs.Idx, round, cs.MaxClients, cs.MaxOps)
		if seq {
			pl.Clients = pl.Clients[:1]
		}
		t0 := time.Now()
		res := rn.runRound(pl, c.Seed, cs.Idx, cs.Compaction)
		compactions = append(compactions, res.Compactions...)
		c.Count("ms_running", time.Since(t0).Milliseconds())
		c.Count("rounds", 1)
		c.Count("operations", int64(len(res.Recs)))
		if res.Broken != "" {
			c.Inconclusive(fmt.Sprintf("[%s round %d] %s", cs, round, res.Broken))
			break
		}
		ck := &checker{c: c, res: res, cfg: cs.String(), refKeys: map[string]bool{}, compactions: compactions}
		for _, k := range pl.Refs {
			ck.refKeys[k] = true
		}
		t1 := time.Now()
		ok := ck.checkRound()
		c.Count("ms_commit_order_checker", time.Since(t1).Milliseconds())
		if ok {
			judged++
			c.Count("rounds_judged", 1)
			t2 := time.Now()
			ck.porcupineRound()
			c.Count("ms_porcupine", time.Since(t2).Milliseconds())
			if round == 0 {
				nw, nr := 0, 0
				for _, rc := range res.Recs {
					if isWrite(rc.Op.Kind) {
						nw++
					} else {
						nr++
					}
				}
				c.Sample(map[string]any{"config": cs.String(), "round": round, "clients": len(pl.Clients), "plain_keys": len(pl.Plain), "ref_keys": len(pl.Refs), "sorted_sets": len(pl.ZSets),
					"writes": nw, "reads": nr, "txs": res.Last - res.Base})
			}
		}
		if n := rn.timeouts.Load(); n > 0 {
			c.Inconclusive(fmt.Sprintf("[%s round %d] %d operations did not return within %s: the database stopped making progress", cs, round, n, opTimeout))
			break
		}
		if c.Violations() >= 6 {
			break // enough witnesses from this case
		}
	}
	hits := h.Hits()
	hm := map[string]uint64{}
	for k, v := range hits {
		hm[k] = v
	}
	c.Set("hook_site_hits", hm)
	if hits["note:store.issued"] == 0 || hits["note:store.committed"] == 0 || hits["indexer.indexSince.beforeInsert"] == 0 {
		c.Inconclusive("hook sites never reached: was the harness built with -tags verif?")
	}
	if n := rn.otherErrs.Load(); n > 0 {
		c.Count("undocumented_errors", n)
	}
}

func init() {
	fw.RegisterIsolated("c06-case", func(c *fw.Ctx, data []byte) {
		var cs caseSpec
		if err := json.Unmarshal(data, &cs); err != nil {
			c.Inconclusive("bad case: " + err.Error())
			return
		}
		runCase(c, cs)
	})
}

func Run(c *fw.Ctx) {
	c.Rule = "rounds of 4-16 concurrent clients x <=40 PRNG operations (16 kinds) on one database.DB over 4-12 keys with unique values, with background flush/compaction and hook-point perturbation, batches of rounds isolated per child process; " +
		"an evaluation is one oracle decision: a read matched against the states S[p] of its window (one p for all keys of a multi-key read), a write's real-time order and conditions on S[t-1], a refusal's window, a final History against the acknowledged writes, or one porcupine verdict on a single-key projection; " +
		"distinct = (operation kind:outcome x operation kind:outcome) pairs observed concurrently on a common key, plus shapes of porcupine partitions checked"
	c.Assume("the tx id in the header returned by a write is its position in commit order (C02 checks ids and the chain)")
	c.Assume("store.committed / store.issued notes bound the committed frontier from below before a call and the issued frontier from above after a return")
	c.Assume("Count may or may not include keys whose latest version is a deletion; a read with SinceTx may return any state at or after that tx")
	r := c.Rand("c06/cases")
	ncase, rounds := c.N(20, 100), c.N(20, 100)
	if v := envInt("VERIF_C06_CASES", 0); v > 0 {
		ncase = v
	}
	if v := envInt("VERIF_C06_ROUNDS", 0); v > 0 {
		rounds = v
	}
	var cases [][]byte
	for i := 0; i < ncase; i++ {
		b, _ := json.Marshal(genCase(r, i, rounds))
		cases = append(cases, b)
	}
	c.RunIsolated("c06-case", cases, fw.CasesOpts{Workers: c.N(10, 14), CaseTimout: 15 * time.Minute})
	if envInt("VERIF_C06_DEBUG", 0) == 1 {
		for _, k := range []string{"rounds", "rounds_judged", "operations", "ms_running", "ms_commit_order_checker", "ms_porcupine", "porcupine_partitions", "porcupine_operations", "compactions", "flushes", "maintenance_errors", "concurrent_pairs_on_a_key", "read_conflicts", "open_writes_resolved", "undocumented_errors", "unexpected_refusals"} {
			fmt.Fprintf(os.Stderr, "  %s=%d\n", k, c.Counter(k))
		}
	}
}
