// Package c03: crash durability. Real synced workloads are run with a file-system
// journal (verifhook FS events) plus ack/issued markers; crash images are
// materialized at journal indexes under three loss models; on every image the
// store is reopened in a fresh child and the recovery obligations R1..R6 checked.
package c03

import (
	"bytes"
	"context"
	"crypto/sha256"
	"encoding/gob"
	"encoding/json"
	"errors"
	"fmt"
	"math/rand/v2"
	"os"
	"path/filepath"
	"sort"
	"strings"
	"sync"
	"sync/atomic"
	"syscall"
	"time"

	"github.com/codenotary/immudb/embedded/ahtree"
	"github.com/codenotary/immudb/embedded/logger"
	"github.com/codenotary/immudb/embedded/store"

	"verifharness/internal/fsjournal"
	"verifharness/internal/fw"
	"verifharness/internal/hook"
	"verifharness/internal/ledger"
	"verifharness/internal/sth"
)

func init() { fw.RegisterMonitor("C03", "fault_enumeration", Run) }

type traceCfg struct {
	Name       string
	Seed       int64
	Embedded   bool
	HdrVersion int
	IOConc     int
	MaxActive  int
	FileSize   int
	WriteBuf   int
	Committers int
	Txs        int
	ExtAllow   bool
	Compact    bool
	Reopen     bool
	FaultEvery int // >0: every n-th fsync/write at the fault sites fails (fault tier)
	// CloseWindow: no background maintenance in the last round and a final tx made of a non-indexable
	// entry only, so that the clean Close finds unflushed index entries and a logical time advanced
	// without content (the window between the index's timestamp file and its final flush)
	CloseWindow bool
	Dir         string
}

func (cf traceCfg) options() *store.Options {
	o := sth.SmallOpts().
		WithSynced(true).WithSyncFrequency(500 * time.Microsecond).
		WithEmbeddedValues(cf.Embedded).
		WithWriteTxHeaderVersion(cf.HdrVersion).
		WithMaxIOConcurrency(cf.IOConc).WithMaxConcurrency(8).
		WithMaxActiveTransactions(cf.MaxActive).
		WithFileSize(cf.FileSize).WithWriteBufferSize(cf.WriteBuf).
		WithMaxTxEntries(8).WithMaxKeyLen(32).WithMaxValueLen(300).
		WithTxLogCacheSize(4)
	o.WithIndexOptions(o.IndexOpts.WithCompactionThld(1).WithFlushThld(20).WithSyncThld(40).WithMaxNodeSize(512).WithCacheSize(32))
	o.WithAHTOptions(o.AHTOpts.WithSyncThld(16))
	return o
}

type traceFiles struct {
	Cfg    traceCfg
	Ledger []*ledger.Rec
}

var errInjected = fmt.Errorf("injected I/O error: %w", syscall.EIO)

// ---- trace generation (child) ----

func genTrace(c *fw.Ctx, data []byte) {
	var cf traceCfg
	json.Unmarshal(data, &cf)
	os.RemoveAll(cf.Dir)
	os.MkdirAll(cf.Dir, 0o755)
	storeDir := filepath.Join(cf.Dir, "store")
	j := hook.NewJournal()
	var faultN atomic.Uint64
	h := hook.Install(&hook.Config{Seed: cf.Seed, Perturb: 0.2, MaxSleep: 200 * time.Microsecond, Journal: j,
		OnNote: func(site string, a, b uint64, hh [32]byte) {
			if site == "store.issued" {
				j.Mark("issued", a, hh)
			}
		},
		FaultFn: func(site string, n uint64) error {
			if cf.FaultEvery > 0 && faultN.Add(1)%uint64(cf.FaultEvery) == 0 {
				return errInjected
			}
			return nil
		}})
	defer hook.Uninstall()
	led := ledger.New()
	st, err := store.Open(storeDir, cf.options())
	if err != nil {
		c.Inconclusive("trace open: " + err.Error())
		return
	}
	if cf.ExtAllow {
		st.SetExternalCommitAllowance(true)
	}
	var keySeq atomic.Uint64
	rounds := 2
	if cf.Reopen {
		rounds = 3
	}
	for round := 0; round < rounds; round++ {
		var wg sync.WaitGroup
		var left atomic.Int64
		left.Store(int64(cf.Txs / rounds))
		stop := make(chan struct{})
		for g := 0; g < cf.Committers; g++ {
			wg.Add(1)
			go func(g int) {
				defer wg.Done()
				r := fw.NewRand(cf.Seed, fmt.Sprintf("c03/%s/r%d/g%d", cf.Name, round, g))
				for left.Add(-1) >= 0 {
					ctx, cancel := context.WithTimeout(context.Background(), 20*time.Second)
					n := 1 + r.IntN(4)
					es := make([]ledger.Entry, 0, n)
					seen := map[string]bool{}
					for len(es) < n {
						k := fmt.Sprintf("k%02d", r.IntN(16))
						if r.IntN(4) == 0 {
							k = fmt.Sprintf("u%d-%d", g, keySeq.Add(1))
						}
						if seen[k] {
							continue
						}
						seen[k] = true
						v := make([]byte, []int{0, 3, 20, 120, 280}[r.IntN(5)])
						for i := range v {
							v[i] = byte('a' + r.IntN(26))
						}
						es = append(es, ledger.Entry{Key: []byte(k), Value: v, MD: ledger.MDBytes(kvmd(r, cf.HdrVersion))})
					}
					tx, err := st.NewWriteOnlyTx(ctx)
					if err == nil {
						for _, e := range es {
							tx.Set(e.Key, mdOf(e.MD), e.Value)
						}
						var hdr *store.TxHeader
						hdr, err = tx.Commit(ctx)
						if err == nil {
							if e := led.Ack(hdr, es); e != nil {
								c.Violation("trace/ack-id-reassigned", e.Error(), nil)
							}
							j.Mark("ack", hdr.ID, hdr.Alh())
						}
					}
					if err != nil {
						c.Count("trace_commit_errors", 1)
					}
					cancel()
				}
			}(g)
		}
		var bg sync.WaitGroup
		bg.Add(1)
		go func() {
			defer bg.Done()
			r := fw.NewRand(cf.Seed, fmt.Sprintf("c03/%s/r%d/maint", cf.Name, round))
			for {
				select {
				case <-stop:
					return
				default:
				}
				if cf.CloseWindow && round == rounds-1 {
					time.Sleep(time.Millisecond)
					continue
				}
				switch r.IntN(4) {
				case 0:
					st.FlushIndexes(float32(r.IntN(101)), r.IntN(2) == 0)
				case 1:
					if cf.Compact {
						st.CompactIndexes()
					}
				case 2:
					st.Sync()
				}
				if cf.ExtAllow {
					// allow with a lag so that a precommitted-but-uncommitted backlog exists
					if p := st.LastPrecommittedTxID(); p > uint64(r.IntN(3)) {
						st.AllowCommitUpto(p - uint64(r.IntN(3)))
					}
				}
				time.Sleep(time.Duration(100+r.IntN(400)) * time.Microsecond)
			}
		}()
		wg.Wait()
		close(stop)
		bg.Wait()
		if cf.ExtAllow {
			st.AllowCommitUpto(st.LastPrecommittedTxID())
		}
		if round < rounds-1 && cf.Reopen {
			j.Mark("close-begin", 0, [32]byte{})
			st.Close()
			j.Mark("close-end", 0, [32]byte{})
			st, err = store.Open(storeDir, cf.options())
			if err != nil {
				c.Violation("trace/reopen-failed", fmt.Sprintf("[%s] reopen after a clean close failed: %v", cf.Name, err), nil)
				return
			}
			if cf.ExtAllow {
				st.SetExternalCommitAllowance(true)
			}
			j.Mark("reopened", 0, [32]byte{})
		}
	}
	if cf.CloseWindow && cf.HdrVersion == 1 {
		// a tx without indexable entries moves the index's logical time through IncreaseTs
		md := store.NewKVMetadata()
		md.AsNonIndexable(true)
		ctx, cancel := context.WithTimeout(context.Background(), 20*time.Second)
		if tx, err := st.NewWriteOnlyTx(ctx); err == nil {
			es := []ledger.Entry{{Key: []byte("non-indexable-tail"), Value: []byte("x"), MD: ledger.MDBytes(md)}}
			tx.Set(es[0].Key, md, es[0].Value)
			if hdr, err := tx.Commit(ctx); err == nil {
				led.Ack(hdr, es)
				j.Mark("ack", hdr.ID, hdr.Alh())
			}
		}
		cancel()
	}
	j.Mark("close-begin", 0, [32]byte{})
	st.Close()
	j.Mark("close-end", 0, [32]byte{})
	tr := fsjournal.Relativize(j.Events(), storeDir)
	if err := tr.Save(filepath.Join(cf.Dir, "trace.gob")); err != nil {
		c.Inconclusive("save trace: " + err.Error())
		return
	}
	tf := traceFiles{Cfg: cf}
	for _, id := range led.IDs() {
		tf.Ledger = append(tf.Ledger, led.Get(id))
	}
	f, _ := os.Create(filepath.Join(cf.Dir, "ledger.gob"))
	gob.NewEncoder(f).Encode(&tf)
	f.Close()
	os.RemoveAll(storeDir)
	kinds := map[string]int{}
	for _, e := range tr.Events {
		k := e.Op.String()
		if e.Op == hook.OpMark {
			k = "mark:" + e.Kind
		}
		kinds[k]++
	}
	c.Set("trace_"+cf.Name, map[string]any{"events": len(tr.Events), "acks": led.Len(), "kinds": kinds})
	c.Count("trace_events", int64(len(tr.Events)))
	c.Count("trace_acks", int64(led.Len()))
	_ = h
}

var mdCands = func() []*store.KVMetadata {
	a := store.NewKVMetadata()
	a.AsDeleted(true)
	b := store.NewKVMetadata()
	b.ExpiresAt(time.Date(2100, 1, 1, 0, 0, 0, 0, time.UTC))
	d := store.NewKVMetadata()
	d.ExpiresAt(time.Date(2001, 1, 1, 0, 0, 0, 0, time.UTC))
	e := store.NewKVMetadata()
	e.AsNonIndexable(true)
	return []*store.KVMetadata{a, b, d, e}
}()

func kvmd(r *rand.Rand, ver int) *store.KVMetadata {
	if ver == 0 || r.IntN(3) > 0 {
		return nil
	}
	return mdCands[r.IntN(len(mdCands))]
}

func mdOf(b []byte) *store.KVMetadata {
	for _, m := range mdCands {
		if bytes.Equal(m.Bytes(), b) && b != nil {
			return m
		}
	}
	return nil
}

// ---- image checking (child) ----

type imgCase struct {
	Trace string // directory with trace.gob / ledger.gob
	P     int
	Model int
	Seed  uint64
	Deep  bool
	Slow  bool // solo re-run of a case whose first run hit a time limit: limits ×10
	Deep2 int  // > 0: also crash DURING the recovery of this image at that many PRNG points of the recovery's own journal
}

type loaded struct {
	tr     *fsjournal.Trace
	tf     traceFiles
	recs   map[uint64]*ledger.Rec
	issued map[uint64]map[[32]byte]int // id -> alh -> first journal index
	acks   []ackMark
}

type ackMark struct {
	idx int
	id  uint64
	alh [32]byte
}

var cache sync.Map

func load(dir string) (*loaded, error) {
	if v, ok := cache.Load(dir); ok {
		return v.(*loaded), nil
	}
	tr, err := fsjournal.Load(filepath.Join(dir, "trace.gob"))
	if err != nil {
		return nil, err
	}
	l := &loaded{tr: tr, recs: map[uint64]*ledger.Rec{}, issued: map[uint64]map[[32]byte]int{}}
	f, err := os.Open(filepath.Join(dir, "ledger.gob"))
	if err != nil {
		return nil, err
	}
	defer f.Close()
	if err := gob.NewDecoder(f).Decode(&l.tf); err != nil {
		return nil, err
	}
	for _, r := range l.tf.Ledger {
		l.recs[r.ID] = r
	}
	for i, e := range tr.Events {
		if e.Op != hook.OpMark {
			continue
		}
		switch e.Kind {
		case "issued":
			if l.issued[e.ID] == nil {
				l.issued[e.ID] = map[[32]byte]int{}
			}
			if _, ok := l.issued[e.ID][e.Hash]; !ok {
				l.issued[e.ID][e.Hash] = i
			}
		case "ack":
			l.acks = append(l.acks, ackMark{i, e.ID, e.Hash})
		}
	}
	cache.Store(dir, l)
	return l, nil
}

type imgResult struct {
	Skipped  bool // not evaluated: this child already met several images on which a step hit its time limit
	TimedOut bool // some step hit its (generous) time limit: decided only by a solo re-run
	Problems []ledger.Problem
	Info     fsjournal.Info
	Branch   string // recovery shape observed
	Acked    int
	Frontier uint64
	Err      string
	D2       []d2Result // crashes during recovery (second-level images)
}

type d2Result struct {
	Life2    bool // the recovered store went on working before the second crash
	P2, Len2 int
	Model    int
	Info     fsjournal.Info
	Branch   string
	Problems []ledger.Problem
}

func checkImage(scratch string, i int, data []byte) []byte {
	var ic imgCase
	json.Unmarshal(data, &ic)
	res := imgResult{}
	defer func() {}()
	l, err := load(ic.Trace)
	if err != nil {
		res.Err = "load: " + err.Error()
		b, _ := json.Marshal(res)
		return b
	}
	dir := filepath.Join(scratch, fmt.Sprintf("img%d", i))
	os.RemoveAll(dir)
	defer os.RemoveAll(dir)
	r := rand.New(rand.NewPCG(ic.Seed, uint64(ic.P)))
	info, err := fsjournal.Materialize(l.tr, ic.P, fsjournal.Model(ic.Model), r, dir)
	res.Info = info
	if err != nil {
		res.Err = "materialize: " + err.Error()
		b, _ := json.Marshal(res)
		return b
	}
	res.Problems, res.Branch, res.Acked, res.Frontier = recoverAndCheck(l, ic, dir)
	for _, p := range res.Problems {
		if strings.Contains(p.Detail, "deadline exceeded") {
			res.TimedOut = true
		}
	}
	if ic.Deep2 > 0 && res.Branch != "open-failed" && !res.TimedOut {
		res.D2 = crashDuringRecovery(l, ic, scratch, i)
		for _, d := range res.D2 {
			for _, p := range d.Problems {
				if strings.Contains(p.Detail, "deadline exceeded") {
					res.TimedOut = true
				}
			}
		}
	}
	b, _ := json.Marshal(res)
	return b
}

// crashDuringRecovery: the level-1 image is materialized twice (same PRNG, identical): on one copy the
// recovery itself (Open, settling of the precommitted backlog, indexing, Close) runs under the FS journal;
// second-level images are that journal cut at PRNG points and applied, under the three loss models, on top
// of the pristine copy (whose content is all durable: it is what the first crash left). Each second-level
// image must satisfy the same obligations R1-R6: recovery acknowledges nothing new.
func crashDuringRecovery(l *loaded, ic imgCase, scratch string, i int) (out []d2Result) {
	base := filepath.Join(scratch, fmt.Sprintf("img%d-base", i))
	work := filepath.Join(scratch, fmt.Sprintf("img%d-work", i))
	defer os.RemoveAll(base)
	defer os.RemoveAll(work)
	for _, d := range []string{base, work} {
		os.RemoveAll(d)
		r := rand.New(rand.NewPCG(ic.Seed, uint64(ic.P)))
		if _, err := fsjournal.Materialize(l.tr, ic.P, fsjournal.Model(ic.Model), r, d); err != nil {
			return nil
		}
	}
	j := hook.NewJournal()
	hook.Install(&hook.Config{Seed: int64(ic.Seed), Journal: j, OnNote: func(site string, a, b uint64, hh [32]byte) {
		if site == "store.issued" {
			j.Mark("issued", a, hh)
		}
	}})
	// second life (every other deep image, not with external commit allowance): after the recovery the store
	// goes on working - commits that rewrite existing keys, index flushes that are not fsynced - before the
	// second crash. The files then hold what a recovery leaves behind (offsets moved back over bytes that stay
	// in the file), which no trace starting from an empty directory produces.
	life2 := !l.tf.Cfg.ExtAllow && ic.P%2 == 0
	led2 := ledger.New()
	func() {
		defer hook.Uninstall()
		st, err := store.Open(work, l.tf.Cfg.options())
		if err != nil {
			return
		}
		defer st.Close()
		if life2 {
			defer func() {
				j.Mark("life2-begin", 0, [32]byte{})
				r2 := rand.New(rand.NewPCG(ic.Seed^0x11fe2, uint64(ic.P)))
				for k, nk := 0, 4+r2.IntN(8); k < nk; k++ {
					ctx, cancel := context.WithTimeout(context.Background(), 20*time.Second)
					tx, err := st.NewWriteOnlyTx(ctx)
					if err != nil {
						cancel()
						return
					}
					var es []ledger.Entry
					seen := map[string]bool{}
					for n := 1 + r2.IntN(3); len(es) < n; {
						key := fmt.Sprintf("k%02d", r2.IntN(6))
						if seen[key] {
							continue
						}
						seen[key] = true
						v := make([]byte, []int{0, 3, 40, 200}[r2.IntN(4)])
						for i := range v {
							v[i] = byte('A' + r2.IntN(26))
						}
						es = append(es, ledger.Entry{Key: []byte(key), Value: v})
						tx.Set(es[len(es)-1].Key, nil, v)
					}
					hdr, err := tx.Commit(ctx)
					cancel()
					if err != nil {
						return
					}
					led2.Ack(hdr, es)
					j.Mark("ack", hdr.ID, hdr.Alh())
					switch r2.IntN(4) {
					case 0, 1:
						st.FlushIndexes(float32(r2.IntN(101)), false)
					case 2:
						st.FlushIndexes(0, true)
					}
				}
			}()
		}
		if l.tf.Cfg.ExtAllow {
			st.SetExternalCommitAllowance(true)
		}
		lim := 30 * time.Second
		if ic.Slow {
			lim *= 10
		}
		if pre := st.LastPrecommittedTxID(); !l.tf.Cfg.ExtAllow && pre > st.LastCommittedTxID() {
			ctx, cancel := context.WithTimeout(context.Background(), lim)
			st.WaitForTx(ctx, pre, false)
			cancel()
		}
		if n := st.LastCommittedTxID(); n > 0 {
			ctx, cancel := context.WithTimeout(context.Background(), lim)
			st.WaitForIndexingUpto(ctx, n)
			cancel()
		}
	}()
	t2 := fsjournal.Relativize(j.Events(), work)
	n2 := len(t2.Events)
	if n2 == 0 {
		return nil
	}
	if os.Getenv("VERIF_C03_FAITHFUL") != "" { // development aid: the journal replayed in full must give the directory as it is
		chk := filepath.Join(scratch, fmt.Sprintf("img%d-faithful", i))
		os.RemoveAll(chk)
		if _, err := fsjournal.MaterializeOn(base, t2, n2, fsjournal.Model(0), rand.New(rand.NewPCG(1, 1)), chk); err == nil {
			filepath.Walk(work, func(p string, fi os.FileInfo, err error) error {
				if err != nil || fi.IsDir() {
					return nil
				}
				rel, _ := filepath.Rel(work, p)
				a, _ := os.ReadFile(p)
				b, err2 := os.ReadFile(filepath.Join(chk, rel))
				if err2 != nil {
					fmt.Printf("FAITHFUL: %s missing in the replayed image\n", rel)
				} else if !bytes.Equal(a, b) {
					d := 0
					for d < len(a) && d < len(b) && a[d] == b[d] {
						d++
					}
					fmt.Printf("FAITHFUL: %s differs (real %d bytes, replayed %d bytes, first difference at %d)\n", rel, len(a), len(b), d)
				}
				return nil
			})
			filepath.Walk(chk, func(p string, fi os.FileInfo, err error) error {
				if err != nil || fi.IsDir() {
					return nil
				}
				rel, _ := filepath.Rel(chk, p)
				if _, e := os.Stat(filepath.Join(work, rel)); e != nil {
					fmt.Printf("FAITHFUL: %s exists only in the replayed image\n", rel)
				}
				return nil
			})
			fmt.Printf("FAITHFUL: compared life2=%v events=%d\n", life2, n2)
		}
		os.RemoveAll(chk)
	}
	// what the second-level images of a second life are judged against: everything acknowledged before the first
	// crash point (it must have survived the first recovery, and must survive the second), what was issued before
	// it, and the acknowledgements / issued ids of the second life at their positions in its own journal
	var l2 *loaded
	life2At := n2 // journal index at which the second life begins
	if life2 {
		l2 = &loaded{tr: t2, tf: l.tf, recs: map[uint64]*ledger.Rec{}, issued: map[uint64]map[[32]byte]int{}}
		for _, a := range l.acks {
			if a.idx < ic.P {
				l2.acks = append(l2.acks, ackMark{-1, a.id, a.alh})
				l2.recs[a.id] = l.recs[a.id]
			}
		}
		for id, m := range l.issued {
			for alh, idx := range m {
				if idx < ic.P {
					if l2.issued[id] == nil {
						l2.issued[id] = map[[32]byte]int{}
					}
					l2.issued[id][alh] = -1
				}
			}
		}
		for k, e := range t2.Events {
			if e.Op != hook.OpMark {
				continue
			}
			switch e.Kind {
			case "life2-begin":
				life2At = k
			case "issued":
				if l2.issued[e.ID] == nil {
					l2.issued[e.ID] = map[[32]byte]int{}
				}
				if _, ok := l2.issued[e.ID][e.Hash]; !ok {
					l2.issued[e.ID][e.Hash] = k
				}
			case "ack":
				l2.acks = append(l2.acks, ackMark{k, e.ID, e.Hash})
				l2.recs[e.ID] = led2.Get(e.ID)
			}
		}
	}
	r := rand.New(rand.NewPCG(ic.Seed^0xd2, uint64(ic.P)))
	pts := map[int]bool{}
	for k := 0; k < ic.Deep2; k++ {
		pts[r.IntN(n2+1)] = true
	}
	// right before and after a PRNG-chosen fsync / directory operation of the recovery
	var special []int
	for k, e := range t2.Events {
		if e.Op != hook.OpWrite && e.Op != hook.OpMark {
			special = append(special, k)
		}
	}
	if len(special) > 0 {
		k := special[r.IntN(len(special))]
		pts[k], pts[k+1] = true, true
	}
	ps := make([]int, 0, len(pts))
	for p2 := range pts {
		ps = append(ps, p2)
	}
	sort.Ints(ps)
	for _, p2 := range ps {
		m2 := []int{0, 1, 2, 2}[r.IntN(4)]
		dir := filepath.Join(scratch, fmt.Sprintf("img%d-d2", i))
		os.RemoveAll(dir)
		info, err := fsjournal.MaterializeOn(base, t2, p2, fsjournal.Model(m2), rand.New(rand.NewPCG(ic.Seed^0xd2d2, uint64(p2))), dir)
		if err != nil {
			os.RemoveAll(dir)
			continue
		}
		d := d2Result{P2: p2, Len2: n2, Model: m2, Info: info}
		if life2 {
			ic2 := ic
			ic2.P = p2
			d.Problems, d.Branch, _, _ = recoverAndCheck(l2, ic2, dir)
			d.Life2 = p2 > life2At // a cut inside the recovery part of the journal is a crash during recovery
		} else {
			d.Problems, d.Branch, _, _ = recoverAndCheck(l, ic, dir)
		}
		os.RemoveAll(dir)
		out = append(out, d)
	}
	return out
}

func recoverAndCheck(l *loaded, ic imgCase, dir string) (ps []ledger.Problem, branch string, nacked int, frontier uint64) {
	transient := 0
	defer func() {
		if transient > 0 {
			branch += "/transient-read-error"
		}
	}()
	add := func(sig, f string, a ...any) { ps = append(ps, ledger.Problem{Sig: sig, Detail: fmt.Sprintf(f, a...)}) }
	// acknowledgements that happened before the crash point
	var acked []ackMark
	for _, a := range l.acks {
		if a.idx < ic.P {
			acked = append(acked, a)
		}
	}
	nacked = len(acked)
	var lastAck uint64
	for _, a := range acked {
		if a.id > lastAck {
			lastAck = a.id
		}
	}
	opts := l.tf.Cfg.options()
	capLog := &capLogger{}
	opts.WithLogger(capLog)
	if os.Getenv("VERIF_C03_VERBOSE") != "" {
		opts.WithLogger(logger.NewSimpleLoggerWithLevel("c03", os.Stderr, logger.LogDebug))
	}
	st, err := store.Open(dir, opts)
	if err != nil {
		add("R1/open-failed", "store does not reopen on the crash image: %v", err)
		return ps, "open-failed", nacked, 0
	}
	defer st.Close()
	if l.tf.Cfg.ExtAllow {
		st.SetExternalCommitAllowance(true)
	}
	// precommitted txs found in the tx log are committed by the store on its own after open: let that
	// settle (bounded) so that the frontier is read once it is stable
	pre := st.LastPrecommittedTxID()
	pre0, comm0 := pre, st.LastCommittedTxID()
	if !l.tf.Cfg.ExtAllow && pre > comm0 {
		wctx, wcancel := context.WithTimeout(context.Background(), 30*time.Second)
		st.WaitForTx(wctx, pre, false)
		wcancel()
	}
	n := st.LastCommittedTxID()
	pre = st.LastPrecommittedTxID()
	frontier = n
	_ = pre0
	branch = fmt.Sprintf("committed%+d-precommitted%+d", sgn(int64(comm0)-int64(lastAck)), sgn(int64(pre0)-int64(comm0)))
	// R3 frontier
	if n < lastAck {
		add("R2/acknowledged-tx-lost", "recovered committed frontier %d is below the last acknowledged tx %d", n, lastAck)
	}
	tx := store.NewTx(8, 32)
	hdrs := make([]*store.TxHeader, n)
	for id := uint64(1); id <= n; id++ {
		err := st.ReadTx(id, false, tx)
		for try := 0; err != nil && try < 3; try++ {
			// a read error that goes away when repeated is a transient fault of the read path (seen: the
			// multi-file appendable's handle cache under concurrent readers), not lost or altered data
			time.Sleep(5 * time.Millisecond)
			if err2 := st.ReadTx(id, false, tx); err2 == nil {
				transient++
				err = nil
			}
		}
		if err != nil {
			add("R3/unreadable-tx", "ReadTx(%d) inside the recovered range 1..%d: %v", id, n, err)
			return
		}
		h := tx.Header()
		hdrs[id-1] = h
		alh := h.Alh()
		if rec := l.recs[id]; rec != nil && ackedBefore(acked, id) {
			// R2: byte-identical to what was acknowledged
			hb, _ := h.Bytes()
			if !bytes.Equal(hb, rec.Hdr) || alh != rec.Alh {
				add("R2/acknowledged-tx-changed", "tx %d header/alh differs from the acknowledged one", id)
				continue
			}
			es := tx.Entries()
			if len(es) != len(rec.Entries) {
				add("R2/acknowledged-tx-changed", "tx %d has %d entries, acknowledged %d", id, len(es), len(rec.Entries))
				continue
			}
			for k, e := range es {
				w := rec.Entries[k]
				if !bytes.Equal(e.Key(), w.Key) || !bytes.Equal(ledger.MDBytes(e.Metadata()), w.MD) || e.HVal() != sha256.Sum256(w.Value) {
					add("R2/acknowledged-tx-changed", "tx %d entry %d differs from the acknowledged one", id, k)
					continue
				}
				v, err := st.ReadValue(e)
				if err != nil {
					if errors.Is(err, store.ErrExpiredEntry) {
						continue
					}
					add("R2/acknowledged-value-unreadable", "tx %d entry %d (%q): %v", id, k, w.Key, err)
				} else if !bytes.Equal(v, w.Value) {
					add("R2/acknowledged-value-changed", "tx %d entry %d (%q) value differs", id, k, w.Key)
				}
			}
		} else {
			// recovered beyond (or beside) the acknowledged ones: must be something the database really issued
			if idx, ok := l.issued[id][alh]; !ok || idx >= ic.P {
				add("R3/recovered-tx-never-issued", "recovered tx %d (alh %x) was never precommitted by the database before the crash point", id, alh[:6])
			}
		}
	}
	for _, p := range ledger.ChainProblems(hdrs) {
		add("R3/"+p.Sig, "%s", p.Detail)
	}
	if cid, calh := st.CommittedAlh(); cid != n || (n > 0 && calh != hdrs[n-1].Alh()) {
		add("R3/state-not-last-alh", "CommittedAlh reports (%d,%x)", cid, calh[:6])
	}
	// R4: a client holding a state verified before the crash can prove consistency
	if n > 0 && len(acked) > 0 {
		srcs := []ackMark{acked[len(acked)-1], acked[len(acked)/2]}
		for _, src := range srcs {
			if src.id > n {
				continue
			}
			dual, err := st.DualProof(hdrs[src.id-1], hdrs[n-1])
			if err != nil {
				add("R4/dualproof-error", "DualProof(%d,%d): %v", src.id, n, err)
				continue
			}
			if !store.VerifyDualProof(dual, src.id, n, src.alh, hdrs[n-1].Alh()) {
				add("R4/consistency-proof-rejected", "a client trusting acknowledged state (%d,%x) cannot verify the recovered state %d%s", src.id, src.alh[:6], n, dualDiag(dual, src, hdrs))
			}
		}
	}
	// R5: the index agrees with the recovered log
	mult := time.Duration(1)
	if ic.Slow {
		mult = 10
	}
	ctx, cancel := context.WithTimeout(context.Background(), mult*25*time.Second)
	defer cancel()
	if n > 0 {
		ictx, icancel := context.WithTimeout(ctx, mult*6*time.Second)
		err := st.WaitForIndexingUpto(ictx, n)
		icancel()
		if err != nil {
			add("R5/indexing-does-not-catch-up"+capLog.indexError(), "WaitForIndexingUpto(%d): %v", n, err)
		} else {
			type ver struct {
				tx    uint64
				hval  [32]byte
				gone  bool
				vlen  int
				entry *store.TxEntry
			}
			model := map[string]ver{}
			for id := uint64(1); id <= n; id++ {
				if err := st.ReadTx(id, false, tx); err != nil {
					break
				}
				for _, e := range tx.Entries() {
					md := e.Metadata()
					if md != nil && md.NonIndexable() {
						continue
					}
					gone := md != nil && (md.Deleted() || md.ExpiredAt(time.Date(2050, 1, 1, 0, 0, 0, 0, time.UTC)))
					model[string(e.Key())] = ver{tx: id, hval: e.HVal(), gone: gone, vlen: e.VLen()}
				}
			}
			keys := make([]string, 0, len(model))
			for k := range model {
				keys = append(keys, k)
			}
			sort.Strings(keys)
			for _, k := range keys {
				want := model[k]
				ref, err := st.Get(ctx, []byte(k))
				switch {
				case want.gone:
					if err == nil {
						add("R5/index-serves-deleted-or-expired", "Get(%q) returns tx %d but the latest version (tx %d) is deleted/expired", k, ref.Tx(), want.tx)
					}
				case err != nil:
					add("R5/index-misses-key", "Get(%q): %v; latest version is in tx %d", k, err, want.tx)
				case ref.Tx() != want.tx || ref.HVal() != want.hval:
					add("R5/index-stale-or-wrong", "Get(%q) returns tx %d, the recovered log says tx %d", k, ref.Tx(), want.tx)
				}
			}
		}
	}
	// R6: the database accepts new commits, chained to the recovered history
	if l.tf.Cfg.ExtAllow {
		st.AllowCommitUpto(st.LastPrecommittedTxID())
		st.DiscardPrecommittedTxsSince(n + 1)
	}
	pre2 := st.LastPrecommittedTxID()
	go func() {
		// with external allowance the commit needs to be allowed once precommitted
		if l.tf.Cfg.ExtAllow {
			for i := 0; i < 2000; i++ {
				st.AllowCommitUpto(st.LastPrecommittedTxID())
				time.Sleep(time.Millisecond)
				if ctx.Err() != nil {
					return
				}
			}
		}
	}()
	ntx, err := st.NewWriteOnlyTx(ctx)
	if err == nil {
		ntx.Set([]byte("after-crash"), nil, []byte("v"))
		var hdr *store.TxHeader
		cctx, ccancel := context.WithTimeout(ctx, mult*8*time.Second)
		hdr, err = ntx.AsyncCommit(cctx) // the commit path alone; indexing is judged by R5
		ccancel()
		if err == nil {
			if hdr.ID != pre2+1 {
				add("R6/new-commit-wrong-id", "new commit got id %d, precommitted frontier was %d", hdr.ID, pre2)
			}
			if hdr.ID == n+1 && n > 0 && hdr.PrevAlh != hdrs[n-1].Alh() {
				add("R6/new-commit-not-chained", "new commit %d does not chain to the recovered tx %d", hdr.ID, n)
			}
		}
	}
	if err != nil {
		sig := "R6/new-commit-refused"
		if why := capLog.syncError(); why != "" && errors.Is(err, context.DeadlineExceeded) {
			// the commit never completes because the store's syncer fails on every round: name the error
			sig += "/syncer-keeps-failing:" + why
		}
		add(sig, "the recovered database refuses a new commit: %v%s", err, capLog.tail())
	} else {
		// the new commit must not have damaged what was recovered (e.g. by writing over reloaded txs)
		for id := uint64(1); id <= n; id++ {
			if err := st.ReadTx(id, false, tx); err != nil {
				add("R6/new-commit-damaged-recovered-tx", "after the new commit ReadTx(%d) fails: %v", id, err)
				break
			}
			if tx.Header().Alh() != hdrs[id-1].Alh() {
				add("R6/new-commit-damaged-recovered-tx", "after the new commit tx %d reads back with another alh", id)
				break
			}
		}
	}
	return
}

func ackedBefore(acked []ackMark, id uint64) bool {
	for _, a := range acked {
		if a.id == id {
			return true
		}
	}
	return false
}

func sgn(x int64) int {
	switch {
	case x < 0:
		return -1
	case x > 0:
		return 1
	}
	return 0
}

func init() {
	fw.RegisterIsolated("c03-trace", genTrace)
	fw.RegisterChild("c03-image", func(setup []byte, scratch string) func(i int, data []byte) []byte {
		// a store that stopped making progress costs a full time limit per image: after a few of them in this
		// child the remaining images are not evaluated (counted as inconclusive by the parent), so that a
		// tree on which recovery hangs is reported from the solo re-runs within minutes, not hours
		hung := 0
		return func(i int, data []byte) []byte {
			if hung >= 6 {
				b, _ := json.Marshal(imgResult{Skipped: true})
				return b
			}
			out := checkImage(scratch, i, data)
			var res imgResult
			if json.Unmarshal(out, &res) == nil && res.TimedOut {
				var ic imgCase
				if json.Unmarshal(data, &ic) == nil && !ic.Slow {
					hung++
				}
			}
			return out
		}
	})
}

// ---- parent ----

func replay(c *fw.Ctx) {
	b, err := os.ReadFile(filepath.Join(c.ReplayPath, "case.json"))
	if err != nil {
		c.Inconclusive("replay: " + err.Error())
		return
	}
	var ic imgCase
	json.Unmarshal(b, &ic)
	ic.Trace = c.ReplayPath // trace.gob / ledger.gob are stored next to the case
	b, _ = json.Marshal(ic)
	var res imgResult
	json.Unmarshal(checkImage(c.Dir("replay"), 0, b), &res)
	c.Eval(1)
	c.Distinct("replay/" + res.Branch)
	c.Distinct("replay/info/" + res.Info.KindAtP)
	fmt.Printf("replay: %+v\n", res.Info)
	for _, p := range res.Problems {
		fmt.Printf("  problem %s: %s\n", p.Sig, p.Detail)
		c.Violation(p.Sig, p.Detail, nil)
	}
	for _, d := range res.D2 {
		for _, p := range d.Problems {
			fmt.Printf("  second-level image (life2=%v, event %d of %d, model %s) problem %s: %s\n", d.Life2, d.P2, d.Len2, fsjournal.Model(d.Model), p.Sig, p.Detail)
			c.Violation(p.Sig+"/second-level", p.Detail, nil)
		}
	}
	if res.Err != "" {
		c.Inconclusive(res.Err)
	}
}

func Run(c *fw.Ctx) {
	c.Level = "fault_enumeration"
	if c.ReplayPath != "" {
		replay(c)
		return
	}
	c.Rule = "traces = real synced workloads journaled at os.File level (writes with offsets and bytes, fsyncs, dir fsyncs, removals, renames) with ack/issued markers; a case = (trace, journal index p, loss model M0 kill / M1 nothing un-fsynced / M2 per-file prefix + torn last write); on each materialized image: R1 open, R2 acknowledged txs identical, R3 dense chained frontier made only of issued txs, R4 dual proof from an acknowledged state, R5 index agrees with the log, R6 new commit; one level-1 image in twelve is also crashed DURING its own recovery (the recovery's journal cut at PRNG points, same loss models, same obligations); distinct = (journal event kind at p × model × recovery shape × image traits)"
	c.Assume("a crash image contains, per file, its fsynced content plus (M2) a prefix of the later writes; arbitrary subsets of un-fsynced writes are not generated (the property quantifies over per-file prefixes)")
	c.Assume("directory entries become durable at the directory fsync that follows (strict POSIX); M0 keeps every issued write")
	r := c.Rand("c03/traces")
	ntr := c.N(3, 8)
	if v := os.Getenv("VERIF_C03_TRACES"); v != "" {
		fmt.Sscan(v, &ntr) // development aid
	}
	root := c.Dir("traces")
	var tcases [][]byte
	var cfgs []traceCfg
	for i := 0; i < ntr; i++ {
		cf := traceCfg{
			Name: fmt.Sprintf("t%d", i), Seed: c.Seed*1000 + int64(i),
			Embedded: r.IntN(3) == 0, HdrVersion: r.IntN(2), IOConc: 1 + r.IntN(3),
			MaxActive:  []int{3, 8, 100}[r.IntN(3)],
			FileSize:   []int{1024, 2048, 4096}[r.IntN(3)],
			WriteBuf:   []int{512, 1024, 4096}[r.IntN(3)],
			Committers: 2 + r.IntN(5), Txs: c.N(90, 240),
			ExtAllow: i%3 == 2, Compact: i%2 == 1, Reopen: i%3 != 0,
			Dir: filepath.Join(root, fmt.Sprintf("t%d", i)),
		}
		if c.Thorough() && i%6 == 5 {
			cf.FaultEvery = 37 + r.IntN(60)
		}
		if i%3 == 0 {
			cf.CloseWindow, cf.HdrVersion = true, 1
		}
		if cf.Embedded {
			cf.IOConc = 1
		}
		if cf.ExtAllow {
			cf.MaxActive = 100
		}
		cfgs = append(cfgs, cf)
		b, _ := json.Marshal(cf)
		tcases = append(tcases, b)
	}
	c.RunIsolated("c03-trace", tcases, fw.CasesOpts{Workers: 6, CaseTimout: 5 * time.Minute})

	// crash points
	var cases [][]byte
	var meta []imgCase
	pr := c.Rand("c03/points")
	for _, cf := range cfgs {
		tr, err := fsjournal.Load(filepath.Join(cf.Dir, "trace.gob"))
		if err != nil {
			c.Inconclusive("trace " + cf.Name + " missing: " + err.Error())
			continue
		}
		pts := map[int]bool{}
		n := len(tr.Events)
		if c.Thorough() {
			for p := 0; p <= n; p++ {
				pts[p] = true
			}
		} else {
			for i, e := range tr.Events {
				interesting := e.Op == hook.OpSync || e.Op == hook.OpCreate || e.Op == hook.OpSyncDir || e.Op == hook.OpRename || e.Op == hook.OpRemove || e.Op == hook.OpRemoveAll ||
					(e.Op == hook.OpMark && e.Kind != "issued")
				if interesting && pr.IntN(3) == 0 {
					pts[i] = true
					pts[i+1] = true
				}
			}
			for k := 0; k < 150; k++ {
				pts[pr.IntN(n+1)] = true
			}
			// every point inside a clean Close (ts file, final flushes, file closes): few and rarely hit at random
			inClose := false
			for i, e := range tr.Events {
				if e.Op == hook.OpMark && e.Kind == "close-begin" {
					inClose = true
				}
				if inClose {
					pts[i] = true
				}
				if e.Op == hook.OpMark && e.Kind == "close-end" {
					inClose = false
				}
			}
		}
		ps := make([]int, 0, len(pts))
		for p := range pts {
			ps = append(ps, p)
		}
		sort.Ints(ps)
		for _, p := range ps {
			models := []int{0, 1, 2, 2}
			if c.Thorough() {
				models = []int{0, 1, 2, 2, 2}
			}
			for k, m := range models {
				ic := imgCase{Trace: cf.Dir, P: p, Model: m, Seed: uint64(c.Seed)*7919 + uint64(k)}
				if pr.IntN(10) == 0 {
					ic.Deep2 = 5
				}
				if os.Getenv("VERIF_C03_ONLY_DEEP") != "" && ic.Deep2 == 0 { // development aid
					continue
				}
				b, _ := json.Marshal(ic)
				cases = append(cases, b)
				meta = append(meta, ic)
			}
		}
	}
	c.Set("crash_images_planned", len(cases))
	sampled := 0
	var retry [][]byte
	var retryMeta []imgCase
	skipped := 0
	var handle func(cases [][]byte, meta []imgCase, final bool) func(rs fw.CaseResult)
	handle = func(cases [][]byte, meta []imgCase, final bool) func(rs fw.CaseResult) {
		return func(rs fw.CaseResult) {
			ic := meta[rs.Index]
			where := fmt.Sprintf("trace=%s p=%d model=%s seed=%d", filepath.Base(ic.Trace), ic.P, fsjournal.Model(ic.Model), ic.Seed)
			switch {
			case rs.TimedOut:
				c.Inconclusive("image check timed out: " + where)
				return
			case rs.Crashed:
				sig := fw.PanicSignature(rs.Text)
				c.Violation("R1/crash-on-recovery/"+sig, fmt.Sprintf("the process died while recovering or reading a crash image (%s): %s", where, firstLines(rs.Text, 10)),
					map[string][]byte{"case.json": cases[rs.Index], "stderr.txt": []byte(rs.Text)})
				return
			}
			var res imgResult
			if err := json.Unmarshal(rs.Out, &res); err != nil || res.Err != "" {
				c.Inconclusive(fmt.Sprintf("image %s: %v %s", where, err, res.Err))
				return
			}
			if res.Skipped {
				c.Count("images_skipped_after_repeated_time_limits", 1)
				skipped++
				return
			}
			if res.TimedOut && !final {
				// a time limit fired on a loaded machine: not a verdict; re-run alone with limits ×10
				// (the first few only: each costs minutes when the store really hangs)
				c.Count("time_limit_hits", 1)
				if len(retry) >= 8 {
					skipped++
					return
				}
				ic.Slow = true
				b, _ := json.Marshal(ic)
				retry = append(retry, b)
				retryMeta = append(retryMeta, ic)
				c.Count("time_limit_reruns", 1)
				return
			}
			c.Eval(1)
			c.Count("images_"+fsjournal.Model(ic.Model).String(), 1)
			c.Distinct(fmt.Sprintf("at=%s/%s/%s/torn=%v/dirop=%v", res.Info.KindAtP, fsjournal.Model(ic.Model), res.Branch, res.Info.TornWrites > 0, res.Info.PendingDirOp > 0))
			if sampled < 4 && res.Acked > 0 {
				sampled++
				c.Sample(map[string]any{"case": where, "event_at_p": res.Info.KindAtP, "files": res.Info.Files, "torn_writes": res.Info.TornWrites, "dropped_writes": res.Info.DroppedWrite, "acked_before_p": res.Acked, "recovered_frontier": res.Frontier, "recovery": res.Branch})
			}
			for _, d := range res.D2 {
				c.Eval(1)
				c.Count("images_during_recovery", 1)
				kind2, suffix := "during-recovery", "/crash-during-recovery"
				if d.Life2 {
					kind2, suffix = "second-life", "/crash-in-the-life-after-a-recovery"
					c.Count("images_in_a_second_life", 1)
				}
				c.Distinct(fmt.Sprintf("%s/at=%s/%s/%s/after-%s", kind2, d.Info.KindAtP, fsjournal.Model(d.Model), d.Branch, fsjournal.Model(ic.Model)))
				for _, p := range d.Problems {
					files := map[string][]byte{"case.json": cases[rs.Index]}
					if tb, err := os.ReadFile(filepath.Join(ic.Trace, "trace.gob")); err == nil && len(tb) < 64<<20 {
						files["trace.gob"] = tb
						files["ledger.gob"], _ = os.ReadFile(filepath.Join(ic.Trace, "ledger.gob"))
					}
					c.Violation(p.Sig+suffix, fmt.Sprintf("[%s; second crash at event %d of %d of the recovery's own journal (%s), model %s] %s", where, d.P2, d.Len2, d.Info.KindAtP, fsjournal.Model(d.Model), p.Detail), files)
				}
			}
			for _, p := range res.Problems {
				files := map[string][]byte{"case.json": cases[rs.Index]}
				if tb, err := os.ReadFile(filepath.Join(ic.Trace, "trace.gob")); err == nil && len(tb) < 64<<20 {
					files["trace.gob"] = tb
					files["ledger.gob"], _ = os.ReadFile(filepath.Join(ic.Trace, "ledger.gob"))
				}
				c.Violation(p.Sig, fmt.Sprintf("[%s] %s", where, p.Detail), files)
			}
		}
	}
	c.RunCases("c03-image", nil, cases, fw.CasesOpts{Workers: 15, CaseTimout: 3 * time.Minute}, handle(cases, meta, false))
	if len(retry) > 0 {
		c.RunCases("c03-image", nil, retry, fw.CasesOpts{Workers: 2, CaseTimout: 10 * time.Minute}, handle(retry, retryMeta, true))
	}
	if skipped > 0 {
		c.Inconclusive(fmt.Sprintf("%d crash images were not evaluated (or not re-run alone) after repeated time-limit hits", skipped))
	}
}

func firstLines(s string, n int) string {
	out := ""
	for i, line := range bytes.SplitN([]byte(s), []byte("\n"), n+1) {
		if i >= n {
			break
		}
		out += string(line) + "\n"
	}
	return out
}

// dualDiag names the part of a rejected dual proof that does not verify (diagnosis only, part of the report).
func dualDiag(p *store.DualProof, src ackMark, hdrs []*store.TxHeader) string {
	if p == nil || p.SourceTxHeader == nil || p.TargetTxHeader == nil {
		return " [proof or headers missing]"
	}
	sh, th := p.SourceTxHeader, p.TargetTxHeader
	leaf := func(d [32]byte) [32]byte {
		var b [33]byte
		copy(b[1:], d[:])
		return sha256.Sum256(b[:])
	}
	var out []string
	if sh.Alh() != src.alh {
		out = append(out, fmt.Sprintf("source header alh %x is not the acknowledged one", sh.Alh()))
	}
	if src.id < th.BlTxID && !ahtree.VerifyInclusion(p.InclusionProof, src.id, th.BlTxID, leaf(src.alh), th.BlRoot) {
		out = append(out, fmt.Sprintf("inclusion of tx %d in the target tree of size %d", src.id, th.BlTxID))
	}
	if sh.BlTxID > 0 && !ahtree.VerifyConsistency(p.ConsistencyProof, sh.BlTxID, th.BlTxID, sh.BlRoot, th.BlRoot) {
		out = append(out, fmt.Sprintf("consistency of trees %d -> %d", sh.BlTxID, th.BlTxID))
	}
	if th.BlTxID > 0 && !ahtree.VerifyLastInclusion(p.LastInclusionProof, th.BlTxID, leaf(p.TargetBlTxAlh), th.BlRoot) {
		real := ""
		if int(th.BlTxID) <= len(hdrs) && hdrs[th.BlTxID-1] != nil && hdrs[th.BlTxID-1].Alh() != p.TargetBlTxAlh {
			real = fmt.Sprintf(" (TargetBlTxAlh %x is not alh of tx %d)", p.TargetBlTxAlh[:6], th.BlTxID)
		}
		out = append(out, fmt.Sprintf("last inclusion in the target tree of size %d%s", th.BlTxID, real))
	}
	return fmt.Sprintf(" [source BlTxID %d, target BlTxID %d; failing parts: %s]", sh.BlTxID, th.BlTxID, strings.Join(out, "; "))
}

// capLogger keeps the error messages the store logs during one recovery check (the store reports a failing
// background syncer only there); they name the cause of a commit that never completes.
type capLogger struct {
	mu   sync.Mutex
	errs map[string]int
}

func (c *capLogger) Errorf(f string, a ...interface{}) {
	c.mu.Lock()
	if c.errs == nil {
		c.errs = map[string]int{}
	}
	if len(c.errs) < 32 {
		c.errs[fmt.Sprintf(f, a...)]++
	} else if m := fmt.Sprintf(f, a...); c.errs[m] > 0 {
		c.errs[m]++
	}
	c.mu.Unlock()
}
func (c *capLogger) Warningf(string, ...interface{}) {}
func (c *capLogger) Infof(string, ...interface{})    {}
func (c *capLogger) Debugf(string, ...interface{})   {}
func (c *capLogger) Close() error                    { return nil }

// syncError: the (normalised) error the syncer reported, "" if none.
func (c *capLogger) syncError() string {
	c.mu.Lock()
	defer c.mu.Unlock()
	for m := range c.errs {
		if strings.Contains(m, "while syncing transactions") {
			m = strings.TrimSuffix(strings.TrimSpace(m), ": while syncing transactions")
			return strings.ReplaceAll(strings.ReplaceAll(m, " ", "-"), ":", "")
		}
	}
	return ""
}

func (c *capLogger) tail() string {
	c.mu.Lock()
	defer c.mu.Unlock()
	out := ""
	for m, n := range c.errs {
		out += fmt.Sprintf("; store log: %q x%d", m, n)
	}
	return out
}

// indexError: "/indexer-keeps-failing:<error>" when the store logged that its indexer failed, "" otherwise.
func (c *capLogger) indexError() string {
	c.mu.Lock()
	defer c.mu.Unlock()
	for m := range c.errs {
		if i := strings.Index(m, "due to error: "); i >= 0 && strings.Contains(m, "indexing failed") {
			e := strings.TrimSpace(m[i+len("due to error: "):])
			return "/indexer-keeps-failing:" + strings.ReplaceAll(strings.ReplaceAll(e, " ", "-"), ":", "")
		}
	}
	return ""
}
