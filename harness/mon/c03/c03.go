// Package c03: monitor for property C03 (see DESIGN.md section 2).
package c03
