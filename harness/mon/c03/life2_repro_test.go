package c03

import (
	"context"
	"encoding/json"
	"fmt"
	"math/rand/v2"
	"os"
	"path/filepath"
	"testing"
	"time"

	"github.com/codenotary/immudb/embedded/store"

	"verifharness/internal/fsjournal"
)

// Development aid: VERIF_C03_REPRO=<replay dir with case.json, trace.gob, ledger.gob>.
func TestLife2Repro(t *testing.T) {
	dir := os.Getenv("VERIF_C03_REPRO")
	if dir == "" {
		t.Skip("no replay directory")
	}
	b, _ := os.ReadFile(filepath.Join(dir, "case.json"))
	var ic imgCase
	json.Unmarshal(b, &ic)
	l, err := load(dir)
	if err != nil {
		t.Fatal(err)
	}
	work := t.TempDir()
	r := rand.New(rand.NewPCG(ic.Seed, uint64(ic.P)))
	if _, err := fsjournal.Materialize(l.tr, ic.P, fsjournal.Model(ic.Model), r, work); err != nil {
		t.Fatal(err)
	}
	check := func(st *store.ImmuStore, when string) {
		n := st.LastCommittedTxID()
		th, err := st.ReadTxHeader(n, false, false)
		if err != nil {
			t.Fatalf("%s: %v", when, err)
		}
		for _, s := range []uint64{1, n / 2, n - 1, n} {
			sh, err := st.ReadTxHeader(s, false, false)
			if err != nil {
				t.Fatalf("%s: %v", when, err)
			}
			dp, err := st.DualProof(sh, th)
			ok := err == nil && store.VerifyDualProof(dp, s, n, sh.Alh(), th.Alh())
			fmt.Printf("%s: DualProof(%d,%d) verifies=%v err=%v\n", when, s, n, ok, err)
		}
	}
	st, err := store.Open(work, l.tf.Cfg.options())
	if err != nil {
		t.Fatal(err)
	}
	ctx := context.Background()
	st.WaitForTx(ctx, st.LastPrecommittedTxID(), false)
	fmt.Printf("recovered: committed=%d precommitted=%d\n", st.LastCommittedTxID(), st.LastPrecommittedTxID())
	check(st, "after recovery")
	for k := 0; k < 5; k++ {
		tx, _ := st.NewWriteOnlyTx(ctx)
		tx.Set([]byte(fmt.Sprintf("k%02d", k)), nil, []byte("life2"))
		if _, err := tx.Commit(ctx); err != nil {
			t.Fatal(err)
		}
	}
	check(st, "life 2, live")
	st.Close()
	time.Sleep(10 * time.Millisecond)
	st, err = store.Open(work, l.tf.Cfg.options())
	if err != nil {
		t.Fatal(err)
	}
	check(st, "life 2, after a clean restart")
	st.Close()
}
