package c19

import (
	"encoding/json"
	"errors"
	"fmt"
	"math/rand/v2"
	"os"
	"sort"
	"strings"
	"time"

	"github.com/codenotary/immudb/embedded/document"
	"github.com/codenotary/immudb/embedded/sql"
	"github.com/codenotary/immudb/pkg/api/protomodel"
	"google.golang.org/protobuf/encoding/protojson"
	"google.golang.org/protobuf/proto"
	"google.golang.org/protobuf/types/known/structpb"

	"verifharness/internal/fw"
)

type caseSpec struct {
	Index   int
	Variant string // engine | db
	Ops     int
}

type scen struct {
	c    *fw.Ctx
	sp   caseSpec
	r    *rand.Rand // workload
	qr   *rand.Rand // queries
	be   backend
	dbe  *dbBE // non-nil in the db variant
	dead bool  // twins diverged or the backend failed: stop judging

	fields  []*fieldDef
	nextInc int
	indexes []*idxDef
	wasIdx  map[string]bool // fields that were in an index that has been removed
	docs    []*mdoc
	byID    [2]map[string]*mdoc
	everDoc bool

	collID [2]uint32
	log    []string

	wantCompositeUnique bool // this case asks for a unique index over several fields (a third of the cases)
	uniqueTainted bool // a duplicate was admitted: equal tuples are in the collection, later writes are not blamed for them
}

func (s *scen) logf(format string, a ...any) {
	s.log = append(s.log, fmt.Sprintf(format, a...))
}

func (s *scen) files() map[string][]byte {
	sp, _ := json.Marshal(s.sp)
	return map[string][]byte{"case.json": sp, "calls.txt": []byte(strings.Join(s.log, "\n") + "\n")}
}

func (s *scen) viol(sig, detail string) {
	s.logf("!! %s: %s", sig, detail)
	s.c.Violation(sig, fmt.Sprintf("[case %d, %s backend, seed %d] %s", s.sp.Index, s.sp.Variant, s.c.Seed, detail), s.files())
}

func pj(m proto.Message) string {
	if m == nil {
		return "<nil>"
	}
	b, err := protojson.MarshalOptions{}.Marshal(m)
	if err != nil {
		return fmt.Sprint(m)
	}
	if len(b) > 700 {
		return string(b[:700]) + "…"
	}
	return string(b)
}

func (s *scen) field(name string) *fieldDef {
	for _, f := range s.fields {
		if f.Name == name {
			return f
		}
	}
	return nil
}

func (s *scen) liveDocs() []*mdoc {
	var out []*mdoc
	for _, d := range s.docs {
		if d.live() {
			out = append(out, d)
		}
	}
	return out
}

func (s *scen) uniqueFields() map[string]bool {
	m := map[string]bool{}
	for _, ix := range s.indexes {
		if ix.Unique {
			for _, f := range ix.Fields {
				m[f] = true
			}
		}
	}
	return m
}

// idxState: index state of a field in c_idx, as observed through the schema operations that succeeded.
func (s *scen) idxState(name string) string {
	best := ""
	for _, ix := range s.indexes {
		for pos, f := range ix.Fields {
			if f != name {
				continue
			}
			st := "nonunique"
			switch {
			case len(ix.Fields) > 1 && pos == 0:
				st = "composite-lead"
			case len(ix.Fields) > 1:
				st = "composite-tail"
			case ix.Unique:
				st = "unique"
			case ix.Later:
				st = "added-later"
			}
			if len(ix.Fields) > 1 && ix.Unique {
				st = "unique-" + st
			}
			if best == "" || len(ix.Fields) == 1 {
				best = st
			}
		}
	}
	if best != "" {
		return best
	}
	if s.wasIdx[name] {
		return "removed"
	}
	return "none"
}

func (s *scen) incs() map[string]int {
	m := make(map[string]int, len(s.fields))
	for _, f := range s.fields {
		m[f.Name] = f.inc
	}
	return m
}

func errClass(err error) string {
	switch {
	case err == nil:
		return "ok"
	case errors.Is(err, document.ErrConflict):
		return "conflict"
	case errors.Is(err, document.ErrUnexpectedValue):
		return "unexpected-value"
	case errors.Is(err, document.ErrFieldDoesNotExist):
		return "field-does-not-exist"
	case errors.Is(err, document.ErrFieldAlreadyExists):
		return "field-already-exists"
	case errors.Is(err, document.ErrLimitedIndexCreation):
		return "limited-index-creation"
	case errors.Is(err, document.ErrMaxLengthExceeded), errors.Is(err, sql.ErrMaxLengthExceeded):
		return "max-length-exceeded"
	case errors.Is(err, sql.ErrLimitedKeyType):
		return "limited-key-type"
	case errors.Is(err, document.ErrIllegalArguments):
		return "illegal-arguments"
	case errors.Is(err, document.ErrDocumentNotFound):
		return "document-not-found"
	case errors.Is(err, sql.ErrIndexAlreadyExists):
		return "index-already-exists"
	case errors.Is(err, sql.ErrCannotDropColumn):
		return "cannot-drop-column"
	case errors.Is(err, sql.ErrNotComparableValues):
		return "not-comparable"
	}
	msg := err.Error()
	if i := strings.Index(msg, ":"); i > 0 {
		msg = msg[:i]
	}
	if len(msg) > 40 {
		msg = msg[:40]
	}
	return "other(" + msg + ")"
}

// ---- scenario ----

func runCase(c *fw.Ctx, sp caseSpec) {
	s := &scen{c: c, sp: sp, wasIdx: map[string]bool{}}
	s.r = c.Rand(fmt.Sprintf("c19/case/%d/workload", sp.Index))
	s.qr = c.Rand(fmt.Sprintf("c19/case/%d/queries", sp.Index))
	s.byID[0], s.byID[1] = map[string]*mdoc{}, map[string]*mdoc{}
	s.wantCompositeUnique = sp.Index%3 == 1
	dir := c.Dir("coll")
	defer os.RemoveAll(dir)
	var err error
	if sp.Variant == "db" {
		s.dbe, err = openDB(dir)
		if s.dbe != nil {
			s.be = s.dbe
		}
	} else {
		var e *engineBE
		e, err = openEngine(dir)
		if e != nil {
			s.be = e
		}
	}
	if err != nil {
		c.Inconclusive("cannot open the backend: " + err.Error())
		return
	}
	defer s.be.close()

	if !s.create() {
		return
	}
	t0 := time.Now()
	for i := 0; i < sp.Ops && !s.dead; i++ {
		s.step(i)
	}
	t1 := time.Now()
	if !s.dead {
		s.finalSweep()
	}
	if os.Getenv("VERIF_C19_DEBUG") != "" {
		fmt.Fprintf(os.Stderr, "case %d: steps %v sweep %v docs %d calls %d\n", sp.Index, t1.Sub(t0), time.Since(t1), len(s.docs), len(s.log))
		c.Note(fmt.Sprintf("case %d: steps %v sweep %v docs %d", sp.Index, t1.Sub(t0), time.Since(t1), len(s.docs)))
	}
	c.Count("cases_"+sp.Variant, 1)
	c.Count("documents", int64(len(s.docs)))
}

func (s *scen) create() bool {
	r := s.r
	// 3..7 declared fields
	perm := r.Perm(len(fieldPool))
	nf := 3 + r.IntN(5)
	var pf []*protomodel.Field
	for _, k := range perm[:nf] {
		fs := fieldPool[k]
		s.nextInc++
		s.fields = append(s.fields, &fieldDef{Name: fs.Name, Type: fs.Type, inc: s.nextInc})
	}
	sort.Slice(s.fields, func(i, j int) bool { return s.fields[i].Name < s.fields[j].Name })
	for _, f := range s.fields {
		pf = append(pf, &protomodel.Field{Name: f.Name, Type: f.Type})
	}
	// indexes of c_idx declared with the collection
	var pidx []*protomodel.Index
	for _, ix := range s.planIndexes(r, true) {
		s.indexes = append(s.indexes, ix)
		pidx = append(pidx, &protomodel.Index{Fields: ix.Fields, IsUnique: ix.Unique})
	}
	s.logf("create c_idx fields=%v indexes=%v", pf, pidx)
	if err := s.be.createCollection(twinNames[tIdx], pf, pidx); err != nil {
		s.c.Inconclusive(fmt.Sprintf("case %d: CreateCollection(c_idx) failed: %v (fields %v, indexes %v)", s.sp.Index, err, pf, pidx))
		return false
	}
	if err := s.be.createCollection(twinNames[tPlain], pf, nil); err != nil {
		s.c.Inconclusive(fmt.Sprintf("case %d: CreateCollection(c_plain) failed: %v", s.sp.Index, err))
		return false
	}
	for _, ix := range s.indexes {
		s.c.Distinct(fmt.Sprintf("schema|create-index|at-creation|unique=%v|fields=%d|ok", ix.Unique, len(ix.Fields)))
	}
	return true
}

// planIndexes proposes indexes on currently declared fields not yet covered the same way.
func (s *scen) planIndexes(r *rand.Rand, initial bool) []*idxDef {
	var out []*idxDef
	have := map[string]bool{}
	for _, ix := range s.indexes {
		have[ix.key()] = true
	}
	uniqueDone := false
	for _, f := range s.fields {
		if have[f.Name] || r.IntN(5) < 2 {
			continue
		}
		ix := &idxDef{Fields: []string{f.Name}, Later: !initial}
		if !uniqueDone && !s.wantCompositeUnique && f.Type != protomodel.FieldType_BOOLEAN && r.IntN(4) == 0 {
			ix.Unique = true
			uniqueDone = true
		}
		out = append(out, ix)
		have[ix.key()] = true
	}
	if len(s.fields) >= 2 && (r.IntN(5) < 2 || s.wantCompositeUnique) {
		for try := 0; try < 8; try++ {
			a, b := s.fields[r.IntN(len(s.fields))], s.fields[r.IntN(len(s.fields))]
			// at most one STRING column per index: two padded 512-byte keys exceed the engine's key length limit
			if a == b || (a.Type == protomodel.FieldType_STRING && b.Type == protomodel.FieldType_STRING) {
				if s.wantCompositeUnique {
					continue
				}
				break
			}
			ix := &idxDef{Fields: []string{a.Name, b.Name}, Later: !initial, Unique: !uniqueDone && (r.IntN(4) == 0 || s.wantCompositeUnique)}
			if s.wantCompositeUnique && len(s.fields) >= 3 && r.IntN(2) == 0 {
				if c := s.fields[r.IntN(len(s.fields))]; c != a && c != b && c.Type != protomodel.FieldType_STRING {
					ix.Fields = append(ix.Fields, c.Name)
				}
			}
			if !have[ix.key()] {
				out = append(out, ix)
			}
			break
		}
	}
	return out
}

func (s *scen) step(i int) {
	r := s.r
	switch x := r.IntN(100); {
	case x < 38:
		s.opInsert(1)
	case x < 43:
		s.opInsert(2 + r.IntN(3))
	case x < 53:
		s.opReplaceByID()
	case x < 60:
		s.opReplaceByQuery()
	case x < 67:
		s.opDelete()
	case x < 72:
		s.opCreateIndex()
	case x < 75:
		s.opDeleteIndex()
	case x < 78:
		s.opAddField()
	case x < 80:
		s.opRemoveField()
	case x < 88:
		s.checkDocument(s.pickDoc(r))
	default:
		s.checkQuery(s.genQuery(s.qr))
	}
	if s.dead {
		return
	}
	// every write is followed by searches on both twins
	nq := 1 + s.qr.IntN(2)
	for k := 0; k < nq && !s.dead; k++ {
		s.checkQuery(s.genQuery(s.qr))
	}
	if s.dbe != nil && s.qr.IntN(3) == 0 {
		s.checkProof(s.pickDoc(s.qr))
	}
}

func (s *scen) pickDoc(r *rand.Rand) *mdoc {
	if len(s.docs) == 0 {
		return nil
	}
	return s.docs[r.IntN(len(s.docs))]
}

// ---- unique index bookkeeping ----

type tupleState int

const (
	tupDefinite tupleState = iota // every component definite and non-null
	tupNullish                    // some component NULL in the column (or outside the model)
)

func (s *scen) tupleOf(r *rev, ix *idxDef) (string, tupleState) {
	st := tupDefinite
	var parts []string
	for _, name := range ix.Fields {
		f := s.field(name)
		if f == nil {
			return "", tupNullish
		}
		v, ok := known(r, f)
		if !ok {
			st = tupNullish
			if isNullish(r, name) {
				parts = append(parts, "NULL")
			} else {
				val, _ := extract(r.doc, name)
				parts = append(parts, "?"+pj(val))
			}
			continue
		}
		parts = append(parts, fmt.Sprintf("%T:%v", v, v))
	}
	return strings.Join(parts, "|"), st
}

// conflict analysis of a prospective set of latest revisions: news[i] replaces docs[i] (nil = a new document).
// definite: two live documents would hold equal definite non-null tuples under a unique index (must be refused);
// possible: equal tuples when NULLs (and values outside the model) are taken as equal (may be refused).
func (s *scen) uniqueConflict(targets []*mdoc, news []*rev) (definite, possible bool, what string) {
	defer func() {
		if s.uniqueTainted {
			definite = false
			possible = true
		}
	}()
	replaced := map[*mdoc]bool{}
	for _, t := range targets {
		if t != nil {
			replaced[t] = true
		}
	}
	for _, ix := range s.indexes {
		if !ix.Unique {
			continue
		}
		seenDef := map[string]bool{}
		seenAny := map[string]bool{}
		for _, d := range s.liveDocs() {
			if replaced[d] {
				continue
			}
			k, st := s.tupleOf(d.last(), ix)
			if st == tupDefinite {
				seenDef[k] = true
			}
			seenAny[k] = true
		}
		for _, nr := range news {
			k, st := s.tupleOf(nr, ix)
			if st == tupDefinite && seenDef[k] {
				definite = true
				what = fmt.Sprintf("unique index on (%s): tuple %s", ix.key(), k)
			}
			if seenAny[k] {
				possible = true
				if what == "" {
					what = fmt.Sprintf("unique index on (%s): tuple %s", ix.key(), k)
				}
			}
			if st == tupDefinite {
				seenDef[k] = true
			}
			seenAny[k] = true
		}
	}
	return definite, definite || possible, what
}

func (s *scen) uniqueDesc() string {
	var out []string
	for _, ix := range s.indexes {
		if !ix.Unique {
			continue
		}
		held := 0
		for _, d := range s.docs {
			for i := range d.revs {
				if d.revs[i].deleted {
					continue
				}
				if k, _ := s.tupleOf(&d.revs[i], ix); k != "" {
					held++
				}
			}
		}
		out = append(out, fmt.Sprintf("(%s) over %d documents / %d live, %d revisions", ix.key(), len(s.docs), len(s.liveDocs()), held))
	}
	return strings.Join(out, "; ")
}

// tupleHeldBefore: does an earlier (replaced or deleted) revision of some document hold the tuple?
func (s *scen) tupleHeldBefore(nr *rev) string {
	for _, ix := range s.indexes {
		if !ix.Unique {
			continue
		}
		k, _ := s.tupleOf(nr, ix)
		for _, d := range s.docs {
			for i := range d.revs {
				if d.revs[i].deleted || (i == len(d.revs)-1 && d.live()) {
					continue
				}
				if k2, _ := s.tupleOf(&d.revs[i], ix); k2 == k {
					what := "replaced"
					if !d.live() {
						what = "deleted"
					}
					return fmt.Sprintf("tuple %s under (%s) was held by revision %d of %s document #%d", k, ix.key(), i+1, what, d.n)
				}
			}
		}
	}
	return ""
}

// ---- write operations ----

func (s *scen) opInsert(n int) {
	r := s.r
	var dup *mdoc
	if live := s.liveDocs(); len(live) > 0 && len(s.uniqueFields()) > 0 && r.IntN(5) == 0 {
		dup = live[r.IntN(len(live))]
	}
	docs := make([]*structpb.Struct, n)
	news := make([]*rev, n)
	for i := range docs {
		docs[i] = s.genDoc(r, dup)
		if n > 1 && i == n-1 && r.IntN(6) == 0 && len(s.uniqueFields()) > 0 {
			docs[i] = proto.Clone(docs[0]).(*structpb.Struct) // duplicate inside one batch
		}
		news[i] = &rev{doc: docs[i], incs: s.incs()}
	}
	definite, possible, what := s.uniqueConflict(make([]*mdoc, n), news)
	op := "insert"
	if n > 1 {
		op = "insert-batch"
	}
	s.logf("%s x%d into c_idx: %s", op, n, pj(docs[0]))
	tx0, ids0, err0 := s.be.insert(twinNames[tIdx], docs)
	s.logf("  -> tx=%d ids=%v err=%v", tx0, ids0, err0)
	s.c.Eval(1)
	if err0 != nil && errClass(err0) == "conflict" {
		s.c.Distinct(fmt.Sprintf("%s|unique|conflict|definite=%v", op, definite))
		if !possible {
			s.c.Count("conflicts_without_cause_in_model", 1)
			s.c.Note(fmt.Sprintf("case %d: %s refused with a conflict although the model sees no equal tuple under a unique index: %v; %s; unique indexes %v; %s", s.sp.Index, op, err0, pj(docs[0]), s.uniqueDesc(), s.tupleHeldBefore(news[0])))
			if h := s.tupleHeldBefore(news[0]); h != "" {
				s.c.Distinct("unique|conflict-with-earlier-revision|" + op)
			}
		}
		s.checkNoTrace(op, nil)
		return
	}
	if err0 == nil && definite {
		s.uniqueTainted = true
		s.viol("unique-index/duplicate-admitted/"+op, fmt.Sprintf("%s of %s was accepted by c_idx although a live document already holds the same non-null tuple (%s)", op, pj(docs[0]), what))
	}
	tx1, ids1, err1 := s.be.insert(twinNames[tPlain], docs)
	s.logf("  c_plain -> tx=%d ids=%v err=%v", tx1, ids1, err1)
	if (err0 == nil) != (err1 == nil) {
		s.viol("twin/"+op+"/outcome-differs", fmt.Sprintf("%s of %s: c_idx answered %v, c_plain answered %v", op, pj(docs[0]), err0, err1))
		s.dead = true
		return
	}
	if err0 != nil {
		s.c.Distinct(fmt.Sprintf("%s|refused|%s", op, errClass(err0)))
		if errClass(err0) != errClass(err1) {
			s.c.Note(fmt.Sprintf("case %d: %s refused differently: c_idx %v, c_plain %v", s.sp.Index, op, err0, err1))
		}
		if valid, why := s.validDocs(docs); valid {
			s.viol("model/"+op+"/valid-document-refused", fmt.Sprintf("%s of %s was refused by both twins (%v) although every declared field is missing, null or of the declared type and within limits (%s)", op, pj(docs[0]), err0, why))
		}
		s.checkNoTrace(op, nil)
		return
	}
	if len(ids0) != n || len(ids1) != n {
		s.viol("model/"+op+"/id-count", fmt.Sprintf("%s of %d documents returned %d / %d ids", op, n, len(ids0), len(ids1)))
		s.dead = true
		return
	}
	for i := range docs {
		d := &mdoc{n: len(s.docs), id: [2]string{ids0[i], ids1[i]}}
		d.revs = append(d.revs, rev{tx: [2]uint64{tx0, tx1}, doc: docs[i], incs: news[i].incs})
		if s.byID[0][ids0[i]] != nil || s.byID[1][ids1[i]] != nil {
			s.viol("model/"+op+"/id-reused", fmt.Sprintf("%s returned an id already given to another document: %s / %s", op, ids0[i], ids1[i]))
			s.dead = true
			return
		}
		s.docs = append(s.docs, d)
		s.byID[0][ids0[i]], s.byID[1][ids1[i]] = d, d
	}
	s.everDoc = true
	s.checkFresh(op, s.docs[len(s.docs)-1])
	s.c.Distinct(fmt.Sprintf("%s|ok|fields=%d|unique=%v", op, len(s.fields), len(s.uniqueFields()) > 0))
	for _, f := range s.fields {
		if _, ok := known(news[0], f); ok {
			s.c.Distinct(fmt.Sprintf("%s|%s|%s|stored", op, typeName(f.Type), s.idxState(f.Name)))
		}
	}
}

// checkFresh: the latest revision of a document must be served (and provable) as soon as the write
// that created it has been acknowledged — no search in between that would wait for the index.
func (s *scen) checkFresh(op string, d *mdoc) {
	if s.r.IntN(3) != 0 {
		return
	}
	twin := s.r.IntN(2)
	s.c.Eval(1)
	if s.dbe != nil {
		pr, err := s.dbe.proof(twinNames[twin], d.id[twin], 0, 0)
		s.logf("proof of latest revision of #%d on %s right after %s -> %v", d.n, twinNames[twin], op, err)
		s.c.Distinct("proof|fresh|" + op + "|" + errClass(err))
		if err != nil {
			cause := errClass(err)
			if cause == "document-not-found" {
				cause = "latest-revision-not-yet-indexed"
			}
			s.viol("proof/honest-refused/"+cause, fmt.Sprintf("ProofDocument(#%d on %s, TransactionId 0 = latest revision) right after the acknowledged %s (tx %d) failed: %v", d.n, twinNames[twin], op, d.last().tx[twin], err))
		} else if got := pr.VerifiableTx.Tx.Header.Id; got != d.last().tx[twin] {
			s.viol("proof/latest-revision-stale-after-write", fmt.Sprintf("ProofDocument(#%d on %s, TransactionId 0 = latest revision) right after the acknowledged %s (tx %d) proves the revision written by tx %d", d.n, twinNames[twin], op, d.last().tx[twin], got))
		}
		return
	}
	rv, tx, err := s.be.encoded(twinNames[twin], d.id[twin], 0)
	s.logf("encoded latest revision of #%d on %s right after %s -> rev %d tx %d %v", d.n, twinNames[twin], op, rv, tx, err)
	s.c.Distinct("lookup|fresh|" + op + "|" + errClass(err))
	switch {
	case err != nil && errClass(err) == "document-not-found":
		s.viol("model/lookup/latest-revision-not-yet-indexed", fmt.Sprintf("GetEncodedDocument(#%d on %s, tx 0 = latest revision) right after the acknowledged %s (tx %d) failed: %v", d.n, twinNames[twin], op, d.last().tx[twin], err))
	case err != nil:
		s.viol("model/lookup/encoded-error", fmt.Sprintf("latest encoded document #%d on %s right after %s: %v", d.n, twinNames[twin], op, err))
	case rv != uint64(d.nrevs()) || tx != d.last().tx[twin]:
		s.viol("model/lookup/latest-revision-stale-after-write", fmt.Sprintf("latest encoded document #%d on %s right after %s: revision %d tx %d, the model has revision %d tx %d", d.n, twinNames[twin], op, rv, tx, d.nrevs(), d.last().tx[twin]))
	}
}

// validDocs: the model is sure the engine has no documented reason to refuse these documents.
func (s *scen) validDocs(docs []*structpb.Struct) (bool, string) {
	for _, d := range docs {
		if proto.Size(d) > 1200 {
			return false, ""
		}
		if _, ok := d.Fields[idField]; ok {
			return false, ""
		}
		for _, f := range s.fields {
			v, ok := extract(d, f.Name)
			if !ok {
				continue
			}
			switch k := v.GetKind().(type) {
			case *structpb.Value_NullValue:
			case *structpb.Value_NumberValue:
				if f.Type != protomodel.FieldType_INTEGER && f.Type != protomodel.FieldType_DOUBLE {
					return false, ""
				}
				if f.Type == protomodel.FieldType_INTEGER {
					if _, ok := exactInt(k.NumberValue); !ok {
						return false, ""
					}
				}
			case *structpb.Value_StringValue:
				if f.Type == protomodel.FieldType_UUID {
					found := false
					for _, u := range uuidPool {
						found = found || u == k.StringValue
					}
					if !found && len(k.StringValue) != 36 {
						return false, ""
					}
				} else if f.Type != protomodel.FieldType_STRING || len(k.StringValue) > 256 {
					return false, ""
				}
			case *structpb.Value_BoolValue:
				if f.Type != protomodel.FieldType_BOOLEAN {
					return false, ""
				}
			default:
				return false, ""
			}
		}
	}
	return true, fmt.Sprintf("%d declared fields", len(s.fields))
}

func (s *scen) idQuery(twin int, d *mdoc) *protomodel.Query {
	return s.build(&hquery{Groups: [][]qcmp{{{Field: idField, Op: protomodel.ComparisonOperator_EQ, Doc: d.n}}}}, twin)
}

// compositeUnique: a unique index over two or more fields, if the schema has one.
func (s *scen) compositeUnique() *idxDef {
	for _, ix := range s.indexes {
		if ix.Unique && len(ix.Fields) > 1 {
			return ix
		}
	}
	return nil
}

// opReplaceNearDup: a live document is first given a proper part of another live document's tuple under a
// composite unique index (legitimate), then the rest of it (must be refused); the part kept between the two
// steps is each non-empty proper subset of the index fields in turn (first only, last only, ...).
func (s *scen) opReplaceNearDup() bool {
	ix := s.compositeUnique()
	live := s.liveDocs()
	if ix == nil || len(live) < 2 {
		return false
	}
	d := live[s.r.IntN(len(live))]
	dup := live[s.r.IntN(len(live))]
	if d == dup {
		return false
	}
	mask := 1 + s.r.IntN(1<<len(ix.Fields)-2) // non-empty, proper
	only := map[string]bool{}
	for i, f := range ix.Fields {
		if mask&(1<<i) != 0 {
			only[f] = true
		}
	}
	hq := &hquery{Groups: [][]qcmp{{{Field: idField, Op: protomodel.ComparisonOperator_EQ, Doc: d.n}}}}
	for stepN, nd := range []*structpb.Struct{s.genDocCopying(s.r, dup, only), s.genDoc(s.r, dup)} {
		if s.dead || !d.live() || !dup.live() {
			return true
		}
		nd := nd
		s.c.Distinct(fmt.Sprintf("replace-near-dup|fields=%d|kept-mask=%d|step=%d", len(ix.Fields), mask, stepN))
		s.replace("replace-by-id", func(twin int) (*protomodel.Query, *structpb.Struct) {
			return s.idQuery(twin, d), nd
		}, nd, hq)
	}
	return true
}

func (s *scen) opReplaceByID() {
	if s.r.IntN(3) == 0 && s.opReplaceNearDup() {
		return
	}
	d := s.pickDoc(s.r)
	if d == nil {
		return
	}
	var dup *mdoc
	if live := s.liveDocs(); len(live) > 1 && len(s.uniqueFields()) > 0 && s.r.IntN(4) == 0 {
		dup = live[s.r.IntN(len(live))]
	}
	nd := s.genDoc(s.r, dup)
	if s.r.IntN(5) == 0 && d.live() {
		nd = proto.Clone(d.last().doc).(*structpb.Struct) // same payload again (unique tuples unchanged)
		if nd.Fields == nil {
			nd.Fields = map[string]*structpb.Value{}
		}
		nd.Fields["touch"] = structpb.NewNumberValue(float64(s.r.IntN(1000)))
	}
	// the id travels in the document (the engine injects the id comparison) or in the query
	inDoc := s.r.IntN(2) == 0
	s.replace("replace-by-id", func(twin int) (*protomodel.Query, *structpb.Struct) {
		if inDoc {
			return &protomodel.Query{CollectionName: twinNames[twin]}, withID(nd, d.id[twin])
		}
		return s.idQuery(twin, d), nd
	}, nd, &hquery{Groups: [][]qcmp{{{Field: idField, Op: protomodel.ComparisonOperator_EQ, Doc: d.n}}}})
}

func (s *scen) opReplaceByQuery() {
	if len(s.fields) == 0 {
		return
	}
	hq := &hquery{Groups: [][]qcmp{{s.genCmp(s.r)}}}
	if s.r.IntN(3) == 0 {
		hq.Groups[0] = append(hq.Groups[0], s.genCmp(s.r))
	}
	if s.oversizeConstant(hq) != "" {
		return // judged by the searches (own signature); a write would make the twins diverge
	}
	nd := s.genDoc(s.r, nil)
	s.replace("replace-by-query", func(twin int) (*protomodel.Query, *structpb.Struct) {
		return s.build(hq, twin), nd
	}, nd, hq)
}

// replace runs ReplaceDocuments on both twins; the documents replaced are the ones the engine reports.
func (s *scen) replace(op string, mk func(twin int) (*protomodel.Query, *structpb.Struct), payload *structpb.Struct, hq *hquery) {
	q0, d0 := mk(tIdx)
	s.logf("%s c_idx query=%s doc=%s", op, pj(q0), pj(d0))
	revs0, err0 := s.be.replace(q0, d0)
	s.logf("  -> %d revisions err=%v", len(revs0), err0)
	s.c.Eval(1)
	// what the model expects among live documents
	must, mustNot := map[*mdoc]bool{}, map[*mdoc]bool{}
	for _, d := range s.liveDocs() {
		switch s.evalDoc(hq, d) {
		case yes:
			must[d] = true
		case no:
			mustNot[d] = true
		}
	}
	newRev := func() *rev { return &rev{doc: payload, incs: s.incs()} }
	if err0 != nil && errClass(err0) == "conflict" {
		var targets []*mdoc
		var news []*rev
		for _, d := range s.liveDocs() {
			if !mustNot[d] {
				targets = append(targets, d)
				news = append(news, newRev())
			}
		}
		_, possible, _ := s.uniqueConflict(targets, news)
		s.c.Distinct(fmt.Sprintf("%s|unique|conflict|possible=%v", op, possible))
		if !possible {
			s.c.Count("conflicts_without_cause_in_model", 1)
			s.c.Note(fmt.Sprintf("case %d: %s refused with a conflict although the model sees no equal tuple under a unique index: %v", s.sp.Index, op, err0))
		}
		s.checkNoTrace(op, targets)
		return
	}
	q1, d1 := mk(tPlain)
	revs1, err1 := s.be.replace(q1, d1)
	s.logf("  c_plain -> %d revisions err=%v", len(revs1), err1)
	if (err0 == nil) != (err1 == nil) {
		s.viol("twin/"+op+"/outcome-differs", fmt.Sprintf("%s with query %s: c_idx answered %v, c_plain answered %v", op, pj(q0), err0, err1))
		s.dead = true
		return
	}
	if err0 != nil {
		s.c.Distinct(fmt.Sprintf("%s|refused|%s", op, errClass(err0)))
		s.checkNoTrace(op, nil)
		return
	}
	// documents replaced, per twin, as harness document numbers
	sets := [2]map[*mdoc]*protomodel.DocumentAtRevision{{}, {}}
	for twin, revs := range [2][]*protomodel.DocumentAtRevision{revs0, revs1} {
		for _, rv := range revs {
			d := s.byID[twin][rv.DocumentId]
			if d == nil {
				s.viol("model/"+op+"/unknown-id", fmt.Sprintf("%s on %s reports document id %s which was never returned by an insert", op, twinNames[twin], rv.DocumentId))
				s.dead = true
				return
			}
			if sets[twin][d] != nil {
				s.viol("model/"+op+"/document-replaced-twice", fmt.Sprintf("%s on %s reports document %s twice", op, twinNames[twin], rv.DocumentId))
			}
			sets[twin][d] = rv
		}
	}
	sh := s.shape(hq)
	for d := range sets[0] {
		if sets[1][d] == nil {
			s.viol("twin/"+op+"/"+sh, fmt.Sprintf("%s with query %s replaced document #%d (%s) in c_idx but not its twin in c_plain", op, pj(q0), d.n, pj(d.last().doc)))
			s.dead = true
			return
		}
	}
	for d := range sets[1] {
		if sets[0][d] == nil {
			s.viol("twin/"+op+"/"+sh, fmt.Sprintf("%s with query %s replaced document #%d (%s) in c_plain but not its twin in c_idx", op, pj(q0), d.n, pj(d.last().doc)))
			s.dead = true
			return
		}
	}
	for d := range must {
		if sets[0][d] == nil {
			s.viol("model/"+op+"/missing-doc/"+sh, fmt.Sprintf("%s with query %s did not replace live document #%d %s which satisfies it", op, pj(q0), d.n, pj(d.last().doc)))
		}
	}
	var targets []*mdoc
	var news []*rev
	for d, rv := range sets[0] {
		if mustNot[d] || !d.live() {
			s.viol("model/"+op+"/unexpected-doc/"+sh, fmt.Sprintf("%s with query %s replaced document #%d %s (live=%v) which does not satisfy it", op, pj(q0), d.n, pj(d.last().doc), d.live()))
		}
		want := uint64(d.nrevs() + 1)
		if rv.Revision != want || sets[1][d].Revision != want {
			s.viol("model/"+op+"/revision", fmt.Sprintf("%s reports revision %d (c_idx) / %d (c_plain) for document #%d whose %d-th revision this is", op, rv.Revision, sets[1][d].Revision, d.n, want))
		}
		targets = append(targets, d)
		news = append(news, newRev())
	}
	if definite, _, what := s.uniqueConflict(targets, news); definite {
		s.uniqueTainted = true
		s.viol("unique-index/duplicate-admitted/"+op, fmt.Sprintf("%s with query %s and document %s was accepted by c_idx although it leaves two live documents with the same non-null tuple (%s)", op, pj(q0), pj(d0), what))
	}
	sort.Slice(targets, func(i, j int) bool { return targets[i].n < targets[j].n })
	for _, d := range targets {
		d.revs = append(d.revs, rev{tx: [2]uint64{sets[0][d].TransactionId, sets[1][d].TransactionId}, doc: payload, incs: s.incs()})
	}
	s.c.Distinct(fmt.Sprintf("%s|ok|replaced=%s|%s", op, bucketN(len(targets)), sh))
	if len(targets) > 0 {
		s.checkFresh(op, targets[s.r.IntN(len(targets))])
	}
}

func bucketN(n int) string {
	switch {
	case n == 0:
		return "0"
	case n == 1:
		return "1"
	case n < 5:
		return "2-4"
	}
	return "5+"
}

func (s *scen) opDelete() {
	r := s.r
	var hq *hquery
	if len(s.fields) > 0 && r.IntN(2) == 0 {
		hq = &hquery{Groups: [][]qcmp{{s.genCmp(r)}}}
		// only queries the model decides for every live document (what was deleted is not reported by the API)
		for _, d := range s.liveDocs() {
			if s.evalDoc(hq, d) == unk {
				hq = nil
				break
			}
		}
		if hq != nil && (s.queryRefused(hq) || s.oversizeConstant(hq) != "") {
			hq = nil
		}
	}
	op := "delete-by-query"
	if hq == nil {
		d := s.pickDoc(r)
		if d == nil {
			return
		}
		hq = &hquery{Groups: [][]qcmp{{{Field: idField, Op: protomodel.ComparisonOperator_EQ, Doc: d.n}}}}
		op = "delete-by-id"
	}
	var errs [2]error
	for twin := 0; twin < 2; twin++ {
		q := s.build(hq, twin)
		errs[twin] = s.be.delete(q)
		s.logf("%s %s query=%s -> %v", op, twinNames[twin], pj(q), errs[twin])
	}
	s.c.Eval(1)
	if (errs[0] == nil) != (errs[1] == nil) {
		s.viol("twin/"+op+"/outcome-differs", fmt.Sprintf("%s with %s: c_idx answered %v, c_plain answered %v", op, pj(s.build(hq, 0)), errs[0], errs[1]))
		s.dead = true
		return
	}
	if errs[0] != nil {
		s.c.Distinct(fmt.Sprintf("%s|refused|%s", op, errClass(errs[0])))
		return
	}
	n := 0
	for _, d := range s.liveDocs() {
		if s.evalDoc(hq, d) == yes {
			d.revs = append(d.revs, rev{deleted: true, incs: s.incs()})
			n++
		}
	}
	s.c.Distinct(fmt.Sprintf("%s|ok|deleted=%s|%s", op, bucketN(n), s.shape(hq)))
}

// queryRefused: a comparison constant outside the field's type (the engine refuses the query).
func (s *scen) queryRefused(hq *hquery) bool {
	for _, g := range hq.Groups {
		for _, c := range g {
			if c.Field == idField {
				continue
			}
			f := s.field(c.Field)
			if f == nil {
				return true
			}
			if c.Val == nil {
				continue
			}
			if _, ok := constFor(f.Type, c.Val); !ok {
				if _, isNum := c.Val.(float64); isNum && f.Type == protomodel.FieldType_INTEGER {
					continue // accepted and truncated by the engine (outside the model)
				}
				return true
			}
		}
	}
	return false
}

// ---- schema operations ----

func (s *scen) opCreateIndex() {
	plan := s.planIndexes(s.r, false)
	if len(plan) == 0 {
		return
	}
	ix := plan[s.r.IntN(len(plan))]
	err := s.be.createIndex(twinNames[tIdx], ix.Fields, ix.Unique)
	s.logf("create index c_idx %v unique=%v -> %v", ix.Fields, ix.Unique, err)
	s.c.Eval(1)
	s.c.Distinct(fmt.Sprintf("schema|create-index|later|unique=%v|fields=%d|docs=%v|%s", ix.Unique, len(ix.Fields), s.everDoc, errClass(err)))
	if err != nil {
		if ix.Unique && s.everDoc && errClass(err) == "limited-index-creation" {
			return // documented: unique indexes only on empty collections
		}
		if !s.everDoc || !ix.Unique {
			s.viol("schema/create-index/refused", fmt.Sprintf("CreateIndex(%v, unique=%v) on declared fields failed: %v", ix.Fields, ix.Unique, err))
		}
		return
	}
	if ix.Unique && len(s.liveDocs()) > 0 {
		// accepted on a collection with live documents: existing duplicates would now sit under a unique index
		if def, _, what := s.uniqueConflictAmongLive(ix); def {
			s.uniqueTainted = true
			s.viol("unique-index/duplicate-admitted/create-index", fmt.Sprintf("unique index on (%s) was created although live documents hold equal non-null tuples (%s)", ix.key(), what))
		}
	}
	s.indexes = append(s.indexes, ix)
}

func (s *scen) uniqueConflictAmongLive(ix *idxDef) (bool, bool, string) {
	seen := map[string]bool{}
	for _, d := range s.liveDocs() {
		k, st := s.tupleOf(d.last(), ix)
		if st == tupDefinite {
			if seen[k] {
				return true, true, k
			}
			seen[k] = true
		}
	}
	return false, false, ""
}

func (s *scen) opDeleteIndex() {
	if len(s.indexes) == 0 {
		return
	}
	k := s.r.IntN(len(s.indexes))
	ix := s.indexes[k]
	err := s.be.deleteIndex(twinNames[tIdx], ix.Fields)
	s.logf("delete index c_idx %v -> %v", ix.Fields, err)
	s.c.Eval(1)
	s.c.Distinct(fmt.Sprintf("schema|delete-index|unique=%v|fields=%d|%s", ix.Unique, len(ix.Fields), errClass(err)))
	if err != nil {
		s.viol("schema/delete-index/refused", fmt.Sprintf("DeleteIndex(%v) of an existing index failed: %v", ix.Fields, err))
		return
	}
	s.indexes = append(s.indexes[:k], s.indexes[k+1:]...)
	for _, f := range ix.Fields {
		s.wasIdx[f] = true
	}
}

func (s *scen) opAddField() {
	var cands []fieldSpec
	for _, fs := range fieldPool {
		if s.field(fs.Name) == nil {
			cands = append(cands, fs)
		}
	}
	if len(cands) == 0 {
		return
	}
	fs := cands[s.r.IntN(len(cands))]
	var errs [2]error
	for twin := 0; twin < 2; twin++ {
		errs[twin] = s.be.addField(twinNames[twin], &protomodel.Field{Name: fs.Name, Type: fs.Type})
		s.logf("add field %s %s %v -> %v", twinNames[twin], fs.Name, fs.Type, errs[twin])
	}
	s.c.Eval(1)
	s.c.Distinct(fmt.Sprintf("schema|add-field|%s|docs=%v|%s", typeName(fs.Type), s.everDoc, errClass(errs[0])))
	if errs[0] != nil || errs[1] != nil {
		s.viol("schema/add-field/refused", fmt.Sprintf("AddField(%s %v) failed: c_idx %v, c_plain %v", fs.Name, fs.Type, errs[0], errs[1]))
		s.dead = true
		return
	}
	s.nextInc++
	s.fields = append(s.fields, &fieldDef{Name: fs.Name, Type: fs.Type, inc: s.nextInc})
}

func (s *scen) opRemoveField() {
	var cands []*fieldDef
	for _, f := range s.fields {
		if s.idxState(f.Name) == "none" || s.idxState(f.Name) == "removed" {
			cands = append(cands, f)
		}
	}
	if len(cands) == 0 || len(s.fields) <= 2 {
		return
	}
	f := cands[s.r.IntN(len(cands))]
	var errs [2]error
	for twin := 0; twin < 2; twin++ {
		errs[twin] = s.be.removeField(twinNames[twin], f.Name)
		s.logf("remove field %s %s -> %v", twinNames[twin], f.Name, errs[twin])
	}
	s.c.Eval(1)
	s.c.Distinct(fmt.Sprintf("schema|remove-field|%s|%s|%s", typeName(f.Type), s.idxState(f.Name), errClass(errs[0])))
	if errs[0] != nil || errs[1] != nil {
		s.viol("schema/remove-field/refused", fmt.Sprintf("RemoveField(%s) of a declared, unindexed field failed: c_idx %v, c_plain %v", f.Name, errs[0], errs[1]))
		s.dead = true
		return
	}
	for i, g := range s.fields {
		if g == f {
			s.fields = append(s.fields[:i], s.fields[i+1:]...)
			break
		}
	}
}
