package c19

import (
	"fmt"
	"math"
	"math/rand/v2"
	"strings"

	"github.com/codenotary/immudb/pkg/api/protomodel"
	"google.golang.org/protobuf/types/known/structpb"
)

type fieldSpec struct {
	Name string
	Type protomodel.FieldType
}

// candidate declared fields: flat and nested paths (at most three levels: the engine's default maxNestedFields)
var fieldPool = []fieldSpec{
	{"n", protomodel.FieldType_INTEGER},
	{"m", protomodel.FieldType_INTEGER},
	{"d", protomodel.FieldType_DOUBLE},
	{"s", protomodel.FieldType_STRING},
	{"t", protomodel.FieldType_STRING},
	{"b", protomodel.FieldType_BOOLEAN},
	{"u", protomodel.FieldType_UUID},
	{"a.x", protomodel.FieldType_INTEGER},
	{"a.s", protomodel.FieldType_STRING},
	{"a.c.e", protomodel.FieldType_DOUBLE},
	{"p.q", protomodel.FieldType_BOOLEAN},
	{"p.w_2", protomodel.FieldType_DOUBLE},
}

func typeName(t protomodel.FieldType) string { return strings.ToLower(t.String()) }

var intPool = []float64{0, 1, 2, 3, 4, 5, 7, 10, -1, -2, -7, 100, 1 << 31, -(1 << 31), 1 << 53, -(1 << 53), 1e15,
	-9223372036854775808.0, 9223372036854774784.0 /* largest double below 2^63 */}

var dblPool = []float64{0, 0.5, -0.5, 1, 1.5, 2, 3, -1, -2.25, 3.141592653589793, 1e-300, -1e-300, 1e300, -1e300,
	math.MaxFloat64, -math.MaxFloat64, math.SmallestNonzeroFloat64, -math.SmallestNonzeroFloat64, 1 << 53, (1 << 53) + 2, 0.1, 0.30000000000000004}

var strPool = []string{"", "a", "b", "ab", "abc", "alpha", "beta", "gamma", "Alpha", "a b", " a", "z", "zz",
	"héllo", "hello", "日本語", "日本", "😀", "é", "é", "ÿ", "߿", "￿", "x'y\"z", "a%b_c", "%", "\\", "line\nbreak", "tab\t"}

var uuidPool = []string{
	"00000000-0000-0000-0000-000000000000", "00000000-0000-0000-0000-000000000001", "7f000000-0000-4000-8000-000000000000",
	"80000000-0000-4000-8000-000000000000", "ffffffff-ffff-ffff-ffff-ffffffffffff", "123e4567-e89b-12d3-a456-426614174000",
	"123e4567-e89b-12d3-a456-426614174001",
}

var likePool = []string{"^a", "a$", "al", ".*", "^$", "é", "a.c", "^[a-c]+$", "日本"}

func longString(r *rand.Rand) string {
	// near the declared limit of STRING fields (512 bytes): 500..512 accepted, 513.. refused (in both twins)
	ln := []int{200, 300, 500, 511, 512, 512, 513, 600}[r.IntN(8)]
	ch := []string{"a", "b", "é", "日"}[r.IntN(4)]
	var sb strings.Builder
	for sb.Len()+len(ch) <= ln-1 {
		sb.WriteString(ch)
	}
	for sb.Len() < ln-1 {
		sb.WriteByte('p')
	}
	sb.WriteByte("xyz"[r.IntN(3)]) // long common prefix, differing last byte
	return sb.String()
}

type missingT struct{}

var missing = missingT{}

// genValue draws a value for a declared field: a Go value for structpb, nil (explicit null) or missing.
func (s *scen) genValue(r *rand.Rand, f fieldSpec, wide bool) any {
	switch x := r.IntN(100); {
	case x < 12:
		return missing
	case x < 20:
		return nil
	case x < 22: // wrong kind for the declared type: the insert must be refused (by both twins)
		if f.Type == protomodel.FieldType_STRING || f.Type == protomodel.FieldType_UUID {
			return 12.0
		}
		return "not-a-" + typeName(f.Type)
	}
	switch f.Type {
	case protomodel.FieldType_INTEGER:
		if wide {
			return float64(1000 + r.IntN(100000))
		}
		if r.IntN(60) == 0 {
			return []float64{1.5, -0.5, 9223372036854775808.0, 1e19}[r.IntN(4)] // outside the model: twin relation only
		}
		if r.IntN(3) == 0 {
			return float64(r.IntN(6))
		}
		return intPool[r.IntN(len(intPool))]
	case protomodel.FieldType_DOUBLE:
		if wide {
			return float64(r.IntN(100000)) + 0.25
		}
		if r.IntN(4) == 0 {
			return float64(r.IntN(5)) / 2
		}
		return dblPool[r.IntN(len(dblPool))]
	case protomodel.FieldType_STRING:
		if wide {
			return fmt.Sprintf("%s-%05d", strPool[r.IntN(len(strPool))], r.IntN(100000))
		}
		if r.IntN(12) == 0 {
			return longString(r)
		}
		return strPool[r.IntN(len(strPool))]
	case protomodel.FieldType_UUID:
		if wide || r.IntN(4) == 0 {
			return fmt.Sprintf("%08x-0000-4000-8000-%012x", r.Uint32(), r.Uint64()&0xffffffffffff)
		}
		return uuidPool[r.IntN(len(uuidPool))]
	case protomodel.FieldType_BOOLEAN:
		return r.IntN(2) == 0
	}
	return nil
}

func setPath(m map[string]any, path string, v any) {
	parts := strings.Split(path, ".")
	cur := m
	for i, p := range parts {
		if i == len(parts)-1 {
			cur[p] = v
			return
		}
		nx, ok := cur[p].(map[string]any)
		if !ok {
			if _, exists := cur[p]; exists {
				return // an ancestor is a scalar: the path stays missing
			}
			nx = map[string]any{}
			cur[p] = nx
		}
		cur = nx
	}
}

func genExtra(r *rand.Rand, depth int) any {
	switch r.IntN(9) {
	case 0:
		return nil
	case 1:
		return r.IntN(2) == 0
	case 2:
		return dblPool[r.IntN(len(dblPool))]
	case 3:
		return strPool[r.IntN(len(strPool))]
	case 4:
		return []any{}
	case 5:
		return map[string]any{}
	case 6:
		if depth < 3 {
			n := r.IntN(4)
			l := make([]any, n)
			for i := range l {
				l[i] = genExtra(r, depth+1)
			}
			return l
		}
	case 7:
		if depth < 3 {
			m := map[string]any{}
			for i, n := 0, r.IntN(4); i < n; i++ {
				m[[]string{"k", "ключ", "", "K", "with space", "😀", "e", "x"}[r.IntN(8)]] = genExtra(r, depth+1)
			}
			return m
		}
	}
	return float64(r.IntN(1000))
}

// genDoc: a document for the current schema. Values of fields in unique indexes
// come from a wide domain unless dup != nil (then the unique tuple of dup is copied).
func (s *scen) genDoc(r *rand.Rand, dup *mdoc) *structpb.Struct {
	return s.genDocCopying(r, dup, nil)
}

// genDocCopying: like genDoc, but only the unique-index fields named in only (nil = all of them) are
// copied from dup; the other unique-index fields get fresh values from the wide domain. Documents that
// share a proper part of another document's unique tuple are legitimate; a later write that completes
// the tuple is not.
func (s *scen) genDocCopying(r *rand.Rand, dup *mdoc, only map[string]bool) *structpb.Struct {
	m := map[string]any{}
	if r.IntN(25) == 0 {
		m["a"] = "scalar-where-a-struct-is-expected"
	}
	if r.IntN(40) == 0 {
		m["p"] = nil
	}
	uniq := s.uniqueFields()
	for _, fs := range fieldPool {
		f := s.field(fs.Name)
		if f == nil && r.IntN(3) != 0 {
			continue // undeclared pool fields appear in some documents (they matter once the field is added)
		}
		v := s.genValue(r, fs, uniq[fs.Name])
		if uniq[fs.Name] && dup != nil && f != nil && (only == nil || only[fs.Name]) {
			if dv, ok := extract(dup.last().doc, fs.Name); ok {
				v = toAny(dv)
			} else {
				v = missing
			}
		}
		if v == missing {
			continue
		}
		setPath(m, fs.Name, v)
	}
	for i, n := 0, r.IntN(3); i < n; i++ {
		m[[]string{"extra", "note", "Ünï", "tags", "x1"}[r.IntN(5)]] = genExtra(r, 0)
	}
	if r.IntN(30) == 0 {
		m = map[string]any{} // the empty document
	}
	st, err := structpb.NewStruct(m)
	if err != nil {
		panic("c19 generator produced an invalid struct: " + err.Error())
	}
	return st
}

var opsOrdered = []protomodel.ComparisonOperator{protomodel.ComparisonOperator_EQ, protomodel.ComparisonOperator_NE,
	protomodel.ComparisonOperator_LT, protomodel.ComparisonOperator_LE, protomodel.ComparisonOperator_GT, protomodel.ComparisonOperator_GE}

func (s *scen) genCmp(r *rand.Rand) qcmp {
	if len(s.fields) == 0 || r.IntN(10) == 0 {
		c := qcmp{Field: idField, Op: opsOrdered[r.IntN(2)], Doc: -1}
		if len(s.docs) > 0 && r.IntN(8) != 0 {
			c.Doc = r.IntN(len(s.docs))
		}
		return c
	}
	f := s.fields[r.IntN(len(s.fields))]
	return s.genCmpOn(r, f)
}

func (s *scen) genCmpOn(r *rand.Rand, f *fieldDef) qcmp {
	c := qcmp{Field: f.Name}
	switch f.Type {
	case protomodel.FieldType_BOOLEAN, protomodel.FieldType_UUID:
		c.Op = opsOrdered[r.IntN(2)]
		if r.IntN(8) == 0 {
			c.Op = opsOrdered[r.IntN(6)]
		}
	case protomodel.FieldType_STRING:
		c.Op = opsOrdered[r.IntN(6)]
		if r.IntN(7) == 0 {
			c.Op = []protomodel.ComparisonOperator{protomodel.ComparisonOperator_LIKE, protomodel.ComparisonOperator_NOT_LIKE}[r.IntN(2)]
			c.Val = likePool[r.IntN(len(likePool))]
			return c
		}
	default:
		c.Op = opsOrdered[r.IntN(6)]
	}
	// constants: half of the time a value some live document holds (so that boundaries are hit)
	if r.IntN(2) == 0 {
		if live := s.liveDocs(); len(live) > 0 {
			d := live[r.IntN(len(live))]
			if v, ok := extract(d.last().doc, f.Name); ok {
				if cv, ok := constFor(f.Type, toAny(v)); ok && cv != nil {
					c.Val = toAny(v)
					return c
				}
			}
		}
	}
	for {
		v := s.genValue(r, fieldSpec{f.Name, f.Type}, r.IntN(6) == 0 && s.uniqueFields()[f.Name])
		if v == missing {
			continue
		}
		if v == nil && r.IntN(3) != 0 {
			continue // null constants: a few
		}
		if sv, ok := v.(string); ok && len(sv) > 400 && r.IntN(2) == 0 {
			continue
		}
		c.Val = v
		return c
	}
}

func (s *scen) genQuery(r *rand.Rand) *hquery {
	q := &hquery{}
	ng := []int{0, 1, 1, 1, 1, 1, 1, 2, 2, 2, 3}[r.IntN(11)]
	for g := 0; g < ng; g++ {
		nc := []int{1, 1, 1, 1, 2, 2, 3}[r.IntN(7)]
		var grp []qcmp
		for k := 0; k < nc; k++ {
			grp = append(grp, s.genCmp(r))
		}
		q.Groups = append(q.Groups, grp)
	}
	s.genOrder(r, q)
	return q
}

func (s *scen) genOrder(r *rand.Rand, q *hquery) {
	var f *fieldDef
	if len(s.fields) > 0 {
		f = s.fields[r.IntN(len(s.fields))]
	}
	switch x := r.IntN(20); {
	case x < 7 || f == nil && x < 14:
	case x < 10:
		q.Order = []qord{{f.Name, false}}
	case x < 12:
		q.Order = []qord{{f.Name, true}}
	case x < 14:
		q.Order = []qord{{f.Name, r.IntN(2) == 0}, {idField, r.IntN(3) == 0}}
	case x < 18:
		q.Order = []qord{{idField, false}}
	default:
		q.Order = []qord{{idField, true}}
	}
	if n := len(q.Order); n > 0 && q.Order[n-1].Field == idField {
		// paging only under a total order
		if r.IntN(2) == 0 {
			q.Limit = uint32([]int{1, 2, 3, 5, 50}[r.IntN(5)])
		}
		if r.IntN(3) == 0 {
			q.Offset = int64([]int{1, 2, 4, 100}[r.IntN(4)])
		}
	}
	if r.IntN(3) == 0 {
		q.ReadN = 1 + r.IntN(4)
	}
}

// toAny: like Value.AsInterface, but numbers stay numbers (AsInterface turns non-finite ones into strings).
func toAny(v *structpb.Value) any {
	if nv, ok := v.GetKind().(*structpb.Value_NumberValue); ok {
		return nv.NumberValue
	}
	return v.AsInterface()
}

func toValue(v any) *structpb.Value {
	pv, err := structpb.NewValue(v)
	if err != nil {
		panic("c19 generator produced an invalid value: " + err.Error())
	}
	return pv
}

// build renders the query for one twin (id constants are per twin).
func (s *scen) build(q *hquery, twin int) *protomodel.Query {
	out := &protomodel.Query{CollectionName: twinNames[twin], Limit: q.Limit}
	for _, g := range q.Groups {
		e := &protomodel.QueryExpression{}
		for _, c := range g {
			fc := &protomodel.FieldComparison{Field: c.Field, Operator: c.Op}
			if c.Field == idField {
				id := "00000000000000000000000000000000"
				if c.Doc >= 0 && c.Doc < len(s.docs) {
					id = s.docs[c.Doc].id[twin]
				}
				fc.Value = structpb.NewStringValue(id)
			} else {
				fc.Value = toValue(c.Val)
			}
			e.FieldComparisons = append(e.FieldComparisons, fc)
		}
		out.Expressions = append(out.Expressions, e)
	}
	for _, o := range q.Order {
		out.OrderBy = append(out.OrderBy, &protomodel.OrderByClause{Field: o.Field, Desc: o.Desc})
	}
	return out
}

func opName(op protomodel.ComparisonOperator) string { return strings.ToLower(op.String()) }

func (s *scen) cmpShape(c qcmp) string {
	if c.Field == idField {
		return opName(c.Op) + "-on-id"
	}
	f := s.field(c.Field)
	if f == nil {
		return opName(c.Op) + "-on-undeclared"
	}
	k := ""
	switch v := c.Val.(type) {
	case nil:
		k = "/null-constant"
	default:
		if _, ok := constFor(f.Type, v); !ok {
			k = "/constant-outside-type"
		}
	}
	return fmt.Sprintf("%s-on-%s-%s%s", opName(c.Op), s.idxState(c.Field), typeName(f.Type), k)
}

func (q *hquery) structure() string {
	st := "all"
	switch {
	case len(q.Groups) == 1 && len(q.Groups[0]) == 1:
		st = "single"
	case len(q.Groups) == 1:
		st = "and"
	case len(q.Groups) > 1:
		st = "or"
		for _, g := range q.Groups {
			if len(g) > 1 {
				st = "and-or"
			}
		}
	}
	return st
}

func (s *scen) orderShape(q *hquery) string {
	if len(q.Order) == 0 {
		return "unordered"
	}
	var parts []string
	for _, o := range q.Order {
		p := "id"
		if o.Field != idField {
			if f := s.field(o.Field); f != nil {
				p = s.idxState(o.Field) + "-" + typeName(f.Type)
			}
		}
		if o.Desc {
			p += "-desc"
		}
		parts = append(parts, p)
	}
	sh := "order-by-" + strings.Join(parts, "+")
	if q.Limit > 0 || q.Offset > 0 {
		sh += "/paged"
	}
	return sh
}

func (s *scen) shape(q *hquery) string {
	sh := q.structure()
	if len(q.Groups) > 0 {
		sh += "/" + s.cmpShape(q.Groups[0][0])
	}
	return sh + "/" + s.orderShape(q)
}
