package c19

import (
	"bytes"
	"fmt"
	"math/rand/v2"
	"sort"

	"github.com/codenotary/immudb/pkg/api/protomodel"
	"github.com/codenotary/immudb/pkg/api/schema"
	"github.com/codenotary/immudb/pkg/verification"
	"google.golang.org/protobuf/proto"
	"google.golang.org/protobuf/types/known/structpb"

	"verifharness/internal/fw"
)

// Document proofs (database backend only). A verification is judged by its CLAIM:
// VerifyDocument(proof, doc, knownState) = state says "in the database whose
// history contains knownState and reaches state, transaction proof.Tx.Header.Id
// wrote exactly doc as the document doc[idField] of collection proof.CollectionId".
// Accepting while that is false is a violation; tampering that leaves it true is benign.

type proofCase struct {
	reqTx uint64 // TransactionId of the request (0 = latest revision)
	proof *protomodel.ProofDocumentResponse
	doc   *structpb.Struct
	state *schema.ImmutableState
}

func (p proofCase) clone() proofCase {
	c := proofCase{proof: proto.Clone(p.proof).(*protomodel.ProofDocumentResponse), doc: proto.Clone(p.doc).(*structpb.Struct)}
	if p.state != nil {
		c.state = proto.Clone(p.state).(*schema.ImmutableState)
	}
	return c
}

func (s *scen) realState(tx uint64) (*schema.ImmutableState, error) {
	h, err := s.dbe.alh(tx)
	if err != nil {
		return nil, err
	}
	return &schema.ImmutableState{Db: "docdb", TxId: tx, TxHash: h[:]}, nil
}

func (s *scen) stateIsReal(st *schema.ImmutableState) bool {
	if st == nil || st.TxId == 0 {
		return true
	}
	h, err := s.dbe.alh(st.TxId)
	return err == nil && bytes.Equal(h[:], st.TxHash)
}

// claimTrue: is what an accepting verifier asserts actually the case?
func (s *scen) claimTrue(pc proofCase, out *schema.ImmutableState) (bool, string) {
	p := pc.proof
	idv, ok := pc.doc.Fields[p.DocumentIdFieldName]
	if !ok {
		return false, "the document has no id field"
	}
	id := idv.GetStringValue()
	twin := -1
	for t := 0; t < 2; t++ {
		if s.collID[t] != 0 && s.collID[t] == p.CollectionId {
			twin = t
		}
	}
	if twin < 0 {
		return false, fmt.Sprintf("collection id %d is not one of the twins", p.CollectionId)
	}
	d := s.byID[twin][id]
	if d == nil {
		return false, fmt.Sprintf("collection %s has no document %s", twinNames[twin], id)
	}
	if p.VerifiableTx == nil || p.VerifiableTx.Tx == nil || p.VerifiableTx.Tx.Header == nil {
		return false, "no transaction in the proof"
	}
	txid := p.VerifiableTx.Tx.Header.Id
	var r *rev
	for i := range d.revs {
		if d.revs[i].tx[twin] == txid && !d.revs[i].deleted {
			r = &d.revs[i]
		}
	}
	if r == nil {
		return false, fmt.Sprintf("transaction %d wrote no revision of document #%d in %s", txid, d.n, twinNames[twin])
	}
	if !proto.Equal(pc.doc, withID(r.doc, id)) {
		return false, fmt.Sprintf("transaction %d wrote document #%d as %s, not as %s", txid, d.n, pj(withID(r.doc, id)), pj(pc.doc))
	}
	if !s.stateIsReal(pc.state) {
		return false, "the known state is not a state of this database"
	}
	if out == nil || !s.stateIsReal(out) || out.TxId == 0 {
		return false, "the returned state is not a state of this database"
	}
	return true, ""
}

func (s *scen) verify(pc proofCase) (*schema.ImmutableState, error, bool, string) {
	var st *schema.ImmutableState
	var err error
	panicked, sig, text := fw.Guard(func() { st, err = verification.VerifyDocument(bg, pc.proof, pc.doc, pc.state, nil) })
	if panicked {
		return nil, fmt.Errorf("panic: %s", sig), true, text
	}
	return st, err, false, ""
}

func flip(b []byte, r *rand.Rand) []byte {
	if len(b) == 0 {
		return []byte{1}
	}
	c := append([]byte(nil), b...)
	c[r.IntN(len(c))] ^= 1 << uint(r.IntN(8))
	return c
}

func nonIDKeys(doc *structpb.Struct) []string {
	var ks []string
	for k := range doc.Fields {
		if k != idField {
			ks = append(ks, k)
		}
	}
	sort.Strings(ks)
	return ks
}

func alter(v *structpb.Value) *structpb.Value {
	switch k := v.GetKind().(type) {
	case *structpb.Value_NumberValue:
		return structpb.NewNumberValue(k.NumberValue + 1)
	case *structpb.Value_StringValue:
		return structpb.NewStringValue(k.StringValue + "x")
	case *structpb.Value_BoolValue:
		return structpb.NewBoolValue(!k.BoolValue)
	case *structpb.Value_NullValue:
		return structpb.NewNumberValue(0)
	case *structpb.Value_StructValue:
		c := proto.Clone(k.StructValue).(*structpb.Struct)
		if c.Fields == nil {
			c.Fields = map[string]*structpb.Value{}
		}
		c.Fields["injected"] = structpb.NewBoolValue(true)
		return structpb.NewStructValue(c)
	case *structpb.Value_ListValue:
		c := proto.Clone(k.ListValue).(*structpb.ListValue)
		c.Values = append(c.Values, structpb.NewNullValue())
		return structpb.NewListValue(c)
	}
	return structpb.NewStringValue("altered")
}

func (s *scen) honestProof(d *mdoc, twin, rv int, since uint64) (proofCase, error) {
	r := &d.revs[rv]
	tx := r.tx[twin]
	if rv == d.nrevs()-1 && s.qr.IntN(2) == 0 {
		tx = 0 // latest revision
	}
	p, err := s.dbe.proof(twinNames[twin], d.id[twin], tx, since)
	if err != nil {
		return proofCase{reqTx: tx}, err
	}
	pc := proofCase{reqTx: tx, proof: p, doc: withID(r.doc, d.id[twin])}
	if since > 0 {
		pc.state, err = s.realState(since)
		if err != nil {
			return proofCase{}, err
		}
	}
	return pc, nil
}

func (s *scen) checkProof(d *mdoc) {
	if d == nil || s.dbe == nil || s.dead {
		return
	}
	r := s.qr
	twin := r.IntN(2)
	var revs []int
	for i := range d.revs {
		if !d.revs[i].deleted && d.revs[i].tx[twin] != 0 && (d.live() || true) {
			revs = append(revs, i)
		}
	}
	if len(revs) == 0 {
		return
	}
	rv := revs[r.IntN(len(revs))]
	cur, err := s.dbe.db.CurrentState()
	if err != nil {
		s.c.Inconclusive("CurrentState: " + err.Error())
		return
	}
	var since uint64
	if r.IntN(3) != 0 {
		since = 1 + r.Uint64N(cur.TxId)
	}
	if !d.live() && rv == d.nrevs()-2 && false {
		return
	}
	pc, err := s.honestProof(d, twin, rv, since)
	s.c.Eval(1)
	if err != nil {
		if !d.live() {
			// proofs of revisions of a deleted document: the API answers "document not found"; not covered by the statement
			s.c.Distinct("proof|deleted-document|" + errClass(err))
			return
		}
		cause := errClass(err)
		if pc.reqTx == 0 && cause == "document-not-found" {
			cause = "latest-revision-not-yet-indexed" // TransactionId 0 = latest revision: looked up without waiting for the index
		}
		s.viol("proof/honest-refused/"+cause, fmt.Sprintf("ProofDocument(#%d revision %d of %s written by tx %d, requested TransactionId %d, since tx %d) failed: %v", d.n, rv+1, twinNames[twin], d.revs[rv].tx[twin], pc.reqTx, since, err))
		return
	}
	if s.collID[twin] == 0 {
		s.collID[twin] = pc.proof.CollectionId
	} else if s.collID[twin] != pc.proof.CollectionId {
		s.viol("proof/collection-id-changed", fmt.Sprintf("ProofDocument reports collection id %d for %s, earlier %d", pc.proof.CollectionId, twinNames[twin], s.collID[twin]))
		return
	}
	st, verr, panicked, text := s.verify(pc)
	rel := "state-before-doc"
	switch {
	case since == 0:
		rel = "no-state"
	case since == d.revs[rv].tx[twin]:
		rel = "state-at-doc"
	case since > d.revs[rv].tx[twin]:
		rel = "state-after-doc"
	}
	s.c.Distinct(fmt.Sprintf("proof|honest|%s|revision=%s|latest=%v|accepted=%v", rel, bucketN(rv+1), rv == d.nrevs()-1, verr == nil))
	if panicked {
		s.c.Violation("proof/honest-panic", fmt.Sprintf("VerifyDocument panicked on an honest proof: %s", text), s.files())
		return
	}
	if verr != nil {
		s.viol("proof/honest-rejected/"+rel, fmt.Sprintf("VerifyDocument rejected the honest proof of document #%d revision %d (tx %d) of %s with known state at tx %d: %v", d.n, rv+1, d.revs[rv].tx[twin], twinNames[twin], since, verr))
		return
	}
	if ok, why := s.claimTrue(pc, st); !ok {
		s.viol("proof/honest-accepted-with-false-claim", fmt.Sprintf("VerifyDocument accepted the honest proof of document #%d but: %s", d.n, why))
		return
	}
	if s.sp.Index < 8 {
		s.c.Sample(map[string]any{"check": "document proof", "document": pj(pc.doc), "tx": pc.proof.VerifiableTx.Tx.Header.Id, "known_state_tx": since, "verified_state_tx": st.TxId})
	}

	// another document (for swaps): some other document with a provable revision
	var other *proofCase
	for try := 0; try < 6 && other == nil; try++ {
		o := s.pickDoc(r)
		if o == nil || o == d || !o.live() {
			continue
		}
		ot := twin
		if r.IntN(3) == 0 {
			ot = 1 - twin
		}
		if opc, err := s.honestProof(o, ot, o.nrevs()-1, since); err == nil {
			other = &opc
		}
	}
	var otherRev *proofCase
	for _, k := range revs {
		if k != rv && !proto.Equal(d.revs[k].doc, d.revs[rv].doc) && d.live() {
			if opc, err := s.honestProof(d, twin, k, since); err == nil {
				otherRev = &opc
				break
			}
		}
	}

	type tamper struct {
		name string
		f    func(c *proofCase) bool // false: not applicable
	}
	ops := []tamper{
		{"doc/flip-field-value", func(c *proofCase) bool {
			ks := nonIDKeys(c.doc)
			if len(ks) == 0 {
				return false
			}
			k := ks[r.IntN(len(ks))]
			c.doc.Fields[k] = alter(c.doc.Fields[k])
			return true
		}},
		{"doc/rename-field", func(c *proofCase) bool {
			ks := nonIDKeys(c.doc)
			if len(ks) == 0 {
				return false
			}
			k := ks[r.IntN(len(ks))]
			c.doc.Fields[k+"_"] = c.doc.Fields[k]
			delete(c.doc.Fields, k)
			return true
		}},
		{"doc/drop-field", func(c *proofCase) bool {
			ks := nonIDKeys(c.doc)
			if len(ks) == 0 {
				return false
			}
			delete(c.doc.Fields, ks[r.IntN(len(ks))])
			return true
		}},
		{"doc/add-field", func(c *proofCase) bool {
			c.doc.Fields["added"] = structpb.NewNumberValue(1)
			return true
		}},
		{"doc/change-id", func(c *proofCase) bool {
			if other == nil {
				return false
			}
			c.doc.Fields[idField] = other.doc.Fields[idField]
			return true
		}},
		{"doc/twin-id", func(c *proofCase) bool {
			c.doc.Fields[idField] = structpb.NewStringValue(d.id[1-twin])
			return true
		}},
		{"doc/other-revision", func(c *proofCase) bool {
			if otherRev == nil {
				return false
			}
			c.doc = proto.Clone(otherRev.doc).(*structpb.Struct)
			return true
		}},
		{"proof/of-other-revision", func(c *proofCase) bool {
			if otherRev == nil {
				return false
			}
			c.proof = proto.Clone(otherRev.proof).(*protomodel.ProofDocumentResponse)
			return true
		}},
		{"proof/of-other-document", func(c *proofCase) bool {
			if other == nil {
				return false
			}
			c.proof = proto.Clone(other.proof).(*protomodel.ProofDocumentResponse)
			return true
		}},
		{"proof/encoded-document-of-other-document", func(c *proofCase) bool {
			if other == nil {
				return false
			}
			c.proof.EncodedDocument = append([]byte(nil), other.proof.EncodedDocument...)
			return true
		}},
		{"proof/dual-proof-of-other-document", func(c *proofCase) bool {
			if other == nil {
				return false
			}
			c.proof.VerifiableTx.DualProof = proto.Clone(other.proof.VerifiableTx.DualProof).(*schema.DualProofV2)
			return true
		}},
		{"proof/encoded-document-flip", func(c *proofCase) bool {
			c.proof.EncodedDocument = flip(c.proof.EncodedDocument, r)
			return true
		}},
		{"proof/entry-hvalue-flip", func(c *proofCase) bool {
			es := c.proof.VerifiableTx.Tx.Entries
			if len(es) == 0 {
				return false
			}
			e := es[r.IntN(len(es))]
			e.HValue = flip(e.HValue, r)
			return true
		}},
		{"proof/entry-key-flip", func(c *proofCase) bool {
			es := c.proof.VerifiableTx.Tx.Entries
			if len(es) == 0 {
				return false
			}
			e := es[r.IntN(len(es))]
			e.Key = flip(e.Key, r)
			return true
		}},
		{"proof/drop-entry", func(c *proofCase) bool {
			es := c.proof.VerifiableTx.Tx.Entries
			if len(es) == 0 {
				return false
			}
			k := r.IntN(len(es))
			c.proof.VerifiableTx.Tx.Entries = append(append([]*schema.TxEntry(nil), es[:k]...), es[k+1:]...)
			return true
		}},
		{"proof/header-eh-flip", func(c *proofCase) bool {
			c.proof.VerifiableTx.Tx.Header.EH = flip(c.proof.VerifiableTx.Tx.Header.EH, r)
			return true
		}},
		{"proof/header-id", func(c *proofCase) bool {
			c.proof.VerifiableTx.Tx.Header.Id += uint64(1 + r.IntN(2))
			return true
		}},
		{"proof/header-prevalh-flip", func(c *proofCase) bool {
			c.proof.VerifiableTx.Tx.Header.PrevAlh = flip(c.proof.VerifiableTx.Tx.Header.PrevAlh, r)
			return true
		}},
		{"proof/collection-id", func(c *proofCase) bool {
			if r.IntN(2) == 0 && s.collID[1-twin] != 0 {
				c.proof.CollectionId = s.collID[1-twin]
			} else {
				c.proof.CollectionId += 1 + uint32(r.IntN(3))
			}
			return true
		}},
		{"proof/id-field-name", func(c *proofCase) bool {
			for _, k := range nonIDKeys(c.doc) {
				if _, ok := c.doc.Fields[k].GetKind().(*structpb.Value_StringValue); ok {
					c.proof.DocumentIdFieldName = k
					return true
				}
			}
			c.proof.DocumentIdFieldName = "id"
			return true
		}},
		{"proof/dual-proof-drop-term", func(c *proofCase) bool {
			dp := c.proof.VerifiableTx.DualProof
			switch {
			case len(dp.InclusionProof) > 0 && (len(dp.ConsistencyProof) == 0 || r.IntN(2) == 0):
				k := r.IntN(len(dp.InclusionProof))
				dp.InclusionProof = append(append([][]byte(nil), dp.InclusionProof[:k]...), dp.InclusionProof[k+1:]...)
			case len(dp.ConsistencyProof) > 0:
				k := r.IntN(len(dp.ConsistencyProof))
				dp.ConsistencyProof = append(append([][]byte(nil), dp.ConsistencyProof[:k]...), dp.ConsistencyProof[k+1:]...)
			default:
				return false
			}
			return true
		}},
		{"proof/dual-proof-flip-term", func(c *proofCase) bool {
			dp := c.proof.VerifiableTx.DualProof
			switch {
			case len(dp.InclusionProof) > 0 && (len(dp.ConsistencyProof) == 0 || r.IntN(2) == 0):
				k := r.IntN(len(dp.InclusionProof))
				dp.InclusionProof[k] = flip(dp.InclusionProof[k], r)
			case len(dp.ConsistencyProof) > 0:
				k := r.IntN(len(dp.ConsistencyProof))
				dp.ConsistencyProof[k] = flip(dp.ConsistencyProof[k], r)
			default:
				return false
			}
			return true
		}},
		{"proof/dual-proof-target-header-flip", func(c *proofCase) bool {
			h := c.proof.VerifiableTx.DualProof.TargetTxHeader
			if r.IntN(2) == 0 {
				h.BlRoot = flip(h.BlRoot, r)
			} else {
				h.EH = flip(h.EH, r)
			}
			return true
		}},
		{"proof/dual-proof-source-header-flip", func(c *proofCase) bool {
			h := c.proof.VerifiableTx.DualProof.SourceTxHeader
			if r.IntN(2) == 0 {
				h.PrevAlh = flip(h.PrevAlh, r)
			} else {
				h.EH = flip(h.EH, r)
			}
			return true
		}},
		{"state/hash-flip", func(c *proofCase) bool {
			if c.state == nil {
				return false
			}
			c.state.TxHash = flip(c.state.TxHash, r)
			return true
		}},
		{"state/txid-shift", func(c *proofCase) bool {
			if c.state == nil {
				return false
			}
			if c.state.TxId > 1 && r.IntN(2) == 0 {
				c.state.TxId--
			} else {
				c.state.TxId++
			}
			return true
		}},
		{"state/of-other-tx", func(c *proofCase) bool {
			if c.state == nil || cur.TxId < 2 {
				return false
			}
			t := 1 + r.Uint64N(cur.TxId)
			if t == c.state.TxId {
				return false
			}
			st, err := s.realState(t)
			if err != nil {
				return false
			}
			c.state = st
			return true
		}},
		{"state/invented-for-first-use", func(c *proofCase) bool {
			if c.state != nil {
				return false
			}
			c.state = &schema.ImmutableState{Db: "docdb", TxId: c.proof.VerifiableTx.DualProof.TargetTxHeader.Id, TxHash: flip(make([]byte, 32), r)}
			return true
		}},
	}
	for _, op := range ops {
		c := pc.clone()
		if !op.f(&c) {
			continue
		}
		st, verr, panicked, text := s.verify(c)
		s.c.Eval(1)
		outcome := "rejected"
		switch {
		case panicked:
			outcome = "panic"
			s.c.Count("verifier_panics_on_tampered_input", 1)
			s.c.Note(fmt.Sprintf("VerifyDocument panicked under %s: %s", op.name, firstLine(text)))
		case verr == nil:
			if ok, why := s.claimTrue(c, st); ok {
				outcome = "accepted-claim-still-true"
			} else {
				outcome = "accepted-false-claim"
				s.viol("proof/tampered-accepted/"+op.name, fmt.Sprintf("VerifyDocument accepted document %s for proof of tx %d (collection id %d, id field %q, known state %s): %s", pj(c.doc), c.proof.VerifiableTx.Tx.Header.Id, c.proof.CollectionId, c.proof.DocumentIdFieldName, pj(c.state), why))
			}
		}
		s.c.Distinct(fmt.Sprintf("proof|%s|%s|%s", op.name, rel, outcome))
	}
}

func firstLine(s string) string {
	for i := 0; i < len(s); i++ {
		if s[i] == '\n' {
			return s[:i]
		}
	}
	return s
}
