package c19

import (
	"math"
	"strings"

	"github.com/codenotary/immudb/pkg/api/protomodel"
	"google.golang.org/protobuf/proto"
	"google.golang.org/protobuf/types/known/structpb"
)

// Twins: 0 = c_idx (secondary indexes come and go), 1 = c_plain (never any).
const (
	tIdx   = 0
	tPlain = 1
)

var twinNames = [2]string{"c_idx", "c_plain"}

const idField = "_id"

type fieldDef struct {
	Name string
	Type protomodel.FieldType
	inc  int // incarnation: a field removed and declared again is a new column
}

type idxDef struct {
	Fields []string
	Unique bool
	Later  bool // created after the collection
}

func (ix *idxDef) key() string { return strings.Join(ix.Fields, ",") }

type rev struct {
	tx      [2]uint64 // per twin; 0 = not reported by the API (deletions)
	deleted bool
	doc     *structpb.Struct // payload without the id field
	incs    map[string]int   // declared fields (name -> incarnation) when the revision was written
}

type mdoc struct {
	n    int
	id   [2]string
	revs []rev
}

func (d *mdoc) last() *rev  { return &d.revs[len(d.revs)-1] }
func (d *mdoc) live() bool  { return !d.last().deleted }
func (d *mdoc) nrevs() int  { return len(d.revs) }
func withID(doc *structpb.Struct, id string) *structpb.Struct {
	c := proto.Clone(doc).(*structpb.Struct)
	if c.Fields == nil {
		c.Fields = map[string]*structpb.Value{}
	}
	c.Fields[idField] = structpb.NewStringValue(id)
	return c
}

// extract follows a declared path ("a.b.c": at most three levels, keys never contain dots).
func extract(doc *structpb.Struct, path string) (*structpb.Value, bool) {
	parts := strings.Split(path, ".")
	cur := doc
	for i, p := range parts {
		if cur == nil {
			return nil, false
		}
		v, ok := cur.Fields[p]
		if !ok {
			return nil, false
		}
		if i == len(parts)-1 {
			return v, true
		}
		cur = v.GetStructValue()
	}
	return nil, false
}

// exact integer range of the model: integral doubles that convert to int64 without rounding or overflow.
func exactInt(f float64) (int64, bool) {
	if f != math.Trunc(f) || math.IsInf(f, 0) || math.IsNaN(f) {
		return 0, false
	}
	if f < -9223372036854775808.0 || f >= 9223372036854775808.0 {
		return 0, false
	}
	return int64(f), true
}

// known returns the model's definite value of a declared field in a revision:
// int64, float64, string, bool (uuid as canonical string), or ok=false when the
// property statement leaves the matter open (missing, null, written under an
// older declaration of the field, not exactly representable).
func known(r *rev, f *fieldDef) (any, bool) {
	if inc, ok := r.incs[f.Name]; !ok || inc != f.inc {
		return nil, false
	}
	v, ok := extract(r.doc, f.Name)
	if !ok {
		return nil, false
	}
	switch f.Type {
	case protomodel.FieldType_INTEGER:
		if nv, ok := v.GetKind().(*structpb.Value_NumberValue); ok {
			return exactIntAny(nv.NumberValue)
		}
	case protomodel.FieldType_DOUBLE:
		if nv, ok := v.GetKind().(*structpb.Value_NumberValue); ok && !math.IsNaN(nv.NumberValue) {
			return nv.NumberValue, true
		}
	case protomodel.FieldType_STRING:
		if sv, ok := v.GetKind().(*structpb.Value_StringValue); ok {
			return sv.StringValue, true
		}
	case protomodel.FieldType_UUID:
		if sv, ok := v.GetKind().(*structpb.Value_StringValue); ok {
			return strings.ToLower(sv.StringValue), true
		}
	case protomodel.FieldType_BOOLEAN:
		if bv, ok := v.GetKind().(*structpb.Value_BoolValue); ok {
			return bv.BoolValue, true
		}
	}
	return nil, false
}

func exactIntAny(f float64) (any, bool) {
	i, ok := exactInt(f)
	return i, ok
}

// isNullish: the value the engine stores in the column is NULL (missing path or explicit null).
func isNullish(r *rev, name string) bool {
	v, ok := extract(r.doc, name)
	if !ok {
		return true
	}
	_, isNull := v.GetKind().(*structpb.Value_NullValue)
	return isNull
}

// ---- queries in harness form ----

type qcmp struct {
	Field string
	Op    protomodel.ComparisonOperator
	Val   any // float64 | string | bool | nil (null constant)
	Doc   int // Field == "_id": harness document number the constant refers to (-1: an id that does not exist)
}

type qord struct {
	Field string
	Desc  bool
}

type hquery struct {
	Groups [][]qcmp
	Order  []qord
	Limit  uint32
	Offset int64
	ReadN  int
}

type tri int

const (
	no tri = iota
	yes
	unk
)

func cmpSat(c int, op protomodel.ComparisonOperator) bool {
	switch op {
	case protomodel.ComparisonOperator_EQ:
		return c == 0
	case protomodel.ComparisonOperator_NE:
		return c != 0
	case protomodel.ComparisonOperator_LT:
		return c < 0
	case protomodel.ComparisonOperator_LE:
		return c <= 0
	case protomodel.ComparisonOperator_GT:
		return c > 0
	case protomodel.ComparisonOperator_GE:
		return c >= 0
	}
	return false
}

func ordering(op protomodel.ComparisonOperator) bool {
	return op != protomodel.ComparisonOperator_EQ && op != protomodel.ComparisonOperator_NE
}

// compareKnown: -1/0/1 and whether the order between two definite values of the type is part of the model.
func compareKnown(t protomodel.FieldType, a, b any) (int, bool) {
	switch t {
	case protomodel.FieldType_INTEGER:
		x, y := a.(int64), b.(int64)
		switch {
		case x < y:
			return -1, true
		case x > y:
			return 1, true
		}
		return 0, true
	case protomodel.FieldType_DOUBLE:
		x, y := a.(float64), b.(float64)
		switch {
		case x < y:
			return -1, true
		case x > y:
			return 1, true
		}
		return 0, true
	case protomodel.FieldType_STRING:
		return strings.Compare(a.(string), b.(string)), true
	case protomodel.FieldType_UUID:
		if a.(string) == b.(string) {
			return 0, true
		}
		return 1, false // order between different uuids is not modelled
	case protomodel.FieldType_BOOLEAN:
		if a.(bool) == b.(bool) {
			return 0, true
		}
		return 1, false
	}
	return 0, false
}

// constant of a comparison in the model's domain for the field type
func constFor(t protomodel.FieldType, v any) (any, bool) {
	switch t {
	case protomodel.FieldType_INTEGER:
		if f, ok := v.(float64); ok {
			return exactIntAny(f)
		}
	case protomodel.FieldType_DOUBLE:
		if f, ok := v.(float64); ok && !math.IsNaN(f) {
			return f, true
		}
	case protomodel.FieldType_STRING:
		if s, ok := v.(string); ok {
			return s, true
		}
	case protomodel.FieldType_UUID:
		if s, ok := v.(string); ok {
			return strings.ToLower(s), true
		}
	case protomodel.FieldType_BOOLEAN:
		if b, ok := v.(bool); ok {
			return b, true
		}
	}
	return nil, false
}
