package c19

import (
	"context"
	"errors"
	"fmt"

	"github.com/codenotary/immudb/embedded/document"
	"github.com/codenotary/immudb/embedded/sql"
	"github.com/codenotary/immudb/embedded/store"
	"github.com/codenotary/immudb/pkg/api/protomodel"
	"github.com/codenotary/immudb/pkg/api/schema"
	"github.com/codenotary/immudb/pkg/database"
	"google.golang.org/protobuf/proto"
	"google.golang.org/protobuf/types/known/structpb"

	"verifharness/internal/sth"
)

// backend is the API boundary of the monitor: either document.Engine on a raw
// store ("engine") or the database-level document API of pkg/database ("db").
// Requests are cloned before every call: the engine writes into the messages it
// is given (the generated id goes into the document, ReplaceDocuments injects
// comparisons into the query).
type backend interface {
	kind() string
	createCollection(name string, fields []*protomodel.Field, idx []*protomodel.Index) error
	addField(coll string, f *protomodel.Field) error
	removeField(coll, name string) error
	createIndex(coll string, fields []string, unique bool) error
	deleteIndex(coll string, fields []string) error
	insert(coll string, docs []*structpb.Struct) (uint64, []string, error)
	replace(q *protomodel.Query, doc *structpb.Struct) ([]*protomodel.DocumentAtRevision, error)
	delete(q *protomodel.Query) error
	search(q *protomodel.Query, offset int64, readN int) ([]*protomodel.DocumentAtRevision, error)
	count(q *protomodel.Query, offset int64) (int64, error) // db: offset is always 0
	audit(coll, id string, desc bool, page, pageSize int, payload bool) ([]*protomodel.DocumentAtRevision, error)
	// latest (tx == 0) or given revision of a document: revision number (0 = not reported by this backend) and tx
	encoded(coll, id string, tx uint64) (rev, txid uint64, err error)
	close()
}

const user = "verif"

var bg = context.Background()

func storeOpts() *store.Options {
	return store.DefaultOptions().WithMultiIndexing(true).WithSynced(false).
		WithMaxConcurrency(4).WithMaxTxEntries(1 << 9).WithLogger(sth.QuietLogger())
}

func cloneDocs(docs []*structpb.Struct) []*structpb.Struct {
	out := make([]*structpb.Struct, len(docs))
	for i, d := range docs {
		out[i] = proto.Clone(d).(*structpb.Struct)
	}
	return out
}

func cloneQ(q *protomodel.Query) *protomodel.Query { return proto.Clone(q).(*protomodel.Query) }

func readAll(rd document.DocumentReader, readN int) ([]*protomodel.DocumentAtRevision, error) {
	defer rd.Close()
	var out []*protomodel.DocumentAtRevision
	for {
		if readN > 0 {
			ds, err := rd.ReadN(bg, readN)
			out = append(out, ds...)
			if errors.Is(err, document.ErrNoMoreDocuments) {
				return out, nil
			}
			if err != nil {
				return out, err
			}
			if len(ds) == 0 {
				return out, fmt.Errorf("ReadN(%d) returned no documents and no error", readN)
			}
			continue
		}
		d, err := rd.Read(bg)
		if errors.Is(err, document.ErrNoMoreDocuments) {
			return out, nil
		}
		if err != nil {
			return out, err
		}
		out = append(out, d)
	}
}

// ---- document.Engine on a raw store ----

type engineBE struct {
	st *store.ImmuStore
	e  *document.Engine
}

func openEngine(dir string) (*engineBE, error) {
	st, err := store.Open(dir, storeOpts())
	if err != nil {
		return nil, err
	}
	e, err := document.NewEngine(st, document.DefaultOptions().WithPrefix([]byte{database.DocumentPrefix}))
	if err != nil {
		st.Close()
		return nil, err
	}
	return &engineBE{st: st, e: e}, nil
}

func (b *engineBE) kind() string { return "engine" }
func (b *engineBE) close()       { b.st.Close() }
func (b *engineBE) createCollection(name string, fields []*protomodel.Field, idx []*protomodel.Index) error {
	return b.e.CreateCollection(bg, user, name, "", fields, idx)
}
func (b *engineBE) addField(coll string, f *protomodel.Field) error {
	return b.e.AddField(bg, user, coll, f)
}
func (b *engineBE) removeField(coll, name string) error { return b.e.RemoveField(bg, user, coll, name) }
func (b *engineBE) createIndex(coll string, fields []string, unique bool) error {
	return b.e.CreateIndex(bg, user, coll, fields, unique)
}
func (b *engineBE) deleteIndex(coll string, fields []string) error {
	return b.e.DeleteIndex(bg, user, coll, fields)
}
func (b *engineBE) insert(coll string, docs []*structpb.Struct) (uint64, []string, error) {
	tx, ids, err := b.e.InsertDocuments(bg, user, coll, cloneDocs(docs))
	if err != nil {
		return 0, nil, err
	}
	out := make([]string, len(ids))
	for i, id := range ids {
		out[i] = id.EncodeToHexString()
	}
	return tx, out, nil
}
func (b *engineBE) replace(q *protomodel.Query, doc *structpb.Struct) ([]*protomodel.DocumentAtRevision, error) {
	return b.e.ReplaceDocuments(bg, user, cloneQ(q), proto.Clone(doc).(*structpb.Struct))
}
func (b *engineBE) delete(q *protomodel.Query) error { return b.e.DeleteDocuments(bg, user, cloneQ(q)) }
func (b *engineBE) search(q *protomodel.Query, offset int64, readN int) ([]*protomodel.DocumentAtRevision, error) {
	rd, err := b.e.GetDocuments(bg, cloneQ(q), offset)
	if err != nil {
		return nil, err
	}
	return readAll(rd, readN)
}
func (b *engineBE) count(q *protomodel.Query, offset int64) (int64, error) {
	return b.e.CountDocuments(bg, cloneQ(q), offset)
}
func (b *engineBE) audit(coll, id string, desc bool, page, pageSize int, payload bool) ([]*protomodel.DocumentAtRevision, error) {
	did, err := document.NewDocumentIDFromHexEncodedString(id)
	if err != nil {
		return nil, err
	}
	return b.e.AuditDocument(bg, coll, did, desc, uint64((page-1)*pageSize), pageSize, payload)
}
func (b *engineBE) encoded(coll, id string, tx uint64) (uint64, uint64, error) {
	did, err := document.NewDocumentIDFromHexEncodedString(id)
	if err != nil {
		return 0, 0, err
	}
	_, _, enc, err := b.e.GetEncodedDocument(bg, coll, did, tx)
	if err != nil {
		return 0, 0, err
	}
	return enc.Revision, enc.TxID, nil
}

// ---- pkg/database ----

type noMultiDB struct{}

func (noMultiDB) ListDatabases(ctx context.Context) ([]string, error) { return nil, sql.ErrNoSupported }
func (noMultiDB) CreateDatabase(ctx context.Context, db string, ifNotExists bool) error {
	return sql.ErrNoSupported
}
func (noMultiDB) UseDatabase(ctx context.Context, db string) error    { return sql.ErrNoSupported }
func (noMultiDB) GetLoggedUser(ctx context.Context) (sql.User, error) { return nil, sql.ErrNoSupported }
func (noMultiDB) ListUsers(ctx context.Context) ([]sql.User, error)   { return nil, sql.ErrNoSupported }
func (noMultiDB) DropUser(ctx context.Context, username string) error { return sql.ErrNoSupported }
func (noMultiDB) CreateUser(ctx context.Context, username, password string, permission sql.Permission) error {
	return sql.ErrNoSupported
}
func (noMultiDB) AlterUser(ctx context.Context, username, password string, permission sql.Permission) error {
	return sql.ErrNoSupported
}
func (noMultiDB) GrantSQLPrivileges(ctx context.Context, database, username string, privileges []sql.SQLPrivilege) error {
	return sql.ErrNoSupported
}
func (noMultiDB) RevokeSQLPrivileges(ctx context.Context, database, username string, privileges []sql.SQLPrivilege) error {
	return sql.ErrNoSupported
}
func (noMultiDB) ExecPreparedStmts(ctx context.Context, opts *sql.TxOptions, stmts []sql.SQLStmt, params map[string]interface{}) (*sql.SQLTx, []*sql.SQLTx, error) {
	return nil, nil, sql.ErrNoSupported
}

type dbBE struct{ db database.DB }

func openDB(dir string) (*dbBE, error) {
	opts := database.DefaultOptions().WithDBRootPath(dir).WithStoreOptions(storeOpts())
	db, err := database.NewDB("docdb", noMultiDB{}, opts, sth.QuietLogger())
	if err != nil {
		return nil, err
	}
	return &dbBE{db: db}, nil
}

func (b *dbBE) kind() string { return "db" }
func (b *dbBE) close()       { b.db.Close() }
func (b *dbBE) createCollection(name string, fields []*protomodel.Field, idx []*protomodel.Index) error {
	_, err := b.db.CreateCollection(bg, user, &protomodel.CreateCollectionRequest{Name: name, Fields: fields, Indexes: idx})
	return err
}
func (b *dbBE) addField(coll string, f *protomodel.Field) error {
	_, err := b.db.AddField(bg, user, &protomodel.AddFieldRequest{CollectionName: coll, Field: f})
	return err
}
func (b *dbBE) removeField(coll, name string) error {
	_, err := b.db.RemoveField(bg, user, &protomodel.RemoveFieldRequest{CollectionName: coll, FieldName: name})
	return err
}
func (b *dbBE) createIndex(coll string, fields []string, unique bool) error {
	_, err := b.db.CreateIndex(bg, user, &protomodel.CreateIndexRequest{CollectionName: coll, Fields: fields, IsUnique: unique})
	return err
}
func (b *dbBE) deleteIndex(coll string, fields []string) error {
	_, err := b.db.DeleteIndex(bg, user, &protomodel.DeleteIndexRequest{CollectionName: coll, Fields: fields})
	return err
}
func (b *dbBE) insert(coll string, docs []*structpb.Struct) (uint64, []string, error) {
	res, err := b.db.InsertDocuments(bg, user, &protomodel.InsertDocumentsRequest{CollectionName: coll, Documents: cloneDocs(docs)})
	if err != nil {
		return 0, nil, err
	}
	return res.TransactionId, res.DocumentIds, nil
}
func (b *dbBE) replace(q *protomodel.Query, doc *structpb.Struct) ([]*protomodel.DocumentAtRevision, error) {
	res, err := b.db.ReplaceDocuments(bg, user, &protomodel.ReplaceDocumentsRequest{Query: cloneQ(q), Document: proto.Clone(doc).(*structpb.Struct)})
	if err != nil {
		return nil, err
	}
	return res.Revisions, nil
}
func (b *dbBE) delete(q *protomodel.Query) error {
	_, err := b.db.DeleteDocuments(bg, user, &protomodel.DeleteDocumentsRequest{Query: cloneQ(q)})
	return err
}
func (b *dbBE) search(q *protomodel.Query, offset int64, readN int) ([]*protomodel.DocumentAtRevision, error) {
	rd, err := b.db.SearchDocuments(bg, cloneQ(q), offset)
	if err != nil {
		return nil, err
	}
	return readAll(rd, readN)
}
func (b *dbBE) count(q *protomodel.Query, offset int64) (int64, error) {
	res, err := b.db.CountDocuments(bg, &protomodel.CountDocumentsRequest{Query: cloneQ(q)})
	if err != nil {
		return 0, err
	}
	return res.Count, nil
}
func (b *dbBE) audit(coll, id string, desc bool, page, pageSize int, payload bool) ([]*protomodel.DocumentAtRevision, error) {
	res, err := b.db.AuditDocument(bg, &protomodel.AuditDocumentRequest{CollectionName: coll, DocumentId: id, Desc: desc, Page: uint32(page), PageSize: uint32(pageSize), OmitPayload: !payload})
	if err != nil {
		return nil, err
	}
	return res.Revisions, nil
}
func (b *dbBE) encoded(coll, id string, tx uint64) (uint64, uint64, error) {
	res, err := b.db.ProofDocument(bg, &protomodel.ProofDocumentRequest{CollectionName: coll, DocumentId: id, TransactionId: tx})
	if err != nil {
		return 0, 0, err
	}
	return 0, res.VerifiableTx.Tx.Header.Id, nil
}

func (b *dbBE) proof(coll, id string, tx, since uint64) (*protomodel.ProofDocumentResponse, error) {
	return b.db.ProofDocument(bg, &protomodel.ProofDocumentRequest{CollectionName: coll, DocumentId: id, TransactionId: tx, ProofSinceTransactionId: since})
}

// alh of a committed transaction, read back from the store through the database API
func (b *dbBE) alh(tx uint64) ([32]byte, error) {
	t, err := b.db.TxByID(bg, &schema.TxRequest{Tx: tx})
	if err != nil {
		return [32]byte{}, err
	}
	return schema.TxHeaderFromProto(t.Header).Alh(), nil
}
