// Package c19: monitor for property C19 (see DESIGN.md section 2).
package c19
