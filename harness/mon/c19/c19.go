// Package c19: monitor for property C19 (see DESIGN.md section 2) —
// document collections store and find documents faithfully.
//
// Each case is one pair of TWIN collections in a store of its own, run in a
// child process: c_plain never has a secondary index, c_idx has indexes that are
// declared with the collection, added after documents exist and removed again.
// Both receive the same insert / replace / delete history. Oracles:
//
//	(1) twin relation: every search and count answers identically on both twins
//	    (same documents; same order under a total order) — no reference semantics;
//	(2) model: an in-memory list of documents and a three-valued evaluator of the
//	    generated filters; only definite verdicts are enforced (declared field
//	    present, non-null, written under the field's current declaration, constant
//	    of the field's type); NULL / missing / LIKE are left to (1);
//	(3) unique indexes admit no two live documents with equal non-null tuples and
//	    a refused write leaves no trace;
//	(4) the audit trail lists revisions 1..k in order with each payload;
//	(5) document proofs (database backend): honest ones verify, tampered
//	    (document / proof / known state) ones are never accepted with a false claim.
package c19

import (
	"encoding/json"
	"os"
	"strconv"
	"time"

	"verifharness/internal/fw"
)

func init() {
	fw.RegisterMonitor("C19", "exploration", Run)
	fw.RegisterIsolated("c19-twins", func(c *fw.Ctx, data []byte) {
		var sp caseSpec
		if err := json.Unmarshal(data, &sp); err != nil {
			c.Inconclusive("bad case: " + err.Error())
			return
		}
		runCase(c, sp)
	})
}

func Run(c *fw.Ctx) {
	c.Rule = "PRNG twin collections (c_plain without, c_idx with secondary indexes declared at creation / added later / removed; flat and nested declared fields of all five types) receive the same insert / replace / delete / schema history through document.Engine (3 of 4 cases) or pkg/database (1 of 4, with ProofDocument + VerifyDocument under tamper operators); an evaluation is one search+count compared between the twins and against the three-valued model, one write judged (twin outcome, unique tuples, no trace when refused), one by-id / revision / audit check, or one proof verification judged by its claim; distinct = operation × field type × index state × query shape × outcome observed"
	c.Assume("what the statement leaves open is not enforced by the model, only by the twin relation: comparisons on missing / null fields, fields declared after the revision was written, LIKE patterns, ordering of BOOLEAN / UUID, INTEGER fields holding values that are not exact int64, -0.0 (recorded under C15)")
	c.Assume("document ids grow with insertion order inside one process (checked at run time; otherwise ORDER BY _id is compared as a set)")
	c.Assume("SHA-256; alh of a transaction as read back from the same database is taken as the true state when judging proof claims")
	n := c.N(40, 2000)
	ops := 80
	var cases [][]byte
	only := -1
	if v := os.Getenv("VERIF_C19_ONLY"); v != "" { // development aid: run one case
		only, _ = strconv.Atoi(v)
	}
	for i := 0; i < n; i++ {
		if only >= 0 && i != only {
			continue
		}
		sp := caseSpec{Index: i, Variant: "engine", Ops: ops}
		if i%4 == 3 {
			sp.Variant = "db"
		}
		b, _ := json.Marshal(sp)
		cases = append(cases, b)
	}
	c.RunIsolated("c19-twins", cases, fw.CasesOpts{Workers: 14, CaseTimout: 15 * time.Minute})
}
