package c19

import (
	"fmt"
	"math"
	"sort"
	"strings"

	"github.com/codenotary/immudb/pkg/api/protomodel"
	"google.golang.org/protobuf/proto"
	"google.golang.org/protobuf/types/known/structpb"
)

func (s *scen) evalCmp(c qcmp, d *mdoc) tri {
	if c.Field == idField {
		eq := c.Doc == d.n
		switch c.Op {
		case protomodel.ComparisonOperator_EQ:
			if eq {
				return yes
			}
			return no
		case protomodel.ComparisonOperator_NE:
			if eq {
				return no
			}
			return yes
		}
		return unk
	}
	f := s.field(c.Field)
	if f == nil || c.Val == nil {
		return unk
	}
	if c.Op == protomodel.ComparisonOperator_LIKE || c.Op == protomodel.ComparisonOperator_NOT_LIKE {
		return unk
	}
	cv, ok := constFor(f.Type, c.Val)
	if !ok {
		return unk
	}
	v, ok := known(d.last(), f)
	if !ok {
		return unk // missing, null, older declaration: the statement does not say; left to the twin relation
	}
	cm, ordOK := compareKnown(f.Type, v, cv)
	if ordering(c.Op) && !ordOK {
		return unk
	}
	if cmpSat(cm, c.Op) {
		return yes
	}
	return no
}

// evalDoc: Kleene evaluation of OR-of-ANDs on the latest revision of a live document.
func (s *scen) evalDoc(q *hquery, d *mdoc) tri {
	if len(q.Groups) == 0 {
		return yes
	}
	res := no
	for _, g := range q.Groups {
		gr := yes
		for _, c := range g {
			switch s.evalCmp(c, d) {
			case no:
				gr = no
			case unk:
				if gr == yes {
					gr = unk
				}
			}
			if gr == no {
				break
			}
		}
		switch gr {
		case yes:
			return yes
		case unk:
			res = unk
		}
	}
	return res
}

func (s *scen) idOrderOK() bool {
	for twin := 0; twin < 2; twin++ {
		for i := 1; i < len(s.docs); i++ {
			a, b := s.docs[i-1].id[twin], s.docs[i].id[twin]
			if len(a) != len(b) || a >= b {
				return false
			}
		}
	}
	return true
}

type qres struct {
	raw   []*protomodel.DocumentAtRevision
	docs  []*mdoc
	err   error
	count int64
	cerr  error
}

func (s *scen) runQuery(hq *hquery, twin int, withCount bool) qres {
	q := s.build(hq, twin)
	var res qres
	res.raw, res.err = s.be.search(q, hq.Offset, hq.ReadN)
	if withCount {
		off := hq.Offset
		if s.dbe != nil {
			off = 0
		}
		res.count, res.cerr = s.be.count(q, off)
	}
	return res
}

func seqString(ds []*mdoc) string {
	var sb strings.Builder
	for i, d := range ds {
		if i > 0 {
			sb.WriteByte(' ')
		}
		if i >= 40 {
			sb.WriteString("…")
			break
		}
		fmt.Fprintf(&sb, "#%d", d.n)
	}
	return "[" + sb.String() + "]"
}

func sameSeq(a, b []*mdoc) bool {
	if len(a) != len(b) {
		return false
	}
	for i := range a {
		if a[i] != b[i] {
			return false
		}
	}
	return true
}

func sameSet(a, b []*mdoc) bool {
	if len(a) != len(b) {
		return false
	}
	x := append([]*mdoc(nil), a...)
	y := append([]*mdoc(nil), b...)
	sort.Slice(x, func(i, j int) bool { return x[i].n < x[j].n })
	sort.Slice(y, func(i, j int) bool { return y[i].n < y[j].n })
	return sameSeq(x, y)
}

func (q *hquery) paged() bool { return q.Limit > 0 || q.Offset > 0 }
func (q *hquery) total() bool {
	return len(q.Order) > 0 && q.Order[len(q.Order)-1].Field == idField
}

// twinDiffers: do the twins answer the query differently (ids mapped to harness documents)?
func (s *scen) twinDiffers(hq *hquery) (bool, [2]qres) {
	var rs [2]qres
	for twin := 0; twin < 2; twin++ {
		rs[twin] = s.runQuery(hq, twin, false)
		for _, rv := range rs[twin].raw {
			rs[twin].docs = append(rs[twin].docs, s.byID[twin][rv.DocumentId])
		}
	}
	if (rs[0].err == nil) != (rs[1].err == nil) {
		return true, rs
	}
	if hq.total() && s.idOrderOK() {
		return !sameSeq(rs[0].docs, rs[1].docs), rs
	}
	return !sameSet(rs[0].docs, rs[1].docs), rs
}

func (s *scen) describe(d *mdoc) string {
	if d == nil {
		return "<unknown id>"
	}
	return fmt.Sprintf("#%d %s", d.n, pj(d.last().doc))
}

// checkQuery runs one generated search + count on both twins and judges the answers
// against each other (metamorphic) and against the model (definite cases only).
func (s *scen) checkQuery(hq *hquery) {
	if s.dead {
		return
	}
	sh := s.shape(hq)
	var rs [2]qres
	for twin := 0; twin < 2; twin++ {
		rs[twin] = s.runQuery(hq, twin, true)
	}
	s.c.Eval(1)
	q0 := s.build(hq, tIdx)
	qtxt := fmt.Sprintf("%s offset=%d", pj(q0), hq.Offset)
	if (rs[0].err == nil) != (rs[1].err == nil) || (rs[0].cerr == nil) != (rs[1].cerr == nil) {
		if f := s.oversizeConstant(hq); f != "" && rs[0].err != nil && rs[1].err == nil {
			s.viol("twin/search/oversize-string-constant/refused-only-with-index", fmt.Sprintf("query %s compares STRING field %s (index state %s) with a constant longer than the 512-byte field limit: c_idx refuses it (%v), c_plain answers (%d documents)", qtxt, f, s.idxState(f), rs[0].err, len(rs[1].raw)))
			return
		}
		s.viol("twin/search/outcome-differs/"+sh, fmt.Sprintf("query %s: c_idx search err=%v count err=%v; c_plain search err=%v count err=%v", qtxt, rs[0].err, rs[0].cerr, rs[1].err, rs[1].cerr))
		return
	}
	if rs[0].err != nil {
		s.c.Distinct("search|refused|" + errClass(rs[0].err) + "|" + hq.structure())
		if !s.queryRefused(hq) {
			s.c.Count("searches_refused_unexpectedly", 1)
			s.c.Note(fmt.Sprintf("case %d: query %s refused by both twins: %v", s.sp.Index, qtxt, rs[0].err))
		}
		return
	}
	// ids -> harness documents; payloads as stored
	for twin := 0; twin < 2; twin++ {
		seen := map[*mdoc]bool{}
		for _, rv := range rs[twin].raw {
			d := s.byID[twin][rv.DocumentId]
			if d == nil {
				s.viol("model/search/unknown-id", fmt.Sprintf("query %s on %s returned document id %s which no insert returned: %s", qtxt, twinNames[twin], rv.DocumentId, pj(rv.Document)))
				return
			}
			if seen[d] {
				s.viol("model/search/document-returned-twice/"+sh, fmt.Sprintf("query %s on %s returned document %s twice", qtxt, twinNames[twin], s.describe(d)))
			}
			seen[d] = true
			rs[twin].docs = append(rs[twin].docs, d)
			if !d.live() {
				s.viol("model/search/deleted-doc-returned/"+sh, fmt.Sprintf("query %s on %s returned document #%d which was deleted", qtxt, twinNames[twin], d.n))
				continue
			}
			want := withID(d.last().doc, d.id[twin])
			if !proto.Equal(rv.Document, want) {
				s.viol("model/search/document-altered", fmt.Sprintf("query %s on %s returned document #%d as %s, stored (revision %d) was %s", qtxt, twinNames[twin], d.n, pj(rv.Document), d.nrevs(), pj(want)))
			}
		}
	}

	// (1) twin relation
	total := hq.total() && s.idOrderOK()
	differs := false
	if total {
		differs = !sameSeq(rs[0].docs, rs[1].docs)
	} else {
		differs = !sameSet(rs[0].docs, rs[1].docs)
	}
	if differs {
		sig, extra := s.reduceTwin(hq)
		s.viol("twin/search/"+sig, fmt.Sprintf("query %s: c_idx returned %s, c_plain returned %s (total order: %v)%s", qtxt, seqString(rs[0].docs), seqString(rs[1].docs), total, extra))
	}
	if rs[0].cerr == nil && rs[0].count != rs[1].count {
		s.viol("twin/count/"+sh, fmt.Sprintf("count of %s: c_idx %d, c_plain %d", qtxt, rs[0].count, rs[1].count))
	}
	// count and search of the same collection
	if rs[0].cerr == nil && (s.dbe == nil || hq.Offset == 0) {
		for twin := 0; twin < 2; twin++ {
			if rs[twin].count != int64(len(rs[twin].docs)) {
				s.viol("count/differs-from-search/"+hq.structure()+"/"+s.orderShape(hq), fmt.Sprintf("%s: CountDocuments(%s) = %d but the search returns %d documents", twinNames[twin], qtxt, rs[twin].count, len(rs[twin].docs)))
				break
			}
		}
	}

	// (2) model: definite documents only
	live := s.liveDocs()
	var must, mustNot, open []*mdoc
	for _, d := range live {
		switch s.evalDoc(hq, d) {
		case yes:
			must = append(must, d)
		case no:
			mustNot = append(mustNot, d)
		default:
			open = append(open, d)
		}
	}
	for twin := 0; twin < 2; twin++ {
		in := map[*mdoc]bool{}
		for _, d := range rs[twin].docs {
			in[d] = true
		}
		bad := false
		for _, d := range mustNot {
			if in[d] {
				s.viol("model/search/unexpected-doc/"+s.blame(hq, d, no), fmt.Sprintf("query %s on %s returned live document %s which does not satisfy it", qtxt, twinNames[twin], s.describe(d)))
				bad = true
				break
			}
		}
		if !hq.paged() {
			for _, d := range must {
				if !in[d] {
					s.viol("model/search/missing-doc/"+s.blame(hq, d, yes), fmt.Sprintf("query %s on %s did not return live document %s which satisfies it (returned %s)", qtxt, twinNames[twin], s.describe(d), seqString(rs[twin].docs)))
					bad = true
					break
				}
			}
		}
		if hq.Limit > 0 && len(rs[twin].docs) > int(hq.Limit) {
			s.viol("model/search/limit-exceeded", fmt.Sprintf("query %s on %s returned %d documents", qtxt, twinNames[twin], len(rs[twin].docs)))
		}
		s.checkOrder(hq, twin, rs[twin].docs, qtxt)
		if bad {
			break
		}
	}
	// the whole page is determined when nothing is open and every sort key is definite
	if exp, ok := s.expected(hq, must, open); ok {
		for twin := 0; twin < 2; twin++ {
			if !sameSeq(exp, rs[twin].docs) {
				s.viol("model/search/page/"+hq.structure()+"/"+s.orderShape(hq), fmt.Sprintf("query %s on %s returned %s, the model expects %s", qtxt, twinNames[twin], seqString(rs[twin].docs), seqString(exp)))
				break
			}
		}
	}
	if len(open) == 0 && rs[0].cerr == nil {
		want := int64(len(must))
		off := hq.Offset
		if s.dbe != nil {
			off = 0
		}
		want -= off
		if want < 0 {
			want = 0
		}
		if hq.Limit > 0 && want > int64(hq.Limit) {
			want = int64(hq.Limit)
		}
		for twin := 0; twin < 2; twin++ {
			if rs[twin].count != want {
				s.viol("model/count/"+hq.structure()+"/"+s.orderShape(hq), fmt.Sprintf("%s: CountDocuments(%s, offset %d) = %d, %d live documents satisfy the query (limit %d)", twinNames[twin], qtxt, off, rs[twin].count, len(must), hq.Limit))
				break
			}
		}
	}

	outcome := bucketN(len(rs[0].docs))
	s.c.Distinct(fmt.Sprintf("search|%s|hits=%s|open=%v", sh, outcome, len(open) > 0))
	for _, g := range hq.Groups {
		for _, c := range g {
			s.c.Distinct(fmt.Sprintf("cmp|%s|%s", s.cmpShape(c), hq.structure()))
		}
	}
	if s.sp.Index < 2 && len(rs[0].docs) > 0 && len(hq.Groups) > 0 {
		s.c.Sample(map[string]any{"check": "twin+model search", "query": qtxt, "returned_by_both_twins": seqString(rs[0].docs), "count": rs[0].count,
			"model_must": len(must), "model_must_not": len(mustNot), "model_open": len(open)})
	}
}

func (s *scen) oversizeConstant(hq *hquery) string {
	for _, g := range hq.Groups {
		for _, c := range g {
			if sv, ok := c.Val.(string); ok && len(sv) > 512 {
				if f := s.field(c.Field); f != nil && f.Type == protomodel.FieldType_STRING {
					return c.Field
				}
			}
		}
	}
	return ""
}

// blame names the comparison that decides the model's verdict for the document (signature of model violations).
func (s *scen) blame(hq *hquery, d *mdoc, want tri) string {
	st := hq.structure()
	for _, g := range hq.Groups {
		for _, c := range g {
			if len(hq.Groups) == 1 && len(g) == 1 {
				return st + "/" + s.cmpShape(c)
			}
			if want == no && s.evalCmp(c, d) == no && len(hq.Groups) == 1 {
				return st + "/" + s.cmpShape(c)
			}
		}
	}
	if len(hq.Groups) > 0 {
		return st + "/" + s.cmpShape(hq.Groups[0][0])
	}
	return st
}

// reduceTwin: when the twins differ on a compound query, name the single comparison that already differs.
func (s *scen) reduceTwin(hq *hquery) (string, string) {
	if len(hq.Groups) > 0 {
		for _, g := range hq.Groups {
			for _, c := range g {
				single := &hquery{Groups: [][]qcmp{{c}}}
				if diff, rs := s.twinDiffers(single); diff {
					return "single/" + s.cmpShape(c) + "/unordered", fmt.Sprintf("; already the single comparison %s differs: c_idx %s (err %v), c_plain %s (err %v)", pj(s.build(single, 0)), seqString(rs[0].docs), rs[0].err, seqString(rs[1].docs), rs[1].err)
				}
			}
		}
	}
	if len(hq.Order) > 0 {
		unordered := &hquery{Groups: hq.Groups}
		if diff, _ := s.twinDiffers(unordered); !diff {
			return hq.structure() + "/" + s.orderShape(hq), "; without ORDER BY / paging the twins agree"
		}
	}
	return s.shape(hq), ""
}

func (s *scen) sortKey(d *mdoc, o qord) (any, *fieldDef, bool) {
	f := s.field(o.Field)
	if f == nil {
		return nil, nil, false
	}
	if f.Type != protomodel.FieldType_INTEGER && f.Type != protomodel.FieldType_DOUBLE && f.Type != protomodel.FieldType_STRING {
		return nil, f, false
	}
	v, ok := known(d.last(), f)
	return v, f, ok
}

// cmpDocs compares two documents under the ORDER BY clauses; ok=false when some key is outside the model.
func (s *scen) cmpDocs(hq *hquery, a, b *mdoc) (int, bool) {
	for _, o := range hq.Order {
		var c int
		if o.Field == idField {
			if !s.idOrderOK() {
				return 0, false
			}
			c = a.n - b.n
		} else {
			va, f, ok1 := s.sortKey(a, o)
			vb, _, ok2 := s.sortKey(b, o)
			if !ok1 || !ok2 {
				return 0, false
			}
			c, _ = compareKnown(f.Type, va, vb)
		}
		if o.Desc {
			c = -c
		}
		if c != 0 {
			return c, true
		}
	}
	return 0, true
}

func (s *scen) checkOrder(hq *hquery, twin int, docs []*mdoc, qtxt string) {
	if len(hq.Order) == 0 {
		return
	}
	for i := 1; i < len(docs); i++ {
		if !docs[i-1].live() || !docs[i].live() {
			continue
		}
		if c, ok := s.cmpDocs(hq, docs[i-1], docs[i]); ok && c > 0 {
			s.viol("model/order/"+s.orderShape(hq), fmt.Sprintf("query %s on %s returned %s before %s", qtxt, twinNames[twin], s.describe(docs[i-1]), s.describe(docs[i])))
			return
		}
	}
}

// expected: the exact answer, when the model determines it.
func (s *scen) expected(hq *hquery, must, open []*mdoc) ([]*mdoc, bool) {
	if len(open) > 0 {
		return nil, false
	}
	if len(hq.Order) == 0 {
		return nil, false
	}
	if !hq.total() {
		return nil, false
	}
	exp := append([]*mdoc(nil), must...)
	okAll := true
	sort.SliceStable(exp, func(i, j int) bool {
		c, ok := s.cmpDocs(hq, exp[i], exp[j])
		if !ok {
			okAll = false
		}
		return c < 0
	})
	if !okAll {
		return nil, false
	}
	// all pairs comparable? (the sort may not have visited every pair)
	for i := 0; i < len(exp); i++ {
		for _, o := range hq.Order {
			if o.Field == idField {
				continue
			}
			if _, _, ok := s.sortKey(exp[i], o); !ok {
				return nil, false
			}
		}
	}
	off := int(hq.Offset)
	if off > len(exp) {
		off = len(exp)
	}
	exp = exp[off:]
	if hq.Limit > 0 && len(exp) > int(hq.Limit) {
		exp = exp[:hq.Limit]
	}
	return exp, true
}

// checkNoTrace: after a refused write both twins must still hold exactly the model's live documents.
func (s *scen) checkNoTrace(op string, targets []*mdoc) {
	all := &hquery{}
	want := int64(len(s.liveDocs()))
	for twin := 0; twin < 2; twin++ {
		n, err := s.be.count(s.build(all, twin), 0)
		s.c.Eval(1)
		if err != nil {
			s.c.Inconclusive(fmt.Sprintf("count after refused %s: %v", op, err))
			return
		}
		if n != want {
			s.viol("unique-index/refused-write-left-trace/"+op, fmt.Sprintf("after a refused %s, %s counts %d documents, %d are live", op, twinNames[twin], n, want))
			s.dead = true
			return
		}
	}
	for _, d := range targets {
		s.checkDocument(d)
	}
}

// checkDocument: lookup by id, latest revision, audit trail (both twins).
func (s *scen) checkDocument(d *mdoc) {
	if d == nil || s.dead {
		return
	}
	for twin := 0; twin < 2; twin++ {
		coll, id := twinNames[twin], d.id[twin]
		// by id
		res, err := s.be.search(s.idQuery(twin, d), 0, 0)
		s.c.Eval(1)
		if err != nil {
			s.viol("model/lookup/error", fmt.Sprintf("search by id %s on %s failed: %v", id, coll, err))
			return
		}
		if d.live() {
			want := withID(d.last().doc, id)
			if len(res) != 1 || res[0].DocumentId != id || !proto.Equal(res[0].Document, want) {
				got := "nothing"
				if len(res) > 0 {
					got = fmt.Sprintf("%d documents, first %s", len(res), pj(res[0].Document))
				}
				s.viol("model/lookup/latest-revision", fmt.Sprintf("lookup of document #%d by id on %s returned %s; its latest revision (%d) is %s", d.n, coll, got, d.nrevs(), pj(want)))
			}
		} else if len(res) != 0 {
			s.viol("model/lookup/deleted-doc-returned", fmt.Sprintf("lookup of deleted document #%d by id on %s returned %s", d.n, coll, pj(res[0].Document)))
		}
		// latest and older revisions through GetEncodedDocument / ProofDocument
		rv, tx, err := s.be.encoded(coll, id, 0)
		s.c.Eval(1)
		switch {
		case d.live() && err != nil:
			s.viol("model/lookup/encoded-error", fmt.Sprintf("latest encoded document #%d on %s: %v", d.n, coll, err))
		case !d.live() && err == nil:
			s.viol("model/lookup/deleted-doc-returned", fmt.Sprintf("encoded document of deleted document #%d on %s is served (revision %d tx %d)", d.n, coll, rv, tx))
		case d.live():
			if (rv != 0 && rv != uint64(d.nrevs())) || (d.last().tx[twin] != 0 && tx != d.last().tx[twin]) {
				s.viol("model/lookup/revision", fmt.Sprintf("latest encoded document #%d on %s: revision %d tx %d, the model has revision %d tx %d", d.n, coll, rv, tx, d.nrevs(), d.last().tx[twin]))
			}
		}
		if k := s.qr.IntN(d.nrevs()); !d.revs[k].deleted && d.revs[k].tx[twin] != 0 {
			rv, tx, err := s.be.encoded(coll, id, d.revs[k].tx[twin])
			s.c.Eval(1)
			if err != nil || tx != d.revs[k].tx[twin] || (rv != 0 && rv != uint64(k+1)) {
				s.viol("model/lookup/revision-at-tx", fmt.Sprintf("document #%d on %s at tx %d: revision %d tx %d err %v, the model has revision %d", d.n, coll, d.revs[k].tx[twin], rv, tx, err, k+1))
			}
		}
		s.checkAudit(d, twin)
	}
	s.c.Distinct(fmt.Sprintf("document|revisions=%s|live=%v", bucketN(d.nrevs()), d.live()))
}

func (s *scen) checkAudit(d *mdoc, twin int) {
	coll, id := twinNames[twin], d.id[twin]
	k := d.nrevs()
	asc, err := s.be.audit(coll, id, false, 1, k+5, true)
	s.c.Eval(1)
	if err != nil {
		s.viol("audit/error", fmt.Sprintf("AuditDocument(#%d) on %s failed: %v", d.n, coll, err))
		return
	}
	if len(asc) != k {
		s.viol("audit/length", fmt.Sprintf("AuditDocument(#%d) on %s lists %d revisions, the document has %d", d.n, coll, len(asc), k))
		return
	}
	okAll := true
	for i, a := range asc {
		r := &d.revs[i]
		switch {
		case a.Revision != uint64(i+1):
			s.viol("audit/revision-order", fmt.Sprintf("AuditDocument(#%d) on %s: entry %d carries revision %d", d.n, coll, i+1, a.Revision))
			okAll = false
		case a.DocumentId != id:
			s.viol("audit/document-id", fmt.Sprintf("AuditDocument(#%d) on %s: entry %d carries id %s instead of %s", d.n, coll, i+1, a.DocumentId, id))
			okAll = false
		case r.tx[twin] != 0 && a.TransactionId != r.tx[twin]:
			s.viol("audit/transaction", fmt.Sprintf("AuditDocument(#%d) on %s: revision %d carries tx %d, it was written by tx %d", d.n, coll, i+1, a.TransactionId, r.tx[twin]))
			okAll = false
		case i > 0 && a.TransactionId <= asc[i-1].TransactionId:
			s.viol("audit/transaction", fmt.Sprintf("AuditDocument(#%d) on %s: revision %d has tx %d, revision %d has tx %d", d.n, coll, i, asc[i-1].TransactionId, i+1, a.TransactionId))
			okAll = false
		case r.deleted:
			if a.Metadata == nil || !a.Metadata.Deleted || a.Document != nil {
				s.viol("audit/deleted-revision", fmt.Sprintf("AuditDocument(#%d) on %s: revision %d is a deletion but is listed as %s", d.n, coll, i+1, pj(a)))
				okAll = false
			}
		default:
			want := withID(r.doc, id)
			if (a.Metadata != nil && a.Metadata.Deleted) || !proto.Equal(a.Document, want) {
				s.viol("audit/payload", fmt.Sprintf("AuditDocument(#%d) on %s: revision %d is listed as %s, it was written as %s", d.n, coll, i+1, pj(a), pj(want)))
				okAll = false
			}
		}
		if !okAll {
			return
		}
	}
	// descending, paged, without payload
	desc, err := s.be.audit(coll, id, true, 1, k+5, s.qr.IntN(2) == 0)
	s.c.Eval(1)
	if err != nil || len(desc) != k {
		s.viol("audit/descending", fmt.Sprintf("AuditDocument(#%d, desc) on %s: %d entries err %v, expected %d", d.n, coll, len(desc), err, k))
		return
	}
	for i, a := range desc {
		if a.Revision != uint64(k-i) || a.TransactionId != asc[k-1-i].TransactionId {
			s.viol("audit/descending", fmt.Sprintf("AuditDocument(#%d, desc) on %s: entry %d carries revision %d tx %d, expected revision %d tx %d", d.n, coll, i+1, a.Revision, a.TransactionId, k-i, asc[k-1-i].TransactionId))
			return
		}
	}
	if k > 1 {
		ps := 1 + s.qr.IntN(k)
		page := 1 + s.qr.IntN((k+ps-1)/ps)
		pg, err := s.be.audit(coll, id, false, page, ps, false)
		s.c.Eval(1)
		lo, hi := (page-1)*ps, page*ps
		if hi > k {
			hi = k
		}
		if err != nil || len(pg) != hi-lo {
			s.viol("audit/paging", fmt.Sprintf("AuditDocument(#%d, page %d of size %d) on %s: %d entries err %v, expected %d", d.n, page, ps, coll, len(pg), err, hi-lo))
			return
		}
		for i, a := range pg {
			if a.Revision != uint64(lo+i+1) {
				s.viol("audit/paging", fmt.Sprintf("AuditDocument(#%d, page %d of size %d) on %s: entry %d carries revision %d", d.n, page, ps, coll, i+1, a.Revision))
				return
			}
		}
	}
	s.c.Distinct(fmt.Sprintf("audit|revisions=%s|deleted=%v", bucketN(k), !d.live()))
}

// finalSweep: every document, every declared field with every operator at boundaries, unique indexes.
func (s *scen) finalSweep() {
	for _, d := range s.docs {
		if s.dead {
			return
		}
		if d.nrevs() > 1 || d.n%3 == 0 {
			s.checkDocument(d)
		}
	}
	for _, f := range s.fields {
		ops := opsOrdered
		for _, op := range ops {
			if s.dead {
				return
			}
			c := s.genCmpOn(s.qr, f)
			if c.Op != protomodel.ComparisonOperator_LIKE && c.Op != protomodel.ComparisonOperator_NOT_LIKE {
				c.Op = op
			}
			hq := &hquery{Groups: [][]qcmp{{c}}}
			if s.qr.IntN(2) == 0 {
				hq.Order = []qord{{f.Name, s.qr.IntN(2) == 0}, {idField, false}}
			}
			s.checkQuery(hq)
		}
		if s.dead {
			return
		}
		// the whole collection in the order of the field, paged
		hq := &hquery{Order: []qord{{f.Name, false}, {idField, false}}, Limit: uint32(1 + s.qr.IntN(7)), Offset: int64(s.qr.IntN(4))}
		s.checkQuery(hq)
	}
	// unique indexes: no two live documents with equal definite tuples (as seen through c_idx itself)
	for _, ix := range s.indexes {
		if !ix.Unique {
			continue
		}
		if def, _, what := s.uniqueConflictAmongLive(ix); def && !s.uniqueTainted {
			s.viol("unique-index/duplicate-admitted/final-state", fmt.Sprintf("live documents of c_idx hold equal non-null tuples under the unique index on (%s): %s", ix.key(), what))
		}
		s.c.Eval(1)
	}
	if s.sp.Index%4 == 1 {
		s.checkNonFinite()
	}
}

// checkNonFinite: numbers a Struct can carry but JSON cannot (±Inf) in an undeclared field, through insert
// and through replace (last step of a case; the document does not enter the model).
func (s *scen) checkNonFinite() {
	mk := func(extra float64) *structpb.Struct {
		d, _ := structpb.NewStruct(map[string]any{"zinf": math.Inf(1), "zneg": []any{math.Inf(-1)}, "touch": extra})
		return d
	}
	for twin := 0; twin < 2 && !s.dead; twin++ {
		doc := mk(0)
		_, ids, err := s.be.insert(twinNames[twin], []*structpb.Struct{doc})
		s.logf("insert %s %v -> %v %v", twinNames[twin], doc, ids, err)
		if err != nil || len(ids) != 1 {
			s.c.Distinct("non-finite|insert|refused")
			return
		}
		q := &protomodel.Query{CollectionName: twinNames[twin], Expressions: []*protomodel.QueryExpression{{FieldComparisons: []*protomodel.FieldComparison{
			{Field: idField, Operator: protomodel.ComparisonOperator_EQ, Value: structpb.NewStringValue(ids[0])}}}}}
		res, err := s.be.search(q, 0, 0)
		s.c.Eval(1)
		if err != nil || len(res) != 1 || !proto.Equal(res[0].Document, withID(doc, ids[0])) {
			s.viol("model/insert/non-finite-number-altered", fmt.Sprintf("inserted %v into %s, read back %v (err %v)", doc, twinNames[twin], res, err))
			return
		}
		doc2 := mk(1)
		revs, err := s.be.replace(q, doc2)
		s.logf("replace %s %v -> %v %v", twinNames[twin], doc2, revs, err)
		if err != nil || len(revs) != 1 {
			s.c.Distinct("non-finite|replace|refused")
			return
		}
		res, err = s.be.search(q, 0, 0)
		s.c.Eval(1)
		s.c.Distinct("non-finite|replace|read-back")
		if err != nil || len(res) != 1 || !proto.Equal(res[0].Document, withID(doc2, ids[0])) {
			s.viol("model/replace/non-finite-number-altered", fmt.Sprintf("replaced document %s of %s with %v, read back %v (err %v)", ids[0], twinNames[twin], doc2, res, err))
			return
		}
	}
}
