// Package c04: monitor for property C04 (see DESIGN.md section 2).
package c04
