// Package c04: reads reflect exactly the committed log (index agrees with history).
//
// One store configuration per isolated case: PRNG writers commit overwrites, logical deletes, fixed
// expirations, non-indexable entries, empty values and many-key transactions against 1-4 indexes (default,
// prefixed, mapped by harness functions, injective or not) while a maintenance goroutine flushes, compacts
// and takes snapshots and the indexer is perturbed at its hook points. The ledger of acknowledged commits
// is replayed into one kvmodel per index with the same mapper functions; at every quiescent point
// (WaitForIndexingUpto(n) returned) all read paths are compared with the model, and reads issued while the
// writers ran must equal the model at some instant between the tx they waited for and the committed frontier.
package c04

import (
	"context"
	"encoding/json"
	"errors"
	"fmt"
	"math/rand/v2"
	"os"
	"runtime"
	"sort"
	"strings"
	"sync"
	"sync/atomic"
	"time"

	"github.com/codenotary/immudb/embedded/store"

	"verifharness/internal/fw"
	"verifharness/internal/hook"
	"verifharness/internal/kvmodel"
	"verifharness/internal/ledger"
	"verifharness/internal/sth"
)

func init() { fw.RegisterMonitor("C04", "exploration", Run) }

type caseSpec struct {
	Name         string
	Layout       int
	Bulk         int
	Adaptive     bool
	FlushThld    int
	SyncThld     int
	NodeSize     int
	CacheSize    int
	MaxBuf       int
	MaxGlobalBuf int
	Writers      int
	Rounds       int
	TxsPerRound  int
	MaxTxEntries int
	MaxKeyLen    int
	MaintBase    int
	Compaction   bool // whether the case ever compacts (a compaction taints the rest of the case, see report())
	Probes       int
	Embedded     bool
}

func (cs caseSpec) String() string {
	return fmt.Sprintf("%s layout=%d compaction=%v bulk=%d adaptive=%v flush=%d sync=%d node=%d cache=%d maxbuf=%d/%d writers=%d embedded=%v",
		cs.Name, cs.Layout%4, cs.Compaction, cs.Bulk, cs.Adaptive, cs.FlushThld, cs.SyncThld, cs.NodeSize, cs.CacheSize, cs.MaxBuf, cs.MaxGlobalBuf, cs.Writers, cs.Embedded)
}

// every (layout, MaxBulkSize) pair; the first ten hold every bulk size and every layout at least twice,
// and both injective layouts with bulk size 1
var combos = [][2]int{
	{0, 1}, {1, 2}, {2, 1}, {3, 8}, {0, 64}, {1, 3}, {2, 2}, {3, 1}, {0, 8}, {2, 64},
	{1, 1}, {3, 2}, {0, 3}, {1, 8}, {3, 64}, {0, 2}, {2, 3}, {1, 64}, {2, 8}, {3, 3},
}

const (
	maxKeyLen   = 40
	maxValueLen = 128
	// vLen + vOff + hVal + txmdLen + txmd(268) + kvmdLen + kvmd(11): the indexed value the store declares to the tree
	idxValueLen = 4 + 8 + 32 + 2 + 268 + 2 + 11
	minNodeSize = 31 + maxKeyLen + idxValueLen
)

func genCase(r *rand.Rand, i int) caseSpec {
	cs := caseSpec{
		Layout:       combos[i%len(combos)][0],
		Bulk:         combos[i%len(combos)][1],
		Adaptive:     r.IntN(2) == 0,
		FlushThld:    []int{1, 3, 10, 50, 1000}[r.IntN(5)],
		SyncThld:     []int{1, 5, 40, 1000}[r.IntN(4)],
		NodeSize:     []int{minNodeSize, minNodeSize, minNodeSize + 150, 4096}[r.IntN(4)],
		CacheSize:    1 + r.IntN(8),
		MaxBuf:       []int{2500, 6000, 1 << 20}[r.IntN(3)], // never below what the largest tx needs (it could never be indexed)
		Writers:      1 + r.IntN(8),
		MaxTxEntries: 8,
		MaxKeyLen:    maxKeyLen,
		MaintBase:    r.IntN(5),
		Compaction:   (i+i/20)%2 == 1,
		Embedded:     r.IntN(4) == 0,
	}
	if cs.SyncThld < cs.FlushThld {
		cs.SyncThld = cs.FlushThld // required by tbtree
	}
	// with bulk sizes above one several writers are needed for bulks to form at all
	if cs.Bulk > 1 && cs.Writers < 3 {
		cs.Writers += 3
	}
	cs.MaxGlobalBuf = cs.MaxBuf * []int{1, 2, 1000}[r.IntN(3)]
	if cs.Bulk > 1 && r.IntN(3) > 0 {
		// with bulks, a global limit that a bulk can exhaust tends to wedge the indexer for good (see the
		// report: the semaphore is released for more than was acquired); keep most such cases productive
		cs.MaxGlobalBuf = cs.MaxBuf * 1000
	}
	if nidx := len(layoutSpecs(cs.Layout)); cs.Compaction && nidx >= 3 {
		// several indexers (and their flushes) queue behind the compaction lock whenever they stall on the
		// global buffered-data limit: such cases only time out
		cs.MaxGlobalBuf = cs.MaxBuf * 1000
	}
	if r.IntN(5) == 0 {
		cs.CacheSize = 100
	}
	return cs
}

func (cs caseSpec) options() *store.Options {
	multi, _ := layout(cs.Layout)
	o := sth.SmallOpts().
		WithMaxTxEntries(cs.MaxTxEntries).WithMaxKeyLen(cs.MaxKeyLen).WithMaxValueLen(maxValueLen).
		WithMaxConcurrency(16).WithMaxActiveTransactions(64).
		WithFileSize(1 << 16).WithEmbeddedValues(cs.Embedded).
		WithMultiIndexing(multi)
	io := o.IndexOpts.
		WithMaxBulkSize(cs.Bulk).WithAdaptiveBulkSize(cs.Adaptive).WithBulkPreparationTimeout(2 * time.Millisecond).
		WithFlushThld(cs.FlushThld).WithSyncThld(cs.SyncThld).
		WithMaxNodeSize(cs.NodeSize).WithCacheSize(cs.CacheSize).
		WithMaxBufferedDataSize(cs.MaxBuf).WithMaxGlobalBufferedDataSize(cs.MaxGlobalBuf).
		WithCompactionThld(1).WithRenewSnapRootAfter(0).WithCleanupPercentage(10)
	return o.WithIndexOptions(io)
}

var maintOps = []string{"compact", "flush", "mixed", "snapshots", "none"}

// cases that never compact
var quietOps = []string{"none", "flush", "snapshots"}

type recent struct {
	id  uint64
	idx int
	key []byte
}

// obs is one read issued while the writers were running.
type obs struct {
	idx    int
	op     string
	key    []byte
	neq    []byte
	q      readerSpec
	lo, hi uint64 // waited for lo before the call; committed frontier hi after it returned
	snapTs uint64
	got    out
	maint  string
}

type run struct {
	c     *fw.Ctx
	cs    caseSpec
	specs []idxSpec
	dir   string
	st    *store.ImmuStore
	led   *ledger.Ledger
	w     *world

	keySeq atomic.Uint64
	// a compaction (which ends with the index being closed, reopened and its indexing goroutine restarted)
	// completed earlier in this case
	compacted atomic.Bool
	abort     atomic.Bool
	why       atomic.Value

	mu     sync.Mutex
	recent []recent
	obs    []obs
}

func (rn *run) rand(stream string) *rand.Rand {
	return fw.NewRand(rn.c.Seed, "c04/"+rn.cs.Name+"/"+stream)
}

func (rn *run) bulkClass() string { return fmt.Sprintf("bulk=%d", rn.cs.Bulk) }

func (rn *run) viol(sig, detail string) {
	b, _ := json.MarshalIndent(rn.cs, "", " ")
	rn.c.Violation(sig, detail, map[string][]byte{"case.json": b})
}

func (rn *run) giveUp(why string) {
	if rn.abort.CompareAndSwap(false, true) {
		rn.why.Store(why)
		if os.Getenv("VERIF_C04_DEBUG") != "" {
			buf := make([]byte, 1<<20)
			buf = buf[:runtime.Stack(buf, true)]
			os.WriteFile("/var/tmp/c04-stacks-"+rn.cs.Name+".txt", buf, 0o644)
		}
	}
}

func (rn *run) open() error {
	st, err := store.Open(rn.dir, rn.cs.options())
	if err != nil {
		return err
	}
	rn.st = st
	multi, _ := layout(rn.cs.Layout)
	if multi {
		for _, s := range rn.specs {
			if err := st.InitIndexing(s.storeSpec()); err != nil {
				return fmt.Errorf("InitIndexing%s: %w", s, err)
			}
		}
	}
	return nil
}

// ---- workload ----

var written = []string{"a/", "r/", "z/"}

func (rn *run) genKey(r *rand.Rand, g int) []byte {
	p := written[r.IntN(len(written))]
	if r.IntN(3) == 0 {
		p = "r/"
	}
	// keys below "r/" are mapped to keys up to two bytes longer
	max := rn.cs.MaxKeyLen
	if p == "r/" {
		max -= 2
	}
	switch r.IntN(10) {
	case 0, 1, 2, 3, 4:
		return []byte(fmt.Sprintf("%sk%d", p, r.IntN(10)))
	case 5, 6:
		// long shared prefix
		return []byte(p + strings.Repeat("p", 24) + fmt.Sprint(r.IntN(6)))
	case 7:
		// keys of maximal length
		k := p + fmt.Sprint(r.IntN(4))
		return []byte(k + strings.Repeat("m", max-len(k)))
	case 8:
		return []byte(fmt.Sprintf("%su%d-%d", p, g, rn.keySeq.Add(1)))
	}
	return []byte(fmt.Sprintf("%sk%d%c", p, r.IntN(10), 'a'+r.IntN(3)))
}

func genValue(r *rand.Rand) []byte {
	n := []int{0, 1, 3, 20, 100, maxValueLen}[r.IntN(6)]
	b := make([]byte, n)
	for i := range b {
		b[i] = byte(r.IntN(256))
	}
	if n > 0 {
		b[0] = byte(r.IntN(6))
	}
	return b
}

func genMD(r *rand.Rand) int {
	switch x := r.IntN(100); {
	case x < 68:
		return mdNone
	case x < 77:
		return mdDeleted
	case x < 83:
		return mdExp2001
	case x < 90:
		return mdExp2100
	case x < 95:
		return mdNonIdx
	}
	return mdExp2100Del
}

type genEntry struct {
	key, value []byte
	kind       int
}

func (rn *run) genTx(r *rand.Rand, g int) []genEntry {
	n := 1 + r.IntN(2)
	switch r.IntN(8) {
	case 0:
		n = rn.cs.MaxTxEntries
	case 1, 2:
		n = 1 + r.IntN(rn.cs.MaxTxEntries)
	}
	seen := map[string]bool{}
	var es []genEntry
	for tries := 0; len(es) < n && tries < 4*n+8; tries++ {
		k := rn.genKey(r, g)
		if seen[string(k)] {
			continue
		}
		seen[string(k)] = true
		es = append(es, genEntry{k, genValue(r), genMD(r)})
	}
	return es
}

func (rn *run) writer(round, g int, left *atomic.Int64, wg *sync.WaitGroup) {
	defer wg.Done()
	r := rn.rand(fmt.Sprintf("round%d/writer%d", round, g))
	for left.Add(-1) >= 0 && !rn.abort.Load() {
		es := rn.genTx(r, g)
		ctx, cancel := context.WithTimeout(context.Background(), opTimeout)
		tx, err := rn.st.NewWriteOnlyTx(ctx)
		if err != nil {
			cancel()
			rn.giveUp("NewWriteOnlyTx: " + err.Error())
			return
		}
		les := make([]ledger.Entry, len(es))
		for i, e := range es {
			if err = tx.Set(e.key, buildMD(e.kind), e.value); err != nil {
				break
			}
			les[i] = ledger.Entry{Key: e.key, Value: e.value, MD: mdRaw[e.kind]}
		}
		if err != nil {
			tx.Cancel()
			cancel()
			rn.giveUp("Set: " + err.Error())
			return
		}
		var hdr *store.TxHeader
		if r.IntN(4) == 0 {
			hdr, err = tx.Commit(ctx)
		} else {
			hdr, err = tx.AsyncCommit(ctx)
		}
		timedOut := errors.Is(ctx.Err(), context.DeadlineExceeded)
		cancel()
		if hdr != nil {
			if e := rn.led.Ack(hdr, les); e != nil {
				rn.giveUp("ledger: " + e.Error())
				return
			}
			rn.mu.Lock()
			for _, e := range es {
				for i, tk := range targetsOf(rn.specs, e.key, e.value, e.kind) {
					if tk != nil {
						rn.recent = append(rn.recent, recent{hdr.ID, i, tk})
					}
				}
			}
			if len(rn.recent) > 64 {
				rn.recent = rn.recent[len(rn.recent)-64:]
			}
			rn.mu.Unlock()
		}
		if err != nil {
			rn.c.Count("commit_errors", 1)
			if timedOut {
				rn.giveUp(fmt.Sprintf("a commit did not return within %v", opTimeout))
				return
			} else if hdr == nil {
				// whether the tx exists is unknown to the harness: the model cannot be built beyond this point
				rn.giveUp("commit failed: " + err.Error())
				return
			}
		}
	}
}

func (rn *run) maintenance(round int, maint string, stop chan struct{}, wg *sync.WaitGroup) {
	defer wg.Done()
	r := rn.rand(fmt.Sprintf("round%d/maint", round))
	for {
		select {
		case <-stop:
			return
		default:
		}
		op := maint
		if maint == "mixed" {
			op = []string{"flush", "compact", "snapshots"}[r.IntN(3)]
		}
		var err error
		switch op {
		case "flush":
			err = rn.st.FlushIndexes(float32([]int{0, 10, 100}[r.IntN(3)]), r.IntN(2) == 0)
		case "compact":
			// a tree is compacted only when it has synced snapshots
			if err = rn.st.FlushIndexes(float32([]int{0, 10}[r.IntN(2)]), true); err == nil {
				if err = rn.st.CompactIndexes(); err == nil {
					rn.compacted.Store(true)
				}
			}
		case "snapshots":
			ix := rn.w.idx[r.IntN(len(rn.w.idx))]
			var s *store.Snapshot
			if s, err = rn.st.Snapshot([]byte(ix.spec.Tgt)); err == nil {
				time.Sleep(time.Duration(r.IntN(500)) * time.Microsecond)
				s.Close()
			}
		}
		if op != "none" {
			rn.c.Count("maintenance_"+op, 1)
			if err != nil {
				e := err.Error()
				if len(e) > 60 {
					e = e[:60]
				}
				rn.c.Count("maintenance_"+op+"_error: "+e, 1)
			}
		}
		time.Sleep(time.Duration(r.IntN(1500)) * time.Microsecond)
		if op == "compact" {
			// indexers queue behind the compaction lock when they stall on the buffered-data limit: leave them room
			time.Sleep(time.Duration(10+r.IntN(30)) * time.Millisecond)
		}
	}
}

// reader issues reads while writers run; what it saw is judged after the round, when the model is complete.
func (rn *run) reader(round, g int, maint string, stop chan struct{}, wg *sync.WaitGroup) {
	defer wg.Done()
	r := rn.rand(fmt.Sprintf("round%d/reader%d", round, g))
	count := 0
	for count < 150 {
		select {
		case <-stop:
			return
		default:
		}
		rn.mu.Lock()
		var rc recent
		if len(rn.recent) > 0 {
			// mostly the newest acknowledged tx: its keys are the ones a receding index would miss
			rc = rn.recent[len(rn.recent)-1-r.IntN(min(len(rn.recent), 1+r.IntN(16)))]
		}
		rn.mu.Unlock()
		if rc.key == nil {
			time.Sleep(200 * time.Microsecond)
			continue
		}
		ctx, cancel := context.WithTimeout(context.Background(), opTimeout)
		err := rn.st.WaitForIndexingUpto(ctx, rc.id)
		timedOut := errors.Is(ctx.Err(), context.DeadlineExceeded)
		cancel()
		if err != nil {
			if timedOut {
				rn.giveUp(fmt.Sprintf("WaitForIndexingUpto(%d) did not return within %v while writers were running", rc.id, opTimeout))
				return
			}
			rn.c.Count("concurrent_wait_errors", 1)
			continue
		}
		o := obs{idx: rc.idx, key: rc.key, lo: rc.id, maint: maint}
		ix := rn.w.idx[rc.idx]
		switch r.IntN(6) {
		case 0, 1, 2:
			o.op = "Get"
			ref, err := rn.st.Get(context.Background(), rc.key)
			o.got = gotRef(rc.key, ref, err)
		case 3:
			o.op = "History"
			refs, hc, err := rn.st.History(rc.key, 0, false, 1<<20)
			o.got = gotHistory(rc.key, refs, hc, err)
		case 4:
			o.op = "GetWithPrefix"
			o.key = rc.key[:len(ix.spec.Tgt)+r.IntN(len(rc.key)-len(ix.spec.Tgt)+1)]
			if len(o.key) == 0 {
				o.key = rc.key
			}
			gk, ref, err := rn.st.GetWithPrefix(context.Background(), o.key, nil)
			o.got = gotRef(gk, ref, err)
		case 5:
			o.op = "SnapshotMustIncludeTxID+KeyReader"
			ctx, cancel := context.WithTimeout(context.Background(), opTimeout)
			snap, err := rn.st.SnapshotMustIncludeTxID(ctx, []byte(ix.spec.Tgt), rc.id)
			cancel()
			if err != nil {
				rn.c.Count("concurrent_snapshot_errors", 1)
				if strings.Contains(err.Error(), "greater than current ts") {
					// WaitForIndexingUpto(id) had returned, and the index then reported a smaller ts
					rn.c.Count("snapshot_ts_greater_than_current_ts", 1)
					rn.c.Distinct(fmt.Sprintf("%s/%s/%s/SnapshotMustIncludeTxID/error-ts-greater-than-current-ts", ix.spec.kind(), rn.bulkClass(), maint))
				}
				continue
			}
			o.snapTs = snap.Ts()
			o.q = readerSpec{ignoreDeleted: true, ignoreExpired: true}
			o.q.rs.Prefix = rc.key[:len(ix.spec.Tgt)+r.IntN(3)]
			o.q.rs.Desc = r.IntN(2) == 0
			o.got = runReader(snap, o.q, 1<<20)
			snap.Close()
		}
		o.hi = rn.st.LastCommittedTxID()
		if strings.HasPrefix(o.got.cls, "other:") {
			// an error is not a wrong answer
			rn.c.Count("concurrent_read_errors", 1)
			rn.c.Note(fmt.Sprintf("[%s] concurrent %s(%q): %s", rn.cs.Name, o.op, o.key, o.got.cls))
			continue
		}
		rn.mu.Lock()
		rn.obs = append(rn.obs, o)
		rn.mu.Unlock()
		count++
	}
}

func (rn *run) concurrentPhase(round int, maint string) {
	var wg, bg sync.WaitGroup
	var left atomic.Int64
	left.Store(int64(rn.cs.TxsPerRound))
	stop := make(chan struct{})
	bg.Add(1)
	go rn.maintenance(round, maint, stop, &bg)
	for g := 0; g < 2; g++ {
		bg.Add(1)
		go rn.reader(round, g, maint, stop, &bg)
	}
	for g := 0; g < rn.cs.Writers; g++ {
		wg.Add(1)
		go rn.writer(round, g, &left, &wg)
	}
	wg.Wait()
	close(stop)
	bg.Wait()
}

// quiesce waits for every index to catch up with the committed frontier and replays the ledger into the model.
func (rn *run) quiesce(maint string) (uint64, bool) {
	n := rn.st.LastCommittedTxID()
	ctx, cancel := context.WithTimeout(context.Background(), opTimeout)
	err := rn.st.WaitForIndexingUpto(ctx, n)
	cancel()
	if err != nil {
		rn.giveUp(fmt.Sprintf("WaitForIndexingUpto(%d) in an idle store: %v", n, err))
		return n, false
	}
	for id := rn.w.applied + 1; id <= n; id++ {
		rec := rn.led.Get(id)
		if rec == nil {
			rn.giveUp(fmt.Sprintf("tx %d is committed but was never acknowledged to the harness: the model stops at %d", id, rn.w.applied))
			return n, false
		}
		if err := rn.w.apply(rec); err != nil {
			rn.giveUp("model: " + err.Error())
			return n, false
		}
	}
	if rn.led.Max() > n {
		rn.viol("ack/beyond-committed-frontier", fmt.Sprintf("[%s] tx %d was acknowledged but the committed frontier is %d", rn.cs, rn.led.Max(), n))
	}
	rn.freshness(maint, n)
	return n, true
}

// freshness probes, right after WaitForIndexingUpto(n) returned in an idle store, the keys written by the
// newest transactions of every index. An answer that equals the log as of an earlier tx is a stale read
// (the index is behind n although indexing was reported to have caught up). The probe is repeated, a
// bounded number of times, until the answers are current, so that the full comparison that follows
// describes the index and not the same lag over and over.
func (rn *run) freshness(maint string, n uint64) {
	for _, ix := range rn.w.idx {
		if ix.contentBad {
			continue
		}
		view := ix.m.At(n)
		// keys whose newest version is the most recent
		type kt struct {
			k  []byte
			ts uint64
		}
		var newest []kt
		for _, k := range view.Keys() {
			v, _, _ := view.Get(k)
			newest = append(newest, kt{k, v.Ts})
		}
		sort.Slice(newest, func(i, j int) bool { return newest[i].ts > newest[j].ts })
		if len(newest) > 6 {
			newest = newest[:6]
		}
		// a stale answer is reported only if the answers become current afterwards (a lag); answers that
		// never become current are a difference of content, which the comparison that follows diagnoses
		var pendingSig, pendingDetail string
		for attempt := 0; attempt < 3000; attempt++ {
			behind := false
			for _, x := range newest {
				ref, err := rn.st.GetWithFilters(context.Background(), x.k, noFilters...)
				got := gotRef(x.k, ref, err)
				rn.c.Eval(1)
				d := diff(got, expectGet(view, x.k, true))
				if d == "" {
					continue
				}
				behind = true
				if pendingSig != "" {
					break
				}
				for t := n; t > 0 && n-t < 300; t-- {
					if diff(got, expectGet(ix.m.At(t-1), x.k, true)) == "" {
						pendingSig = "index/" + maint + "/stale-read-after-wait"
						if rn.compacted.Load() {
							pendingSig = "index/compaction/ts-recedes-stale-read"
						}
						pendingDetail = fmt.Sprintf("[%s] index %s, idle store, maintenance during the round: %s: WaitForIndexingUpto(%d) returned, then GetWithFilters(%q) answered with the state of the log as of tx %d (%s): a stale read",
							rn.cs, ix.spec, maint, n, x.k, t-1, d)
						break
					}
				}
				break
			}
			if !behind {
				if pendingSig != "" {
					rn.c.Distinct(fmt.Sprintf("%s/%s/%s/freshness-probe/stale", ix.spec.kind(), rn.bulkClass(), maint))
					rn.viol(pendingSig, pendingDetail+fmt.Sprintf("; the answers became current %d probes later", attempt))
				}
				break
			}
			time.Sleep(5 * time.Millisecond)
		}
	}
}

func (rn *run) compareAll(label, maint string, n uint64, budget int) {
	for _, ix := range rn.w.idx {
		rn.compareIndex(ix, label, maint, n, budget)
	}
	// keys that no index covers are not found
	multi, _ := layout(rn.cs.Layout)
	if multi {
		r := rn.rand("uncovered/" + label)
		for i := 0; i < 6; i++ {
			k := []byte(fmt.Sprintf("z/k%d", r.IntN(10)))
			if rn.w.indexFor(k) != nil {
				continue
			}
			_, err := rn.st.Get(context.Background(), k)
			rn.c.Eval(1)
			if c := errClass(err); c != "not-found" {
				rn.viol("read/Get/key-outside-every-index/"+c, fmt.Sprintf("[%s] Get(%q): %v", rn.cs, k, err))
			}
		}
	}
}

// expectation of a concurrent observation at instant t
func (rn *run) expectObs(o obs, t uint64) out {
	v := rn.w.idx[o.idx].m.At(t)
	switch o.op {
	case "Get":
		return expectGet(v, o.key, false)
	case "History":
		return expectHistory(v, o.key, 0, false, 1<<20)
	case "GetWithPrefix":
		return expectGetWithPrefix(v, o.key, nil)
	}
	return expectReader(v, o.q)
}

func (rn *run) evalConcurrent() {
	rn.mu.Lock()
	all := rn.obs
	rn.obs = nil
	rn.mu.Unlock()
	for _, o := range all {
		ix := rn.w.idx[o.idx]
		if ix.contentBad {
			rn.c.Count("concurrent_reads_not_judged_index_content_differs", 1)
			continue
		}
		if o.hi > rn.w.applied {
			o.hi = rn.w.applied
		}
		rn.c.Eval(1)
		kind := "live"
		ok := false
		var firstDiff string
		if o.snapTs > 0 || o.op == "SnapshotMustIncludeTxID+KeyReader" {
			kind = "snapshot"
			if o.snapTs < o.lo {
				rn.viol("read/SnapshotMustIncludeTxID/older-than-requested/during-"+o.maint,
					fmt.Sprintf("[%s] index %s: SnapshotMustIncludeTxID(%d) returned a snapshot at ts %d", rn.cs, ix.spec, o.lo, o.snapTs))
				continue
			}
			firstDiff = diff(o.got, rn.expectObs(o, o.snapTs))
			ok = firstDiff == ""
		} else {
			for t := o.lo; t <= o.hi && !ok; t++ {
				d := diff(o.got, rn.expectObs(o, t))
				if d == "" {
					ok = true
				} else if firstDiff == "" {
					firstDiff = d
				}
			}
		}
		rn.c.Distinct(fmt.Sprintf("%s/%s/%s/concurrent-%s/%s/%s", ix.spec.kind(), rn.bulkClass(), o.maint, kind, o.op, o.got.cls))
		if ok {
			continue
		}
		// does it equal an instant before the tx whose indexing had been waited for?
		stale, isStale := uint64(0), false
		for t := o.lo; t > 0 && o.lo-t < 300 && !isStale; t-- {
			if diff(o.got, rn.expectObs(o, t-1)) == "" {
				stale, isStale = t-1, true
			}
		}
		detail := fmt.Sprintf("[%s] index %s, %s(%q) issued after WaitForIndexingUpto(%d) returned, committed frontier after the call %d, maintenance running: %s: the answer equals the log at no instant in [%d,%d] (at %d: %s)",
			rn.cs, ix.spec, o.op, o.key, o.lo, o.hi, o.maint, o.lo, o.hi, o.lo, firstDiff)
		switch {
		case kind == "snapshot" && rn.compacted.Load():
			rn.viol("index/compaction-restart/entries-lost", detail+fmt.Sprintf("; snapshot ts %d", o.snapTs))
		case kind == "snapshot":
			rn.viol("read/SnapshotMustIncludeTxID+KeyReader/differs-from-log-at-snapshot-ts/during-"+o.maint, detail+fmt.Sprintf("; snapshot ts %d", o.snapTs))
		case isStale:
			sig := "index/" + o.maint + "/stale-read-after-wait"
			if rn.compacted.Load() {
				sig = "index/compaction/ts-recedes-stale-read"
			}
			rn.viol(sig, detail+fmt.Sprintf("; it equals the log as of tx %d: a stale read", stale))
		case rn.compacted.Load():
			// e.g. a key showing only its newest version while older ones are still being re-indexed
			rn.viol("index/compaction-restart/entries-lost", detail)
		default:
			rn.viol("read/concurrent-"+o.op+"/matches-no-instant/during-"+o.maint, detail)
		}
	}
}

func runCase(c *fw.Ctx, cs caseSpec) {
	_, specs := layout(cs.Layout)
	rn := &run{c: c, cs: cs, specs: specs, dir: c.Dir("c04-" + cs.Name), led: ledger.New(), w: newWorld(specs)}
	defer os.RemoveAll(rn.dir)
	if err := rn.open(); err != nil {
		c.Inconclusive(fmt.Sprintf("[%s] open: %v", cs, err))
		return
	}
	closed := false
	defer func() {
		if !closed {
			rn.st.Close()
		}
	}()
	reopens := 0
	for round := 0; round < cs.Rounds && !rn.abort.Load(); round++ {
		maint := maintOps[(cs.MaintBase+round)%len(maintOps)]
		if !cs.Compaction {
			maint = quietOps[(cs.MaintBase+round)%len(quietOps)]
		}
		rn.concurrentPhase(round, maint)
		if rn.abort.Load() {
			break
		}
		if round%3 == 1 {
			// close while the indexer may still be behind: indexing resumes after the reopen
			if !rn.reopen() {
				closed = true
				break
			}
			reopens++
		}
		n, ok := rn.quiesce(maint)
		if !ok {
			break
		}
		label := fmt.Sprintf("round%d", round)
		if round%3 == 1 {
			label += "-reopened-lagging"
		}
		rn.compareAll(label, maint, n, cs.Probes)
		rn.evalConcurrent()
		// quiescent maintenance followed by the same comparison on a smaller budget
		var err error
		switch round % 3 {
		case 0:
			if !cs.Compaction {
				err = rn.st.FlushIndexes(10, false)
				label, maint = label+"+quiescent-flush", "flush"
				break
			}
			if err = rn.st.FlushIndexes(0, true); err == nil {
				if err = rn.st.CompactIndexes(); err == nil {
					rn.compacted.Store(true)
				}
			}
			label, maint = label+"+quiescent-compact", "compact"
		case 2:
			err = rn.st.FlushIndexes(100, true)
			label, maint = label+"+quiescent-flush", "flush"
		}
		if err != nil {
			c.Count("quiescent_maintenance_errors", 1)
		}
		if round%3 != 1 {
			if n, ok = rn.quiesce(maint); !ok {
				break
			}
			rn.compareAll(label, maint, n, cs.Probes/4)
		}
		if round%2 == 0 && round < cs.Rounds-1 {
			if !rn.reopen() {
				closed = true
				break
			}
			reopens++
			if n, ok = rn.quiesce(maint); !ok {
				break
			}
			rn.compareAll(label+"+reopen", maint, n, cs.Probes/4)
		}
	}
	if !closed {
		closed = true
		if err := rn.st.Close(); err != nil && !errors.Is(err, store.ErrAlreadyClosed) {
			c.Count("close_errors", 1)
		}
	}
	if rn.abort.Load() {
		why, _ := rn.why.Load().(string)
		c.Inconclusive(fmt.Sprintf("[%s] case abandoned: %s", cs, why))
		if os.Getenv("VERIF_C04_DEBUG") != "" {
			if f, err := os.OpenFile("/var/tmp/c04-debug.log", os.O_APPEND|os.O_CREATE|os.O_WRONLY, 0o644); err == nil {
				fmt.Fprintf(f, "[%s] abandoned: %s\n", cs, why)
				f.Close()
			}
		}
	}
	keys, versions := 0, 0
	for _, ix := range rn.w.idx {
		keys += ix.m.Len()
		versions += ix.m.Versions()
	}
	c.Count("txs_acknowledged", int64(rn.led.Len()))
	c.Count("reopens", int64(reopens))
	c.Sample(map[string]any{"config": cs.String(), "indexes": len(specs), "txs": rn.led.Len(), "index_keys": keys, "index_versions": versions})
}

// reopen closes the store and opens it again (false: the case cannot go on).
func (rn *run) reopen() bool {
	if err := rn.st.Close(); err != nil {
		rn.viol("close/error", fmt.Sprintf("[%s] Close: %v", rn.cs, err))
	}
	if err := rn.open(); err != nil {
		rn.viol("reopen/failed", fmt.Sprintf("[%s] the store does not reopen after a clean close: %v", rn.cs, err))
		return false
	}
	return true
}

func init() {
	fw.RegisterIsolated("c04-config", func(c *fw.Ctx, data []byte) {
		var cs caseSpec
		if err := json.Unmarshal(data, &cs); err != nil {
			c.Inconclusive("bad case: " + err.Error())
			return
		}
		if err := kvmodel.SelfCheck(); err != nil {
			c.Inconclusive(err.Error())
			return
		}
		h := hook.Install(&hook.Config{Seed: c.Seed + int64(cs.Layout)*131, Perturb: 0.3, MaxSleep: 300 * time.Microsecond,
			Sites: map[string]bool{"indexer.indexSince.afterReadTx": true, "indexer.indexSince.beforeInsert": true, "tbtree.flushTree": true, "store.commit.beforeWait": true}})
		defer hook.Uninstall()
		runCase(c, cs)
		hm := map[string]uint64{}
		for k, v := range h.Hits() {
			if strings.HasPrefix(k, "indexer.") || strings.HasPrefix(k, "note:indexer.") || strings.HasPrefix(k, "tbtree.") {
				hm[k] = v
			}
		}
		c.Set("hook_site_hits", hm)
		if h.Hits()["indexer.indexSince.afterReadTx"] == 0 && c.Counter("txs_acknowledged") > 0 {
			c.Inconclusive("hook sites never reached: was the harness built with -tags verif?")
		}
	})
}

func Run(c *fw.Ctx) {
	c.Rule = "PRNG index configurations (layout of 1-4 indexes × MaxBulkSize{1,2,3,8,64} × flush/sync thresholds, node size, cache, buffered-data limits, adaptive bulk) each run in its own process: rounds of 1-8 concurrent writers with one maintenance operation interleaved (none, flush, compact, snapshots, mixed) and hook-point perturbation of the indexer, then WaitForIndexingUpto(n) and comparison of Get, GetWithFilters, GetBetween, GetWithPrefix, History, snapshot reads and key readers over PRNG specs with one kvmodel per index replayed from the acknowledged commits (same mapper functions), also after quiescent compaction/flush and close/reopen; reads issued while writers ran must equal the model at some instant between the tx waited for and the committed frontier. An evaluation is one read compared; distinct = (index kind × bulk size × maintenance operation × reader shape × expected outcome class) observed"
	c.Assume("the ledger of acknowledged commits is the committed log (every tx id up to the frontier was acknowledged to the harness, else the case is inconclusive)")
	c.Assume("within one tx no two entries map to the same target key of an index (the generator guarantees it)")
	c.Assume("GetWithPrefix answers for the smallest indexed key carrying the prefix (greater than neq); filters apply to that key only, as coded; neq is empty, the prefix or below it")
	c.Assume("an injective index logically deletes the target key computed from the previous version of the source key when an update moves the entry (the delete marker repeats the previous value and metadata plus the deleted flag)")
	c.Assume("expiry uses 2001-01-01 (expired) and 2100-01-01 (not expired) only")
	r := c.Rand("c04/configs")
	nconf := c.N(10, 150)
	var cases [][]byte
	for i := 0; i < nconf; i++ {
		cs := genCase(r, i)
		cs.Name = fmt.Sprintf("cfg%d", i)
		cs.Rounds = c.N(3, 4)
		cs.TxsPerRound = c.N(100, 250)
		cs.Probes = c.N(300, 400)
		if only := os.Getenv("VERIF_C04_ONLY"); only != "" && only != cs.Name {
			continue // development aid: run a single configuration
		}
		b, _ := json.Marshal(cs)
		cases = append(cases, b)
	}
	c.RunIsolated("c04-config", cases, fw.CasesOpts{Workers: c.N(10, 14), CaseTimout: 10 * time.Minute})
}

func layoutSpecs(i int) []idxSpec { _, s := layout(i); return s }
