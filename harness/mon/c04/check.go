package c04

import (
	"bytes"
	"context"
	"errors"
	"fmt"
	"math/rand/v2"
	"sort"
	"strings"
	"time"

	"github.com/codenotary/immudb/embedded/store"

	"verifharness/internal/kvmodel"
	"verifharness/internal/ledger"
)

// ---- what the store returned, in canonical form ----

func errClass(err error) string {
	switch {
	case err == nil:
		return "ok"
	case errors.Is(err, store.ErrExpiredEntry):
		return "expired"
	case errors.Is(err, store.ErrKeyNotFound):
		return "not-found"
	case errors.Is(err, store.ErrNoMoreEntries):
		return "no-more"
	case errors.Is(err, store.ErrOffsetOutOfRange):
		return "offset-out-of-range"
	case errors.Is(err, store.ErrIllegalArguments):
		return "illegal-arguments"
	}
	return "other:" + err.Error()
}

func gotItem(key []byte, ref store.ValueRef) item {
	it := item{key: string(key), tx: ref.Tx(), hc: ref.HC(), md: string(ledger.MDBytes(ref.KVMetadata())), vlen: int(ref.Len()), hval: ref.HVal()}
	val, err := ref.Resolve()
	switch {
	case err == nil:
		it.res, it.val = "v", string(val)
	case errors.Is(err, store.ErrExpiredEntry):
		it.res = "expired"
	default:
		it.res = "err:" + err.Error()
	}
	return it
}

func gotRef(key []byte, ref store.ValueRef, err error) out {
	if err != nil {
		return out{cls: errClass(err)}
	}
	return out{cls: "ok", items: []item{gotItem(key, ref)}}
}

func gotHistory(key []byte, refs []store.ValueRef, hc uint64, err error) out {
	if err != nil {
		return out{cls: errClass(err)}
	}
	o := out{cls: "ok", hc: hc}
	for _, r := range refs {
		o.items = append(o.items, gotItem(key, r))
	}
	return o
}

var noFilters = []store.FilterFn{}

func (q readerSpec) storeSpec() store.KeyReaderSpec {
	sp := store.KeyReaderSpec{SeekKey: q.rs.SeekKey, EndKey: q.rs.EndKey, Prefix: q.rs.Prefix, InclusiveSeek: q.rs.InclusiveSeek,
		InclusiveEnd: q.rs.InclusiveEnd, DescOrder: q.rs.Desc, Offset: q.rs.Offset, IncludeHistory: q.history}
	if q.ignoreDeleted {
		sp.Filters = append(sp.Filters, store.IgnoreDeleted)
	}
	if q.ignoreExpired {
		sp.Filters = append(sp.Filters, store.IgnoreExpired)
	}
	return sp
}

// runReader reads a key reader to its end (at most max entries).
func runReader(snap *store.Snapshot, q readerSpec, max int) out {
	rd, err := snap.NewKeyReader(q.storeSpec())
	if err != nil {
		return out{cls: errClass(err)}
	}
	defer rd.Close()
	o := out{cls: "ok"}
	for len(o.items) <= max {
		var k []byte
		var ref store.ValueRef
		if q.between {
			k, ref, err = rd.ReadBetween(context.Background(), q.a, q.b)
		} else {
			k, ref, err = rd.Read(context.Background())
		}
		if errors.Is(err, store.ErrNoMoreEntries) {
			return o
		}
		if err != nil {
			o.cls = errClass(err)
			return o
		}
		o.items = append(o.items, gotItem(k, ref))
	}
	return o
}

// ---- discrepancies of one index at one comparison point ----

type disc struct {
	op, cls, detail string
}

type cmpCtx struct {
	rn    *run
	ix    *index
	label string // quiescent point
	maint string
	discs []disc
}

func (cc *cmpCtx) check(op, shape string, got, want out, args string) {
	cc.rn.c.Eval(1)
	d := diff(got, want)
	oc := want.cls
	if oc == "ok" && len(want.items) == 0 {
		oc = "empty"
	}
	cc.rn.c.Distinct(fmt.Sprintf("%s/%s/%s/%s/%s", cc.ix.spec.kind(), cc.rn.bulkClass(), cc.maint, shape, oc))
	if d != "" {
		if len(cc.discs) < 400 {
			cc.discs = append(cc.discs, disc{op, diffClass(d), fmt.Sprintf("%s(%s): %s", op, args, d)})
		}
	}
}

func keyShape(v kvmodel.View, k []byte) string {
	if len(k) == 0 {
		return "-"
	}
	if _, _, ok := v.Get(k); ok {
		return "k"
	}
	return "x"
}

// variants of a key that are (mostly) absent: neighbours, extensions, truncations
func neighbour(r *rand.Rand, k []byte, maxLen int) []byte {
	k = append([]byte(nil), k...)
	switch r.IntN(4) {
	case 0:
		if len(k) < maxLen {
			return append(k, 0)
		}
	case 1:
		if len(k) > 3 {
			return k[:len(k)-1]
		}
	case 2:
		k[len(k)-1] ^= byte(1 + r.IntN(3))
		return k
	}
	k[len(k)-1]++
	return k
}

func (rn *run) genReaderSpec(r *rand.Rand, ix *index, v kvmodel.View, keys [][]byte, top uint64) (readerSpec, string) {
	var q readerSpec
	pick := func() []byte {
		if len(keys) == 0 {
			return []byte(ix.spec.Tgt + "k")
		}
		k := keys[r.IntN(len(keys))]
		switch r.IntN(6) {
		case 0:
			return neighbour(r, k, rn.cs.MaxKeyLen)
		case 1:
			return append([]byte(nil), k[:1+r.IntN(len(k))]...)
		}
		return k
	}
	if r.IntN(10) < 6 {
		q.rs.SeekKey = pick()
	}
	if r.IntN(10) < 5 {
		q.rs.EndKey = pick()
	}
	q.rs.Desc = r.IntN(2) == 0
	if len(q.rs.SeekKey) > 0 && len(q.rs.EndKey) > 0 && r.IntN(4) > 0 {
		// make the window non-empty more often than not
		c := bytes.Compare(q.rs.SeekKey, q.rs.EndKey)
		if (c > 0) != q.rs.Desc {
			q.rs.SeekKey, q.rs.EndKey = q.rs.EndKey, q.rs.SeekKey
		}
	}
	if r.IntN(10) < 4 {
		p := pick()
		q.rs.Prefix = p[:1+r.IntN(len(p))]
		if r.IntN(3) == 0 && len(ix.spec.Tgt) > 0 {
			q.rs.Prefix = []byte(ix.spec.Tgt)
		}
	}
	q.rs.InclusiveSeek = r.IntN(2) == 0
	q.rs.InclusiveEnd = r.IntN(2) == 0
	if r.IntN(10) < 3 {
		q.rs.Offset = uint64(1 + r.IntN(4))
	}
	q.ignoreDeleted = r.IntN(2) == 0
	q.ignoreExpired = r.IntN(2) == 0
	mode := "read"
	switch r.IntN(8) {
	case 0:
		q.history, mode = true, "history"
	case 1, 2:
		q.between, mode = true, "between"
		q.a, q.b = tsRange(r, top)
	}
	off := "0"
	if q.rs.Offset > 0 {
		off = "+"
	}
	f := ""
	if q.ignoreDeleted {
		f += "D"
	}
	if q.ignoreExpired {
		f += "E"
	}
	shape := fmt.Sprintf("KeyReader.%s/seek=%s%v/end=%s%v/pfx=%v/desc=%v/off=%s/filters=%s", mode,
		keyShape(v, q.rs.SeekKey), q.rs.InclusiveSeek, keyShape(v, q.rs.EndKey), q.rs.InclusiveEnd, len(q.rs.Prefix) > 0, q.rs.Desc, off, f)
	return q, shape
}

// a transaction range a <= b with b >= 1 (GetBetween refuses a > b), or (0,0) = unbounded
func tsRange(r *rand.Rand, top uint64) (uint64, uint64) {
	if top == 0 || r.IntN(10) == 0 {
		return 0, 0
	}
	a := r.Uint64N(top + 1)
	b := 1 + r.Uint64N(top+2)
	if a > b {
		a, b = b, a
	}
	if r.IntN(6) == 0 {
		a = b
	}
	return a, b
}

const opTimeout = 60 * time.Second

// compareIndex is the quiescent comparison of one index against its model (store idle, indexing caught up with n).
func (rn *run) compareIndex(ix *index, label, maint string, n uint64, budget int) {
	cc := &cmpCtx{rn: rn, ix: ix, label: label, maint: maint}
	st := rn.st
	ctx := context.Background()
	r := rn.rand("compare/" + label + fmt.Sprint(ix.n))
	view := ix.m.Now()
	keys := view.Keys()

	// every key ever written (a PRNG sample of 400 once there are more): lookup, raw lookup, full history
	every := keys
	if len(every) > 400 {
		every = make([][]byte, 400)
		for i, j := range r.Perm(len(keys))[:400] {
			every[i] = keys[j]
		}
	}
	for _, k := range every {
		ref, err := st.Get(ctx, k)
		cc.check("Get", "Get", gotRef(k, ref, err), expectGet(view, k, false), fmt.Sprintf("%q", k))
		ref, err = st.GetWithFilters(ctx, k, noFilters...)
		cc.check("GetWithFilters", "GetWithFilters()", gotRef(k, ref, err), expectGet(view, k, true), fmt.Sprintf("%q", k))
		desc := r.IntN(2) == 0
		refs, hc, err := st.History(k, 0, desc, 1<<20)
		cc.check("History", fmt.Sprintf("History/full/desc=%v", desc), gotHistory(k, refs, hc, err), expectHistory(view, k, 0, desc, 1<<20), fmt.Sprintf("%q,0,%v,all", k, desc))
	}
	if len(keys) == 0 {
		keys = append(keys, []byte(ix.spec.Tgt+"nothing"))
	}
	// PRNG probes: existing keys, neighbours, absent keys
	for i := 0; i < budget; i++ {
		k := keys[r.IntN(len(keys))]
		if r.IntN(4) == 0 {
			k = neighbour(r, k, rn.cs.MaxKeyLen)
			if rn.w.indexFor(k) != ix {
				continue
			}
		}
		ks := keyShape(view, k)
		switch r.IntN(5) {
		case 0:
			ref, err := st.Get(ctx, k)
			cc.check("Get", "Get/probe="+ks, gotRef(k, ref, err), expectGet(view, k, false), fmt.Sprintf("%q", k))
		case 1:
			_, cnt, _ := view.Get(k)
			off := uint64(r.IntN(int(cnt) + 3))
			if r.IntN(3) == 0 {
				off = 0
			}
			desc := r.IntN(2) == 0
			limit := []int{1, 1, 2, 3, 5, 100}[r.IntN(6)]
			refs, hc, err := st.History(k, off, desc, limit)
			oshape := "0"
			switch {
			case off > cnt:
				oshape = ">n"
			case off == cnt:
				oshape = "=n"
			case off > 0:
				oshape = "+"
			}
			cc.check("History", fmt.Sprintf("History/key=%s/off=%s/desc=%v/limit=%d", ks, oshape, desc, limit), gotHistory(k, refs, hc, err),
				expectHistory(view, k, off, desc, limit), fmt.Sprintf("%q,%d,%v,%d", k, off, desc, limit))
		case 2, 3:
			a, b := tsRange(r, n)
			ref, err := st.GetBetween(ctx, k, a, b)
			cc.check("GetBetween", "GetBetween/key="+ks, gotRef(k, ref, err), expectGetBetween(view, k, a, b), fmt.Sprintf("%q,%d,%d", k, a, b))
		case 4:
			// prefix lookups: a prefix of the key that still routes to this index; neq none, the prefix, or below it
			p := k[:len(ix.spec.Tgt)+r.IntN(len(k)-len(ix.spec.Tgt)+1)]
			var neq []byte
			nshape := "-"
			switch r.IntN(4) {
			case 0:
				neq, nshape = p, "=prefix"
			case 1:
				if len(p) > 1 {
					neq, nshape = p[:len(p)-1], "<prefix"
				}
			}
			if len(p) == 0 && len(neq) == 0 && rn.cs.Layout%4 != 0 {
				continue
			}
			gk, ref, err := st.GetWithPrefix(ctx, p, neq)
			cc.check("GetWithPrefix", "GetWithPrefix/neq="+nshape, gotRef(gk, ref, err), expectGetWithPrefix(view, p, neq), fmt.Sprintf("%q,%q", p, neq))
		}
	}

	// snapshots and key readers
	rn.compareSnapshots(cc, r, n, budget/8+4)

	rn.report(cc, n)
}

func (rn *run) snapshotFor(ix *index, r *rand.Rand, n uint64) (*store.Snapshot, string, error) {
	p := []byte(ix.spec.Tgt)
	ctx, cancel := context.WithTimeout(context.Background(), opTimeout)
	defer cancel()
	if r.IntN(3) == 0 {
		s, err := rn.st.Snapshot(p)
		return s, "Snapshot", err
	}
	s, err := rn.st.SnapshotMustIncludeTxID(ctx, p, n)
	return s, "SnapshotMustIncludeTxID", err
}

func (rn *run) compareSnapshots(cc *cmpCtx, r *rand.Rand, n uint64, nreaders int) {
	ix := cc.ix
	for s := 0; s < 2; s++ {
		snap, how, err := rn.snapshotFor(ix, r, n)
		if err != nil {
			rn.c.Count("snapshot_errors", 1)
			if strings.Contains(err.Error(), "greater than current ts") {
				rn.c.Count("snapshot_ts_greater_than_current_ts", 1)
			}
			rn.c.Note(fmt.Sprintf("[%s] %s(%q, %d) in a quiescent store: %v", rn.cs.Name, how, ix.spec.Tgt, n, err))
			continue
		}
		ts := snap.Ts()
		if how == "SnapshotMustIncludeTxID" && ts < n && ix.m.Ts() >= n {
			// the index model's clock is n (every tx advances it): a snapshot that must include n is older
			cc.discs = append(cc.discs, disc{"SnapshotMustIncludeTxID", "older-than-requested", fmt.Sprintf("SnapshotMustIncludeTxID(%d) returned a snapshot at ts %d", n, ts)})
		}
		rn.c.Eval(1)
		view := ix.m.At(ts)
		keys := view.Keys()
		for i := 0; i < nreaders; i++ {
			q, shape := rn.genReaderSpec(r, ix, view, keys, ts)
			want := expectReader(view, q)
			cc.check("KeyReader", shape, runReader(snap, q, len(want.items)+2), want, q.String())
		}
		// point reads on the snapshot
		for i := 0; i < nreaders && len(keys) > 0; i++ {
			k := keys[r.IntN(len(keys))]
			switch r.IntN(3) {
			case 0:
				ref, err := snap.Get(context.Background(), k)
				cc.check("Snapshot.Get", "Snapshot.Get", gotRef(k, ref, err), expectGet(view, k, false), fmt.Sprintf("%q", k))
			case 1:
				_, cnt, _ := view.Get(k)
				off := uint64(r.IntN(int(cnt) + 1))
				desc := r.IntN(2) == 0
				limit := []int{1, 2, 100}[r.IntN(3)]
				refs, hc, err := snap.History(k, off, desc, limit)
				cc.check("Snapshot.History", fmt.Sprintf("Snapshot.History/off>0=%v/desc=%v", off > 0, desc), gotHistory(k, refs, hc, err), expectHistory(view, k, off, desc, limit), fmt.Sprintf("%q,%d,%v,%d", k, off, desc, limit))
			case 2:
				a, b := tsRange(r, ts)
				ref, err := snap.GetBetween(context.Background(), k, a, b)
				cc.check("Snapshot.GetBetween", "Snapshot.GetBetween", gotRef(k, ref, err), expectGetBetween(view, k, a, b), fmt.Sprintf("%q,%d,%d", k, a, b))
			}
		}
		snap.Close()
	}
}

// ---- diagnosis and reporting ----

type contentDiag struct {
	missing, extra, verDiff int
	mdOnlyMarkers           bool // every difference is a delete marker present with the previous entry's metadata unchanged
	examples                []string
	failed                  string
}

type rawVer struct {
	ts  uint64
	md  string
	hv  [32]byte
	len int
}

// diagnose lists the whole index through the two most basic read paths (unbounded ascending reader, full
// ascending history per key) and compares keys and version lists with the model, ignoring revisions.
func (rn *run) diagnose(ix *index, n uint64) contentDiag {
	d := contentDiag{mdOnlyMarkers: true}
	ctx, cancel := context.WithTimeout(context.Background(), opTimeout)
	defer cancel()
	snap, err := rn.st.SnapshotMustIncludeTxID(ctx, []byte(ix.spec.Tgt), 0)
	if err != nil {
		d.failed = err.Error()
		return d
	}
	defer snap.Close()
	view := ix.m.At(snap.Ts())
	all := runReader(snap, readerSpec{}, 1<<20)
	have := map[string]bool{}
	for _, it := range all.items {
		have[it.key] = true
	}
	ex := func(f string, a ...any) {
		if len(d.examples) < 6 {
			d.examples = append(d.examples, fmt.Sprintf(f, a...))
		}
	}
	mkeys := view.Keys()
	want := map[string]bool{}
	for _, k := range mkeys {
		want[string(k)] = true
		vs, _, _ := view.History(k, 0, false, -1)
		var wl []ver
		for i, kv := range vs {
			wl = append(wl, decode(kv, uint64(i+1)))
		}
		var gl []rawVer
		if have[string(k)] {
			refs, _, err := snap.History(k, 0, false, 1<<20)
			if err != nil {
				d.failed = err.Error()
				return d
			}
			for _, ref := range refs {
				gl = append(gl, rawVer{ref.Tx(), string(ledger.MDBytes(ref.KVMetadata())), ref.HVal(), int(ref.Len())})
			}
		}
		same := len(gl) == len(wl)
		mdOnly := same
		for i := 0; same && i < len(wl); i++ {
			w := wantItem(k, wl[i])
			if gl[i].ts != w.tx || gl[i].hv != w.hval || gl[i].len != w.vlen {
				same, mdOnly = false, false
			} else if gl[i].md != w.md {
				same = false
				if !(wl[i].marker && wl[i].prevHasMD) {
					mdOnly = false
				}
			}
		}
		if same {
			continue
		}
		if !mdOnly {
			d.mdOnlyMarkers = false
		}
		if !have[string(k)] {
			d.missing++
			ex("key %q (%d versions, first at tx %d) is not in the index", k, len(wl), wl[0].ts)
		} else {
			d.verDiff++
			var a, b []string
			for _, x := range gl {
				a = append(a, fmt.Sprintf("%d:%x", x.ts, x.md))
			}
			for _, x := range wl {
				m := ""
				if x.marker {
					m = "(delete-marker)"
				}
				b = append(b, fmt.Sprintf("%d:%x%s", x.ts, mdRaw[x.kind], m))
			}
			ex("key %q versions tx:metadata in the index [%s], in the log [%s]", k, strings.Join(a, " "), strings.Join(b, " "))
		}
	}
	var extras []string
	for k := range have {
		if !want[k] {
			extras = append(extras, k)
		}
	}
	sort.Strings(extras)
	for _, k := range extras {
		d.extra++
		d.mdOnlyMarkers = false
		ex("key %q is in the index and was never written", k)
	}
	return d
}

func (rn *run) report(cc *cmpCtx, n uint64) {
	if len(cc.discs) == 0 {
		return
	}
	ix := cc.ix
	dg := rn.diagnose(ix, n)
	head := fmt.Sprintf("[%s] index %s at %s (maintenance in the round: %s), indexing caught up with tx %d: ", rn.cs, ix.spec, cc.label, cc.maint, n)
	var lines []string
	for i, d := range cc.discs {
		if i >= 6 {
			break
		}
		lines = append(lines, d.detail)
	}
	content := dg.missing+dg.extra+dg.verDiff > 0
	if content {
		ix.contentBad = true
		var sig string
		classes := []string{}
		if dg.missing > 0 {
			classes = append(classes, "keys-missing")
		}
		if dg.extra > 0 {
			classes = append(classes, "keys-extra")
		}
		if dg.verDiff > 0 {
			classes = append(classes, "versions-differ")
		}
		switch {
		case ix.spec.Inj && ix.spec.TM != "" && dg.mdOnlyMarkers:
			sig = "index/injective-mapping/prev-entry-with-metadata/stale-target-not-deleted"
		case ix.spec.Inj && ix.spec.TM != "" && rn.compacted.Load():
			// delete markers missing or misplaced in a case where an index (this one or its source index)
			// was restarted by a compaction earlier
			sig = "index/compaction-restart/injective-index/stale-target-not-deleted-or-wrong-target-deleted"
		case ix.spec.Inj && ix.spec.TM != "" && rn.cs.Bulk > 1:
			sig = "index/injective-mapping/bulk>1/stale-target-not-deleted-or-wrong-target-deleted"
		case ix.spec.TM == "" && ix.spec.SM == "" && rn.cs.Bulk > 1:
			sig = "index/bulk>1/key-missing-or-aliased"
		case rn.compacted.Load():
			// no more specific class applies and the index was restarted by a compaction earlier in this case
			sig = "index/compaction-restart/entries-lost"
		default:
			sig = fmt.Sprintf("index/%s/%s/content/%s", ix.spec.kind(), cc.maintClass(), strings.Join(classes, "+"))
		}
		rn.viol(sig, head+fmt.Sprintf("index content differs from the committed log: %d keys missing, %d keys never written, %d keys with different versions; %s; first reads that differ (%d in total): %s",
			dg.missing, dg.extra, dg.verDiff, strings.Join(dg.examples, "; "), len(cc.discs), strings.Join(lines, " | ")))
		return
	}
	// the index holds exactly the committed versions: each (operation, difference class) is its own finding
	seen := map[string]bool{}
	for _, d := range cc.discs {
		sig := fmt.Sprintf("read/%s/%s", d.op, d.cls)
		if strings.HasPrefix(d.cls, "outcome") {
			sig = fmt.Sprintf("read/%s/%s", d.op, outcomeSig(d.detail))
		}
		if seen[sig] {
			continue
		}
		seen[sig] = true
		note := ""
		if dg.failed != "" {
			note = " (content diagnosis failed: " + dg.failed + ")"
		}
		rn.viol(sig, head+"index content equals the log"+note+", but "+d.detail)
	}
}

func (cc *cmpCtx) maintClass() string {
	if strings.Contains(cc.label, "reopen") {
		return "after-reopen"
	}
	return "after-" + cc.maint
}

// outcomeSig turns "…outcome(got X, want Y)" into "got-X-want-Y" with error texts shortened.
func outcomeSig(detail string) string {
	i := strings.LastIndex(detail, "outcome(got ")
	if i < 0 {
		return "outcome"
	}
	s := strings.TrimSuffix(detail[i+len("outcome(got "):], ")")
	parts := strings.SplitN(s, ", want ", 2)
	short := func(x string) string {
		if strings.HasPrefix(x, "other:") {
			x = strings.TrimPrefix(x, "other:")
			if len(x) > 50 {
				x = x[:50]
			}
			return "error:" + strings.ReplaceAll(strings.TrimSpace(x), " ", "-")
		}
		return x
	}
	if len(parts) != 2 {
		return "outcome"
	}
	return "got-" + short(parts[0]) + "-want-" + short(parts[1])
}
