package c04

import (
	"bytes"
	"crypto/sha256"
	"fmt"
	"time"

	"github.com/codenotary/immudb/embedded/store"

	"verifharness/internal/kvmodel"
	"verifharness/internal/ledger"
)

// ---- key-value metadata kinds (only the two fixed expiry instants are ever used) ----

const (
	mdNone = iota
	mdDeleted
	mdExp2001 // expired for every possible time.Now()
	mdExp2100 // not expired
	mdNonIdx
	mdExp2100Del
	mdExp2001Del
	nMD
)

var (
	t2001 = time.Date(2001, 1, 1, 0, 0, 0, 0, time.UTC)
	t2100 = time.Date(2100, 1, 1, 0, 0, 0, 0, time.UTC)
	mdRaw [nMD][]byte
)

func buildMD(kind int) *store.KVMetadata {
	if kind == mdNone {
		return nil
	}
	md := store.NewKVMetadata()
	switch kind {
	case mdDeleted:
		md.AsDeleted(true)
	case mdExp2001:
		md.ExpiresAt(t2001)
	case mdExp2100:
		md.ExpiresAt(t2100)
	case mdNonIdx:
		md.AsNonIndexable(true)
	case mdExp2100Del:
		md.ExpiresAt(t2100)
		md.AsDeleted(true)
	case mdExp2001Del:
		md.ExpiresAt(t2001)
		md.AsDeleted(true)
	}
	return md
}

func init() {
	for k := 0; k < nMD; k++ {
		mdRaw[k] = ledger.MDBytes(buildMD(k))
	}
}

func mdKindOf(b []byte) int {
	for k := 0; k < nMD; k++ {
		if bytes.Equal(mdRaw[k], b) {
			return k
		}
	}
	return -1
}

func mdIsDeleted(k int) bool { return k == mdDeleted || k == mdExp2100Del || k == mdExp2001Del }
func mdIsExpired(k int) bool { return k == mdExp2001 || k == mdExp2001Del }

// the metadata of the logical-delete marker written for a stale target key of an injective index
func mdPlusDeleted(k int) int {
	switch k {
	case mdExp2001, mdExp2001Del:
		return mdExp2001Del
	case mdExp2100, mdExp2100Del:
		return mdExp2100Del
	}
	return mdDeleted
}

// ---- index specifications and the harness mapper functions (given to the store AND used by the model) ----

type idxSpec struct {
	Src, Tgt string
	SM, TM   string // names of the source / target entry mappers ("" = none)
	Inj      bool
}

func bucket(v []byte) byte {
	if len(v) == 0 {
		return '_'
	}
	return 'A' + v[0]%4
}

// "primary" mapping: depends on the key only, one-to-one
func mapA(k, v []byte) ([]byte, error) {
	return append([]byte("p/"), k[2:]...), nil
}

// "secondary" mapping: the target key carries a digest of the value, so an update moves the entry
func mapB(sk, v []byte) ([]byte, error) {
	out := append([]byte("s/"), bucket(v), '/')
	return append(out, sk[2:]...), nil
}

// value-dependent mapping used without the injective flag (stale targets stay live)
func mapC(k, v []byte) ([]byte, error) {
	out := append([]byte("c/"), '0'+byte(len(v)%3))
	return append(out, k[2:]...), nil
}

var mappers = map[string]store.EntryMapper{"A": mapA, "B": mapB, "C": mapC}

func (s idxSpec) storeSpec() *store.IndexSpec {
	return &store.IndexSpec{
		SourcePrefix: []byte(s.Src), TargetPrefix: []byte(s.Tgt),
		SourceEntryMapper: mappers[s.SM], TargetEntryMapper: mappers[s.TM],
		InjectiveMapping: s.Inj,
	}
}

func (s idxSpec) kind() string {
	switch {
	case s.TM != "" && s.Inj:
		return "mapped-injective"
	case s.TM != "":
		return "mapped"
	case s.Tgt != "":
		return "prefixed"
	}
	return "plain"
}

func (s idxSpec) String() string {
	return fmt.Sprintf("{%s src=%q tgt=%q sm=%s tm=%s injective=%v}", s.kind(), s.Src, s.Tgt, s.SM, s.TM, s.Inj)
}

// layouts: 0 default index (multi-indexing off); 1 one prefixed index; 2 SQL-like (rows, primary, secondary
// injective); 3 four indexes (prefixed, primary without flag, secondary injective, value-mapped not injective)
func layout(i int) (multi bool, specs []idxSpec) {
	switch i % 4 {
	case 0:
		return false, []idxSpec{{}}
	case 1:
		return true, []idxSpec{{Src: "a/", Tgt: "a/"}}
	case 2:
		return true, []idxSpec{
			{Src: "r/", Tgt: "r/"},
			{Src: "r/", Tgt: "p/", TM: "A", Inj: true},
			{Src: "r/", SM: "A", Tgt: "s/", TM: "B", Inj: true},
		}
	}
	return true, []idxSpec{
		{Src: "a/", Tgt: "a/"},
		{Src: "r/", Tgt: "p/", TM: "A"},
		{Src: "r/", SM: "A", Tgt: "s/", TM: "B", Inj: true},
		{Src: "r/", Tgt: "c/", TM: "C"},
	}
}

// ---- the model: one multi-version ordered map per index, replayed from the ledger ----

const (
	flagMarker    = 0x80 // version written as the logical delete of a stale target key
	flagPrevHasMD = 0x40 // ... whose previous source entry carried metadata
)

type index struct {
	n    int
	spec idxSpec
	m    *kvmodel.Model
	// content of the store's index was found different from the model (diagnosis); later discrepancies
	// of API calls on this index are consequences, not separate observations
	contentBad bool
}

type world struct {
	idx     []*index
	applied uint64
}

func newWorld(specs []idxSpec) *world {
	w := &world{}
	for i, s := range specs {
		w.idx = append(w.idx, &index{n: i, spec: s, m: kvmodel.New()})
	}
	return w
}

func enc(kind int, flags byte, value []byte) []byte {
	return append([]byte{byte(kind) | flags}, value...)
}

// ver is one expected version of a target key.
type ver struct {
	kind      int
	marker    bool
	prevHasMD bool
	value     []byte
	ts, rev   uint64
}

func decode(v kvmodel.Version, rev uint64) ver {
	return ver{kind: int(v.Value[0] & 0x3f), marker: v.Value[0]&flagMarker != 0, prevHasMD: v.Value[0]&flagPrevHasMD != 0,
		value: v.Value[1:], ts: v.Ts, rev: rev}
}

func hasPrefix(k []byte, p string) bool { return bytes.HasPrefix(k, []byte(p)) }

// targetsOf returns, per index, the target key an entry is indexed under (nil: not indexed there).
func targetsOf(specs []idxSpec, key, value []byte, kind int) [][]byte {
	out := make([][]byte, len(specs))
	if kind == mdNonIdx {
		return out
	}
	for i, s := range specs {
		if !hasPrefix(key, s.Src) {
			continue
		}
		sk := key
		if f := mappers[s.SM]; f != nil {
			sk, _ = f(key, value)
		}
		tk := sk
		if f := mappers[s.TM]; f != nil {
			tk, _ = f(sk, value)
		}
		out[i] = append([]byte(nil), tk...)
	}
	return out
}

// indexFor mirrors store.getIndexerFor: the index whose target prefix the key carries (layouts keep
// target prefixes disjoint, so the choice is unique).
func (w *world) indexFor(key []byte) *index {
	for _, ix := range w.idx {
		if hasPrefix(key, ix.spec.Tgt) {
			return ix
		}
	}
	return nil
}

// apply replays one acknowledged transaction into every index model.
func (w *world) apply(rec *ledger.Rec) error {
	t := rec.ID
	if t != w.applied+1 {
		return fmt.Errorf("ledger gap: tx %d follows %d", t, w.applied)
	}
	for _, ix := range w.idx {
		s := ix.spec
		n := 0
		for _, e := range rec.Entries {
			kind := mdKindOf(e.MD)
			if kind < 0 {
				return fmt.Errorf("tx %d: unknown metadata %x", t, e.MD)
			}
			if kind == mdNonIdx || !hasPrefix(e.Key, s.Src) {
				continue
			}
			sk := e.Key
			if f := mappers[s.SM]; f != nil {
				sk, _ = f(e.Key, e.Value)
			}
			tk := sk
			if f := mappers[s.TM]; f != nil {
				tk, _ = f(sk, e.Value)
			}
			if added, err := ix.m.Set(tk, enc(kind, 0, e.Value), t); err != nil || !added {
				return fmt.Errorf("tx %d: target key %q set twice in one tx or out of order (%v)", t, tk, err)
			}
			n++
			if !s.Inj || t <= 1 {
				continue
			}
			src := w.indexFor(sk)
			if src == nil {
				continue
			}
			// the previous entry of the source key as of t-1 must be logically deleted from this index
			pv, _, ok := src.m.At(t - 1).Get(sk)
			if !ok {
				continue
			}
			prev := decode(pv, 0)
			tpk := sk
			if f := mappers[s.TM]; f != nil {
				tpk, _ = f(sk, prev.value)
			}
			if bytes.Equal(tpk, tk) {
				continue
			}
			flags := byte(flagMarker)
			if prev.kind != mdNone {
				flags |= flagPrevHasMD
			}
			if added, err := ix.m.Set(tpk, enc(mdPlusDeleted(prev.kind), flags, prev.value), t); err != nil || !added {
				return fmt.Errorf("tx %d: marker key %q collides (%v)", t, tpk, err)
			}
			n++
		}
		ix.m.AdvanceTs(t)
	}
	w.applied = t
	return nil
}

// ---- canonical outcomes: the same structure is built from the model and from what the store returned ----

type item struct {
	key  string
	tx   uint64
	hc   uint64
	md   string
	vlen int
	hval [32]byte
	res  string // "v" value resolved, "expired", "err:<text>"
	val  string
}

type out struct {
	cls   string // ok | not-found | expired | no-more | offset-out-of-range | illegal-arguments | other:<text>
	items []item
	hc    uint64 // History: total number of versions
}

func wantItem(key []byte, v ver) item {
	it := item{key: string(key), tx: v.ts, hc: v.rev, md: string(mdRaw[v.kind]), vlen: len(v.value), hval: sha256.Sum256(v.value), res: "v", val: string(v.value)}
	if mdIsExpired(v.kind) {
		it.res, it.val = "expired", ""
	}
	return it
}

// diff names the first difference between two outcomes ("" when equal).
func diff(got, want out) string {
	if got.cls != want.cls {
		return fmt.Sprintf("outcome(got %s, want %s)", got.cls, want.cls)
	}
	if len(got.items) != len(want.items) {
		return fmt.Sprintf("count(got %d, want %d)", len(got.items), len(want.items))
	}
	if got.hc != want.hc {
		return fmt.Sprintf("history-count(got %d, want %d)", got.hc, want.hc)
	}
	for i := range got.items {
		g, w := got.items[i], want.items[i]
		switch {
		case g.key != w.key:
			return fmt.Sprintf("key(#%d got %q, want %q)", i, g.key, w.key)
		case g.tx != w.tx:
			return fmt.Sprintf("tx(#%d %q got %d, want %d)", i, g.key, g.tx, w.tx)
		case g.hc != w.hc:
			return fmt.Sprintf("revision(#%d %q got %d, want %d)", i, g.key, g.hc, w.hc)
		case g.md != w.md:
			return fmt.Sprintf("metadata(#%d %q got %x, want %x)", i, g.key, g.md, w.md)
		case g.vlen != w.vlen || g.hval != w.hval:
			return fmt.Sprintf("value-digest(#%d %q)", i, g.key)
		case g.res != w.res:
			return fmt.Sprintf("resolve(#%d %q got %s, want %s)", i, g.key, g.res, w.res)
		case g.val != w.val:
			return fmt.Sprintf("value(#%d %q)", i, g.key)
		}
	}
	return ""
}

// diffClass strips the parenthesised details: the class of a difference.
func diffClass(d string) string {
	if i := bytes.IndexByte([]byte(d), '('); i >= 0 {
		return d[:i]
	}
	return d
}

// ---- expectations ----

func filtered(v ver, ignoreExpired, ignoreDeleted bool) string {
	if ignoreExpired && mdIsExpired(v.kind) {
		return "expired"
	}
	if ignoreDeleted && mdIsDeleted(v.kind) {
		return "not-found"
	}
	return ""
}

// Get / GetWithFilters(no filters when raw)
func expectGet(v kvmodel.View, key []byte, raw bool) out {
	kv, n, ok := v.Get(key)
	if !ok {
		return out{cls: "not-found"}
	}
	x := decode(kv, n)
	if !raw {
		if c := filtered(x, true, true); c != "" {
			return out{cls: c}
		}
	}
	return out{cls: "ok", items: []item{wantItem(key, x)}}
}

func expectGetBetween(v kvmodel.View, key []byte, a, b uint64) out {
	kv, rev, ok := v.GetBetween(key, a, b)
	if !ok {
		return out{cls: "not-found"}
	}
	return out{cls: "ok", items: []item{wantItem(key, decode(kv, rev))}}
}

func expectHistory(v kvmodel.View, key []byte, offset uint64, desc bool, limit int) out {
	vs, n, st := v.History(key, offset, desc, limit)
	switch st {
	case kvmodel.HistoryKeyNotFound:
		return out{cls: "not-found"}
	case kvmodel.HistoryNoMore:
		return out{cls: "no-more"}
	case kvmodel.HistoryOutOfRange:
		return out{cls: "offset-out-of-range"}
	}
	o := out{cls: "ok", hc: n}
	for i, kv := range vs {
		rev := offset + 1 + uint64(i)
		if desc {
			rev = n - offset - uint64(i)
		}
		o.items = append(o.items, wantItem(key, decode(kv, rev)))
	}
	return o
}

func expectGetWithPrefix(v kvmodel.View, prefix, neq []byte) out {
	k, kv, n, ok := v.GetWithPrefix(prefix, neq)
	if !ok {
		return out{cls: "not-found"}
	}
	x := decode(kv, n)
	if c := filtered(x, true, true); c != "" {
		return out{cls: c}
	}
	return out{cls: "ok", items: []item{wantItem(k, x)}}
}

// readerSpec is what a key reader is asked for.
type readerSpec struct {
	rs                           kvmodel.RangeSpec // Offset is applied after the filters (as store.KeyReader does)
	ignoreDeleted, ignoreExpired bool
	history                      bool
	between                      bool
	a, b                         uint64
}

func (q readerSpec) String() string {
	return fmt.Sprintf("{seek=%q incl=%v end=%q incl=%v prefix=%q desc=%v offset=%d ignoreDeleted=%v ignoreExpired=%v history=%v between=%v[%d,%d]}",
		q.rs.SeekKey, q.rs.InclusiveSeek, q.rs.EndKey, q.rs.InclusiveEnd, q.rs.Prefix, q.rs.Desc, q.rs.Offset, q.ignoreDeleted, q.ignoreExpired, q.history, q.between, q.a, q.b)
}

func expectReader(v kvmodel.View, q readerSpec) out {
	rs := q.rs
	off := rs.Offset
	rs.Offset = 0
	var es []kvmodel.Entry
	switch {
	case q.history:
		es = v.RangeHistory(rs)
	case q.between:
		es = v.RangeBetween(rs, q.a, q.b)
	default:
		es = v.Range(rs)
	}
	o := out{cls: "ok"}
	for _, e := range es {
		x := decode(e.Version, e.Rev)
		if !q.history && filtered(x, q.ignoreExpired, q.ignoreDeleted) != "" {
			continue
		}
		if off > 0 {
			off--
			continue
		}
		o.items = append(o.items, wantItem(e.Key, x))
	}
	return o
}
