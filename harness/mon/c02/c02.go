// Package c02: monitor for property C02 (see DESIGN.md section 2).
package c02
