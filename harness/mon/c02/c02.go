// Package c02: committed history is append-only and immutable.
//
// Concurrent committers (sync/async/CommitWith, preconditions, RW txs, cancelled
// and refused txs) and a maintenance goroutine run against one store, with
// schedule perturbation at the verifhook points; a ledger records every
// acknowledgement; an auditor and every quiescent point re-read all acknowledged
// txs (live store, cold copy, after reopen) and compare; the chain is recomputed
// with an independent Merkle reference; issued/committed notes are checked online.
package c02

import (
	"bytes"
	"context"
	"encoding/json"
	"errors"
	"fmt"
	"math/rand/v2"
	"os"
	"runtime"
	"strings"
	"sync"
	"sync/atomic"
	"time"

	"github.com/codenotary/immudb/embedded/store"

	"verifharness/internal/fw"
	"verifharness/internal/hook"
	"verifharness/internal/ledger"
	"verifharness/internal/sth"
)

func init() { fw.RegisterMonitor("C02", "exploration", Run) }

type config struct {
	Name        string
	Synced      bool
	Embedded    bool
	Prealloc    bool
	HdrVersion  int
	IOConc      int
	MaxActive   int
	FileSize    int
	TxLogCache  int
	ExtAllow    bool
	Truncate    bool
	Committers  int
	VLogCache   int
	MultiIndex  bool
	WriteBuffer int
	Faults      bool // transient write / fsync errors injected during the committer rounds
}

func (cf config) String() string {
	return fmt.Sprintf("synced=%v embedded=%v prealloc=%v hdr=v%d ioconc=%d maxactive=%d filesize=%d txcache=%d extallow=%v truncate=%v committers=%d",
		cf.Synced, cf.Embedded, cf.Prealloc, cf.HdrVersion, cf.IOConc, cf.MaxActive, cf.FileSize, cf.TxLogCache, cf.ExtAllow, cf.Truncate, cf.Committers)
}

func genConfig(r *rand.Rand, i int) config {
	cf := config{
		Synced:      i%2 == 0,
		Embedded:    r.IntN(3) == 0,
		Prealloc:    r.IntN(4) == 0,
		HdrVersion:  r.IntN(2),
		IOConc:      1 + r.IntN(4),
		MaxActive:   []int{2, 3, 5, 16, 1000}[r.IntN(5)],
		FileSize:    []int{512, 1024, 2048, 8192, 1 << 16}[r.IntN(5)],
		TxLogCache:  []int{1, 2, 8, 1000}[r.IntN(4)],
		ExtAllow:    i%4 == 3,
		Committers:  4 + r.IntN(9),
		VLogCache:   []int{0, 4, 64}[r.IntN(3)],
		WriteBuffer: []int{1 << 10, 1 << 12, 1 << 16}[r.IntN(3)],
	}
	cf.Truncate = !cf.Embedded && !cf.ExtAllow && r.IntN(3) == 0
	if cf.Embedded {
		cf.IOConc = 1
	}
	if cf.ExtAllow {
		// the precommit buffer is sized by MaxActiveTransactions; with external allowance the backlog is
		// bounded only by it, and overflowing it ("buffer is full") wedges later commits (recorded in
		// DESIGN.md as an out-of-scope observation), which would leave this configuration unexplored
		cf.MaxActive = 1000
	}
	return cf
}

func (cf config) options() *store.Options {
	o := sth.SmallOpts().
		WithSynced(cf.Synced).WithSyncFrequency(time.Millisecond).
		WithEmbeddedValues(cf.Embedded).WithPreallocFiles(cf.Prealloc).
		WithWriteTxHeaderVersion(cf.HdrVersion).
		WithMaxIOConcurrency(cf.IOConc).WithMaxConcurrency(16).
		WithMaxActiveTransactions(cf.MaxActive).
		WithFileSize(cf.FileSize).WithTxLogCacheSize(cf.TxLogCache).
		WithVLogCacheSize(cf.VLogCache).
		WithWriteBufferSize(cf.WriteBuffer).
		WithMaxTxEntries(12).WithMaxKeyLen(48).WithMaxValueLen(600)
	o.WithIndexOptions(o.IndexOpts.WithCompactionThld(2).WithFlushThld(50).WithSyncThld(200))
	return o
}

type run struct {
	c   *fw.Ctx
	cf  config
	dir string
	st  *store.ImmuStore
	led *ledger.Ledger

	truncBelow atomic.Uint64

	// online monitor of issued / committed notes (serialized by the store's own lock)
	nmu       sync.Mutex
	issued    map[uint64][32]byte
	committed uint64
	commAlh   map[uint64][32]byte

	// samples of CommittedAlh / PrecommittedAlh taken during the concurrent phases
	smu     sync.Mutex
	samples map[uint64][32]byte

	acks, refused, conflicts atomic.Int64
	timeouts                 atomic.Int64
	committers               sync.Map // goroutine ids of the committer goroutines of the running round
	faultsArmed              atomic.Bool
	faultBudget              atomic.Int64
	faultCalls               atomic.Uint64
	faultsFired              atomic.Int64
	keySeq                   atomic.Uint64
	stats                    map[string]*atomic.Int64
}

func (rn *run) viol(sig, detail string) {
	rn.c.Violation(sig, fmt.Sprintf("[%s] %s", rn.cf, detail), map[string][]byte{"config.txt": []byte(rn.cf.String())})
}

func (rn *run) onNote(site string, a, b uint64, h [32]byte) {
	rn.nmu.Lock()
	defer rn.nmu.Unlock()
	switch site {
	case "store.issued":
		if a <= rn.committed {
			if prev, ok := rn.commAlh[a]; !ok || prev != h {
				rn.viol("issued/id-at-or-below-committed-frontier", fmt.Sprintf("tx id %d issued again (alh %x) while the committed frontier is %d", a, h[:6], rn.committed))
			}
		}
		rn.issued[a] = h
	case "store.committed":
		// every id in (old frontier, a] becomes committed with the alh last issued for it
		for id := rn.committed + 1; id <= a; id++ {
			if ih, ok := rn.issued[id]; ok {
				rn.commAlh[id] = ih
			}
		}
		if ih, ok := rn.issued[a]; ok && ih != h {
			rn.viol("committed/alh-not-the-issued-one", fmt.Sprintf("tx %d committed with alh %x but issued with %x", a, h[:6], ih[:6]))
		}
		if a < rn.committed {
			rn.viol("committed/frontier-went-back", fmt.Sprintf("committed frontier moved from %d to %d", rn.committed, a))
		}
		rn.committed = a
	}
}

func (rn *run) open() error {
	st, err := store.Open(rn.dir, rn.cf.options())
	if err != nil {
		return err
	}
	rn.st = st
	if rn.cf.ExtAllow {
		st.SetExternalCommitAllowance(true)
	}
	// after (re)open the committed frontier restarts from what the store reports
	id, alh := st.CommittedAlh()
	rn.nmu.Lock()
	rn.committed = id
	if id > 0 {
		rn.commAlh[id] = alh
	}
	rn.nmu.Unlock()
	return nil
}

func val(r *rand.Rand, tag string) []byte {
	n := []int{0, 1, 9, 40, 200, 500}[r.IntN(6)]
	b := make([]byte, n)
	copy(b, tag)
	for i := len(tag); i < n; i++ {
		b[i] = byte(r.IntN(256))
	}
	return b
}

func kvmd(r *rand.Rand, ver int) *store.KVMetadata {
	if ver == 0 || r.IntN(3) > 0 {
		return nil
	}
	md := store.NewKVMetadata()
	switch r.IntN(4) {
	case 0:
		md.AsDeleted(true)
	case 1:
		md.ExpiresAt(time.Date(2100, 1, 1, 0, 0, 0, 0, time.UTC))
	case 2:
		md.ExpiresAt(time.Date(2001, 1, 1, 0, 0, 0, 0, time.UTC))
	case 3:
		md.AsNonIndexable(true)
	}
	return md
}

func (rn *run) genEntries(r *rand.Rand, g int) []ledger.Entry {
	n := 1 + r.IntN(6)
	seen := map[string]bool{}
	var es []ledger.Entry
	for len(es) < n {
		k := fmt.Sprintf("k%02d", r.IntN(24))
		if r.IntN(4) == 0 {
			k = fmt.Sprintf("u%d-%d", g, rn.keySeq.Add(1))
		}
		if seen[k] {
			continue
		}
		seen[k] = true
		md := kvmd(r, rn.cf.HdrVersion)
		es = append(es, ledger.Entry{Key: []byte(k), Value: val(r, fmt.Sprintf("g%d:", g)), MD: ledger.MDBytes(md)})
	}
	return es
}

func mdFrom(b []byte, r *rand.Rand) *store.KVMetadata {
	if b == nil {
		return nil
	}
	// rebuild the metadata object from the generated flags (bytes are what the ledger keeps)
	md := store.NewKVMetadata()
	for _, cand := range candidates() {
		if bytes.Equal(cand.Bytes(), b) {
			return cand
		}
	}
	return md
}

func candidates() []*store.KVMetadata {
	var out []*store.KVMetadata
	a := store.NewKVMetadata()
	a.AsDeleted(true)
	b := store.NewKVMetadata()
	b.ExpiresAt(time.Date(2100, 1, 1, 0, 0, 0, 0, time.UTC))
	c := store.NewKVMetadata()
	c.ExpiresAt(time.Date(2001, 1, 1, 0, 0, 0, 0, time.UTC))
	d := store.NewKVMetadata()
	d.AsNonIndexable(true)
	return append(out, a, b, c, d)
}

var expectedErrs = []error{
	store.ErrMaxActiveTransactionsLimitExceeded, store.ErrTxReadConflict, store.ErrPreconditionFailed,
	store.ErrNoEntriesProvided, store.ErrDuplicatedKey, store.ErrMaxTxEntriesLimitExceeded,
	store.ErrAlreadyClosed, context.Canceled, context.DeadlineExceeded, store.ErrMaxConcurrencyLimitExceeded,
	store.ErrKeyNotFound, store.ErrMaxValueLenExceeded, store.ErrMaxKeyLenExceeded, store.ErrNullKey, store.ErrWriteStalling,
}

func expected(err error) bool {
	for _, e := range expectedErrs {
		if errors.Is(err, e) {
			return true
		}
	}
	return false
}

// one committer operation; returns the kind executed
func (rn *run) commitOp(ctx context.Context, r *rand.Rand, g int) string {
	st := rn.st
	es := rn.genEntries(r, g)
	kind := []string{"commit", "commit", "async", "commitwith", "precond-pass", "precond-fail", "rw", "cancel", "oversize", "dupkey", "empty", "txmd"}[r.IntN(12)]
	ack := func(hdr *store.TxHeader, err error, entries []ledger.Entry) {
		if err != nil {
			if hdr != nil && !expected(err) {
				// commit reported with a header and an error: committed but e.g. indexing wait failed
				rn.c.Count("ack_with_error", 1)
			}
			if !expected(err) {
				// a failed commit is not forbidden by the property: recorded, not judged
				rn.c.Count("unexpected_commit_errors", 1)
				rn.c.Note(fmt.Sprintf("%s failed with an undocumented error: %v", kind, err))
			}
			if errors.Is(err, store.ErrTxReadConflict) {
				rn.conflicts.Add(1)
			}
			rn.refused.Add(1)
			return
		}
		if e := rn.led.Ack(hdr, entries); e != nil {
			rn.viol("ack/id-reassigned", e.Error())
		}
		rn.acks.Add(1)
	}
	setAll := func(tx *store.OngoingTx, entries []ledger.Entry) error {
		for _, e := range entries {
			if err := tx.Set(e.Key, mdFrom(e.MD, r), e.Value); err != nil {
				return err
			}
		}
		return nil
	}
	switch kind {
	case "commit", "async", "txmd", "precond-pass", "precond-fail", "cancel", "oversize", "dupkey", "empty":
		tx, err := st.NewWriteOnlyTx(ctx)
		if err != nil {
			ack(nil, err, nil)
			return kind
		}
		switch kind {
		case "oversize":
			es = es[:0]
			for i := 0; i < 13; i++ {
				es = append(es, ledger.Entry{Key: []byte(fmt.Sprintf("o%d-%d", g, i)), Value: []byte("x")})
			}
		case "empty":
			es = nil
		case "txmd":
			if rn.cf.HdrVersion == 1 {
				md := store.NewTxMetadata()
				md.WithExtra([]byte(fmt.Sprintf("extra-%d", g)))
				tx.WithMetadata(md)
			}
		case "precond-pass":
			tx.AddPrecondition(&store.PreconditionKeyMustNotExist{Key: []byte(fmt.Sprintf("never-%d-%d", g, rn.keySeq.Add(1)))})
		case "precond-fail":
			tx.AddPrecondition(&store.PreconditionKeyMustExist{Key: []byte(fmt.Sprintf("never-%d-%d", g, rn.keySeq.Add(1)))})
		}
		if err := setAll(tx, es); err != nil {
			tx.Cancel()
			ack(nil, err, nil)
			return kind
		}
		if kind == "dupkey" && len(es) > 0 {
			if err := tx.Set(es[0].Key, nil, []byte("dup")); err == nil {
				// a second Set of the same key inside one tx replaces the first: mirror it
				es[0].Value, es[0].MD = []byte("dup"), nil
			}
		}
		if kind == "cancel" {
			tx.Cancel()
			return kind
		}
		var hdr *store.TxHeader
		if kind == "async" {
			hdr, err = tx.AsyncCommit(ctx)
		} else {
			hdr, err = tx.Commit(ctx)
		}
		if kind == "precond-fail" && err == nil {
			rn.viol("precondition/applied-although-false", "a tx with KeyMustExist on a key never written was committed")
		}
		if (kind == "oversize" || kind == "empty") && err == nil {
			rn.viol("commit/refusal-expected", kind+" tx was committed")
		}
		ack(hdr, err, es)
	case "commitwith":
		hdr, err := st.CommitWith(ctx, func(txID uint64, index store.KeyIndex) ([]*store.EntrySpec, []store.Precondition, error) {
			specs := make([]*store.EntrySpec, len(es))
			for i, e := range es {
				specs[i] = &store.EntrySpec{Key: e.Key, Metadata: mdFrom(e.MD, r), Value: e.Value}
			}
			return specs, nil, nil
		}, r.IntN(2) == 0)
		ack(hdr, err, es)
	case "rw":
		tx, err := st.NewTx(ctx, store.DefaultTxOptions())
		if err != nil {
			ack(nil, err, nil)
			return kind
		}
		for i := 0; i < 1+r.IntN(3); i++ {
			tx.Get(ctx, []byte(fmt.Sprintf("k%02d", r.IntN(24))))
		}
		if err := setAll(tx, es); err != nil {
			tx.Cancel()
			ack(nil, err, nil)
			return kind
		}
		hdr, err := tx.Commit(ctx)
		ack(hdr, err, es)
	}
	return kind
}

func (rn *run) sample() {
	id, alh := rn.st.CommittedAlh()
	if id == 0 {
		return
	}
	rn.smu.Lock()
	if prev, ok := rn.samples[id]; ok && prev != alh {
		rn.smu.Unlock()
		rn.viol("state/two-alh-for-one-id", fmt.Sprintf("CommittedAlh reported tx %d with two different hashes", id))
		return
	}
	rn.samples[id] = alh
	rn.smu.Unlock()
}

// concurrent phase: committers + maintenance + auditor until nOps commit attempts were made
// fault decides whether one write / fsync of some appendable fails now: a transient I/O error (the next
// attempt succeeds). Which call fails depends on the schedule; how many do is bounded per round.
func (rn *run) fault(site string) error {
	if !rn.faultsArmed.Load() {
		return nil
	}
	// only writes / fsyncs issued by a committing goroutine itself (value-log, tx-log and commit-log work of
	// its own Commit call): the failed commit is then simply not acknowledged. Faults under the indexer or
	// the background syncer are not injected here (what they may leave behind is not C02's business).
	if _, ok := rn.committers.Load(goid()); !ok {
		return nil
	}
	n := rn.faultCalls.Add(1)
	// a fixed sparse pattern over the call sequence (about 1 call in 40), at most 3 per round
	if (n*2654435761)%40 != 7 {
		return nil
	}
	if rn.faultBudget.Add(-1) < 0 {
		return nil
	}
	rn.faultsFired.Add(1)
	rn.c.Count("faults_injected/"+site, 1)
	return errInjected
}

var errInjected = errors.New("c02: injected transient I/O error")

func goid() uint64 {
	var buf [64]byte
	n := runtime.Stack(buf[:], false)
	var id uint64
	for _, c := range buf[10:n] {
		if c < '0' || c > '9' {
			break
		}
		id = id*10 + uint64(c-'0')
	}
	return id
}

func (rn *run) concurrentPhase(round int, nOps int) {
	ctx, cancel := context.WithCancel(context.Background())
	defer cancel()
	if rn.cf.Faults {
		rn.faultBudget.Store(3)
		rn.faultsArmed.Store(true)
		defer rn.faultsArmed.Store(false)
	}
	var wg sync.WaitGroup
	var left atomic.Int64
	left.Store(int64(nOps))
	stop := make(chan struct{})
	kinds := sync.Map{}
	for g := 0; g < rn.cf.Committers; g++ {
		wg.Add(1)
		go func(g int) {
			defer wg.Done()
			id := goid()
			rn.committers.Store(id, true)
			defer rn.committers.Delete(id)
			r := fw.NewRand(rn.c.Seed, fmt.Sprintf("c02/%s/round%d/committer%d", rn.cf.Name, round, g))
			for left.Add(-1) >= 0 {
				// generous per-operation limit: its firing decides nothing by itself, it only lets
				// the run reach the audits when the store stopped making progress
				octx, ocancel := context.WithTimeout(ctx, 20*time.Second)
				k := rn.commitOp(octx, r, g)
				if octx.Err() != nil {
					rn.c.Count("op_timeouts", 1)
					if rn.timeouts.Add(1) >= 3 {
						left.Store(0)
					}
				}
				ocancel()
				kinds.Store(k, true)
			}
		}(g)
	}
	var bg sync.WaitGroup
	// allower (external commit allowance): allows everything precommitted, with a lag
	if rn.cf.ExtAllow {
		bg.Add(1)
		go func() {
			defer bg.Done()
			for {
				select {
				case <-stop:
					rn.st.AllowCommitUpto(rn.st.LastPrecommittedTxID())
					return
				default:
				}
				rn.st.AllowCommitUpto(rn.st.LastPrecommittedTxID())
				time.Sleep(200 * time.Microsecond)
			}
		}()
	}
	// maintenance
	bg.Add(1)
	go func() {
		defer bg.Done()
		r := fw.NewRand(rn.c.Seed, fmt.Sprintf("c02/%s/round%d/maint", rn.cf.Name, round))
		for {
			select {
			case <-stop:
				return
			default:
			}
			var err error
			op := r.IntN(5)
			switch op {
			case 0:
				err = rn.st.FlushIndexes(float32(r.IntN(101)), r.IntN(2) == 0)
			case 1:
				err = rn.st.CompactIndexes()
			case 2:
				err = rn.st.Sync()
			case 3:
				if rn.cf.Truncate {
					if n := rn.led.Max(); n > 4 {
						cut := 1 + r.Uint64N(n/2)
						// values below the cut may become unreadable from now on
						for {
							old := rn.truncBelow.Load()
							if cut <= old || rn.truncBelow.CompareAndSwap(old, cut) {
								break
							}
						}
						err = rn.st.TruncateUptoTx(cut)
						if err != nil && !errors.Is(err, store.ErrTxNotFound) && !strings.Contains(err.Error(), "no") {
							rn.c.Count("truncate_errors", 1)
						}
						err = nil
					}
				}
			case 4:
				rn.sample()
			}
			_ = err
			rn.c.Count("maintenance_ops", 1)
			time.Sleep(time.Duration(r.IntN(300)) * time.Microsecond)
		}
	}()
	// auditor
	bg.Add(1)
	go func() {
		defer bg.Done()
		r := fw.NewRand(rn.c.Seed, fmt.Sprintf("c02/%s/round%d/auditor", rn.cf.Name, round))
		tx := store.NewTx(12, 48)
		for {
			select {
			case <-stop:
				return
			default:
			}
			n := rn.led.Max()
			if n == 0 {
				time.Sleep(100 * time.Microsecond)
				continue
			}
			id := 1 + r.Uint64N(n)
			for _, p := range rn.led.AuditTx(rn.st, tx, id, ledger.AuditOpts{TruncatedBelow: rn.truncBelow.Load(), Export: r.IntN(2) == 0}) {
				rn.viol("concurrent-audit/"+p.Sig, p.Detail)
			}
			rn.c.Eval(1)
			rn.sample()
		}
	}()
	wg.Wait()
	close(stop)
	bg.Wait()
	kinds.Range(func(k, _ any) bool { rn.c.Distinct("op/" + k.(string) + "/" + rn.cf.Name); return true })
}

// backlog scenario (external commit allowance): K txs precommitted, j allowed, the rest discarded.
func (rn *run) backlogPhase(round int) {
	r := fw.NewRand(rn.c.Seed, fmt.Sprintf("c02/%s/round%d/backlog", rn.cf.Name, round))
	st := rn.st
	base := st.LastPrecommittedTxID()
	st.AllowCommitUpto(base)
	wctx, wcancel := context.WithTimeout(context.Background(), 20*time.Second)
	err := st.WaitForTx(wctx, base, false)
	wcancel()
	if err != nil {
		rn.c.Count("op_timeouts", 1)
		rn.timeouts.Add(1)
		return
	}
	K := 2 + r.IntN(4)
	if rn.cf.Synced && K >= rn.cf.MaxActive {
		K = rn.cf.MaxActive - 1
	}
	if K < 2 {
		return
	}
	j := r.IntN(K)
	type res struct {
		hdr *store.TxHeader
		err error
		es  []ledger.Entry
	}
	out := make(chan res, K)
	ctx, cancel := context.WithCancel(context.Background())
	for i := 0; i < K; i++ {
		es := rn.genEntries(r, 100+i)
		go func() {
			tx, err := st.NewWriteOnlyTx(ctx)
			if err != nil {
				out <- res{nil, err, es}
				return
			}
			for _, e := range es {
				tx.Set(e.Key, mdFrom(e.MD, r), e.Value)
			}
			hdr, err := tx.Commit(ctx)
			out <- res{hdr, err, es}
		}()
	}
	// wait until all K are precommitted (bounded polling; otherwise give up this scenario)
	ok := false
	for i := 0; i < 20000; i++ {
		if st.LastPrecommittedTxID() >= base+uint64(K) {
			ok = true
			break
		}
		time.Sleep(100 * time.Microsecond)
	}
	if !ok {
		cancel()
		for i := 0; i < K; i++ {
			<-out
		}
		st.DiscardPrecommittedTxsSince(base + 1)
		rn.c.Count("backlog_not_reached", 1)
		return
	}
	st.AllowCommitUpto(base + uint64(j))
	got := 0
	for got < j {
		x := <-out
		got++
		if x.err != nil {
			rn.viol("backlog/allowed-commit-failed", fmt.Sprintf("allowed tx failed: %v", x.err))
			continue
		}
		if x.hdr.ID > base+uint64(j) {
			rn.viol("backlog/commit-beyond-allowance", fmt.Sprintf("tx %d acknowledged while commits were allowed only up to %d", x.hdr.ID, base+uint64(j)))
		}
		if e := rn.led.Ack(x.hdr, x.es); e != nil {
			rn.viol("ack/id-reassigned", e.Error())
		}
		rn.acks.Add(1)
	}
	// the remaining K-j must not be acknowledged; cancel their waiters, then discard
	cancel()
	for ; got < K; got++ {
		x := <-out
		if x.err == nil {
			rn.viol("backlog/commit-beyond-allowance", fmt.Sprintf("tx %d acknowledged without allowance (allowed up to %d)", x.hdr.ID, base+uint64(j)))
			rn.led.Ack(x.hdr, x.es)
		}
	}
	cid := st.LastCommittedTxID()
	if cid != base+uint64(j) {
		rn.viol("backlog/committed-frontier", fmt.Sprintf("committed frontier %d, allowed %d", cid, base+uint64(j)))
	}
	// discarding at or below the committed frontier must be refused, and a refusal must change nothing
	pid0, palh0 := st.PrecommittedAlh()
	if _, err := st.DiscardPrecommittedTxsSince(cid); err == nil && cid > 0 {
		rn.viol("discard/accepted-committed-tx", fmt.Sprintf("DiscardPrecommittedTxsSince(%d) accepted although %d is committed", cid, cid))
	} else if pid1, palh1 := st.PrecommittedAlh(); cid > 0 && (pid1 != pid0 || palh1 != palh0 || st.LastCommittedTxID() != cid) {
		rn.viol("discard/refused-with-effect", fmt.Sprintf("DiscardPrecommittedTxsSince(%d) was refused (%v) but moved the precommitted frontier from %d to %d", cid, err, pid0, pid1))
	}
	n, err := st.DiscardPrecommittedTxsSince(cid + 1)
	if err != nil {
		rn.viol("discard/error", fmt.Sprintf("DiscardPrecommittedTxsSince(%d): %v", cid+1, err))
	}
	rn.c.Eval(1)
	rn.c.Distinct(fmt.Sprintf("backlog/K=%d/allowed=%d/discarded=%d/%s", K, j, n, rn.cf.Name))
	if st.LastPrecommittedTxID() != cid {
		rn.viol("discard/precommitted-frontier", fmt.Sprintf("after discarding, precommitted frontier %d, committed %d", st.LastPrecommittedTxID(), cid))
	}
}

// leaveBacklog precommits a few txs that are never allowed to commit before the store is closed: the
// reopened store reloads them from the tx log, the next phase allows and commits them, and new txs
// are written after them (their committers were never acknowledged, so they are audited through the
// chain / TxReader checks over the whole committed range, not through the ledger).
func (rn *run) leaveBacklog(round int) {
	r := fw.NewRand(rn.c.Seed, fmt.Sprintf("c02/%s/round%d/leave-backlog", rn.cf.Name, round))
	st := rn.st
	base := st.LastPrecommittedTxID()
	st.AllowCommitUpto(base)
	K := 1 + r.IntN(3)
	ctx, cancel := context.WithCancel(context.Background())
	done := make(chan struct{}, K)
	for i := 0; i < K; i++ {
		es := rn.genEntries(r, 200+i)
		go func() {
			defer func() { done <- struct{}{} }()
			tx, err := st.NewWriteOnlyTx(ctx)
			if err != nil {
				return
			}
			for _, e := range es {
				tx.Set(e.Key, mdFrom(e.MD, r), e.Value)
			}
			tx.Commit(ctx) // returns when cancelled or when the store is closed
		}()
	}
	for i := 0; i < 20000 && st.LastPrecommittedTxID() < base+uint64(K); i++ {
		time.Sleep(100 * time.Microsecond)
	}
	cancel()
	for i := 0; i < K; i++ {
		<-done
	}
	if st.LastPrecommittedTxID() > st.LastCommittedTxID() {
		rn.c.Distinct(fmt.Sprintf("closed-with-precommitted-backlog/%d/%s", st.LastPrecommittedTxID()-st.LastCommittedTxID(), rn.cf.Name))
	}
}

// quiescent audit of everything acknowledged, against the live store and a cold copy
func (rn *run) quiescentAudit(label string, cold bool) {
	st := rn.st
	if rn.cf.ExtAllow {
		st.AllowCommitUpto(st.LastPrecommittedTxID())
	}
	if err := st.Sync(); err != nil && !errors.Is(err, store.ErrAlreadyClosed) {
		rn.c.Count("sync_errors", 1)
	}
	rn.auditStore(st, label+"/live")
	if cold && rn.cf.Synced {
		// only a synced store promises that what was acknowledged is already in the files
		cp := rn.c.Dir("cold")
		defer os.RemoveAll(cp)
		if err := sth.CopyDir(rn.dir, cp); err != nil {
			rn.c.Inconclusive("copy: " + err.Error())
			return
		}
		cs, err := store.Open(cp, rn.cf.options())
		if err != nil {
			rn.viol("coldcopy/open-failed", fmt.Sprintf("a synced copy of the store does not open: %v", err))
			return
		}
		rn.auditStore(cs, label+"/cold-copy")
		cs.Close()
	}
}

// a copy of the cleanly closed store, opened by a fresh instance (cold caches)
func (rn *run) coldAudit(label string) {
	cp := rn.c.Dir("cold")
	defer os.RemoveAll(cp)
	if err := sth.CopyDir(rn.dir, cp); err != nil {
		rn.c.Inconclusive("copy: " + err.Error())
		return
	}
	cs, err := store.Open(cp, rn.cf.options())
	if err != nil {
		rn.viol("coldcopy/open-failed", fmt.Sprintf("a copy of the cleanly closed store does not open: %v", err))
		return
	}
	rn.auditStore(cs, label)
	cs.Close()
}

func (rn *run) auditStore(st *store.ImmuStore, label string) {
	ids := rn.led.IDs()
	n := st.LastCommittedTxID()
	if len(ids) > 0 && ids[len(ids)-1] > n {
		rn.viol(label+"/acknowledged-beyond-committed", fmt.Sprintf("acknowledged tx %d but the committed frontier is %d", ids[len(ids)-1], n))
	}
	tx := store.NewTx(12, 48)
	for _, id := range ids {
		for _, p := range rn.led.AuditTx(st, tx, id, ledger.AuditOpts{TruncatedBelow: rn.truncBelow.Load(), Export: true}) {
			rn.viol(label+"/"+p.Sig, p.Detail)
		}
		rn.c.Eval(1)
	}
	// the whole committed range: dense, chained, linked; reported state = last alh
	hdrs := make([]*store.TxHeader, n)
	for id := uint64(1); id <= n; id++ {
		h, err := st.ReadTxHeader(id, false, false)
		if err != nil {
			rn.viol(label+"/chain/unreadable", fmt.Sprintf("ReadTxHeader(%d) inside the committed range 1..%d: %v", id, n, err))
			return
		}
		hdrs[id-1] = h
	}
	for _, p := range ledger.ChainProblems(hdrs) {
		rn.viol(label+"/"+p.Sig, p.Detail)
	}
	rn.c.Eval(int(n))
	cid, calh := st.CommittedAlh()
	if cid != n || (n > 0 && calh != hdrs[n-1].Alh()) {
		rn.viol(label+"/state/not-last-alh", fmt.Sprintf("CommittedAlh reports (%d, %x); last committed tx is %d with alh %x", cid, calh[:6], n, hdrs[max(int(n), 1)-1].Alh()))
	}
	// ascending and descending TxReader agree with the headers
	for _, desc := range []bool{false, true} {
		if n == 0 {
			break
		}
		init := uint64(1)
		if desc {
			init = n
		}
		rd, err := st.NewTxReader(init, desc, store.NewTx(12, 48))
		if err != nil {
			rn.viol(label+"/txreader/error", err.Error())
			continue
		}
		cnt := uint64(0)
		for {
			t, err := rd.Read()
			if err != nil {
				if !errors.Is(err, store.ErrNoMoreEntries) {
					rn.viol(label+"/txreader/error", fmt.Sprintf("TxReader(desc=%v) after %d txs: %v", desc, cnt, err))
				}
				break
			}
			cnt++
			want := init + cnt - 1
			if desc {
				want = init - (cnt - 1)
			}
			if t.Header().ID != want || t.Header().Alh() != hdrs[want-1].Alh() {
				rn.viol(label+"/txreader/differs", fmt.Sprintf("TxReader(desc=%v) position %d returned tx %d", desc, cnt, t.Header().ID))
				break
			}
		}
		if cnt != n {
			rn.viol(label+"/txreader/count", fmt.Sprintf("TxReader(desc=%v) returned %d of %d txs", desc, cnt, n))
		}
		rn.c.Eval(1)
	}
	// retrospective check of every sampled state
	rn.smu.Lock()
	for id, alh := range rn.samples {
		if id <= n && hdrs[id-1].Alh() != alh {
			rn.viol(label+"/state/sample-not-on-chain", fmt.Sprintf("CommittedAlh once reported (%d, %x) but tx %d has alh %x", id, alh[:6], id, hdrs[id-1].Alh()))
		}
	}
	rn.smu.Unlock()
}

func runConfig(c *fw.Ctx, cf config, rounds, opsPerRound int) {
	rn := &run{c: c, cf: cf, dir: c.Dir("c02-" + cf.Name), led: ledger.New(), issued: map[uint64][32]byte{}, commAlh: map[uint64][32]byte{}, samples: map[uint64][32]byte{}}
	defer os.RemoveAll(rn.dir)
	current.Store(rn)
	defer current.Store(nil)
	if err := rn.open(); err != nil {
		c.Inconclusive("open: " + err.Error())
		return
	}
	for round := 0; round < rounds; round++ {
		rn.concurrentPhase(round, opsPerRound)
		if cf.ExtAllow {
			rn.quiescentAudit(fmt.Sprintf("round%d-pre-backlog", round), false)
			rn.backlogPhase(round)
		}
		rn.quiescentAudit("quiescent", round%2 == 1)
		if round < rounds-1 {
			// close / reopen cycle
			if cf.ExtAllow {
				rn.leaveBacklog(round)
			}
			if err := rn.st.Close(); err != nil {
				rn.viol("close/error", err.Error())
			}
			rn.coldAudit("closed-copy")
			rn.nmu.Lock()
			rn.issued = map[uint64][32]byte{}
			rn.nmu.Unlock()
			if err := rn.open(); err != nil {
				rn.viol("reopen/failed", fmt.Sprintf("store does not reopen after a clean close: %v", err))
				return
			}
			rn.quiescentAudit("after-reopen", false)
			c.Distinct("reopen/" + cf.Name)
		}
	}
	rn.st.Close()
	if rn.timeouts.Load() > 0 {
		c.Inconclusive(fmt.Sprintf("[%s] %d operations did not return within 20 s (store stopped making progress)", cf, rn.timeouts.Load()))
	}
	c.Count("acks", rn.acks.Load())
	c.Count("refused", rn.refused.Load())
	c.Count("read_conflicts", rn.conflicts.Load())
	c.Sample(map[string]any{"config": cf.String(), "acknowledged": rn.led.Len(), "refused_or_failed": rn.refused.Load(), "states_sampled": len(rn.samples)})
}

type caseSpec struct {
	Cf     config
	Rounds int
	Ops    int
}

func init() {
	fw.RegisterIsolated("c02-config", func(c *fw.Ctx, data []byte) {
		var cs caseSpec
		if err := json.Unmarshal(data, &cs); err != nil {
			c.Inconclusive("bad case: " + err.Error())
			return
		}
		h := hook.Install(&hook.Config{Seed: c.Seed + int64(len(cs.Cf.Name)), Perturb: 0.25, MaxSleep: 400 * time.Microsecond,
			OnNote: func(site string, a, b uint64, hh [32]byte) {
				if rn := current.Load(); rn != nil {
					rn.onNote(site, a, b, hh)
				}
			},
			FaultFn: func(site string, _ uint64) error {
				if rn := current.Load(); rn != nil {
					return rn.fault(site)
				}
				return nil
			}})
		defer hook.Uninstall()
		runConfig(c, cs.Cf, cs.Rounds, cs.Ops)
		hits := h.Hits()
		hm := map[string]uint64{}
		for k, v := range hits {
			hm[k] = v
		}
		c.Set("hook_site_hits", hm)
		for _, tr := range h.Interleavings() {
			c.Distinct("interleaving/" + tr)
		}
		if hits["store.precommit.beforeLock"] == 0 || hits["note:store.issued"] == 0 {
			c.Inconclusive("hook sites never reached: was the harness built with -tags verif?")
		}
	})
}

func Run(c *fw.Ctx) {
	c.Rule = "PRNG store configurations × rounds of concurrent committers (12 op kinds) + maintenance + auditor, with hook-point perturbation, one child process per configuration; an evaluation is one acknowledged tx re-read and compared (or one chain/state/TxReader check); distinct = (op kind × configuration), backlog shapes, reopen cycles and hook-site interleaving transitions observed"
	c.Assume("only acknowledged commits are required to persist; values below a truncation cut may become unreadable, never different")
	c.Assume("SHA-256 and the RFC 6962 tree definition for BlRoot")
	r := c.Rand("c02/configs")
	nconf := c.N(8, 64)
	var cases [][]byte
	for i := 0; i < nconf; i++ {
		cf := genConfig(r, i)
		cf.Name = fmt.Sprintf("cfg%d", i)
		cf.Faults = (i%4 == 1 || i%4 == 2) && os.Getenv("VERIF_C02_FAULTS") != "0"
		b, _ := json.Marshal(caseSpec{Cf: cf, Rounds: c.N(3, 4), Ops: c.N(220, 1200)})
		cases = append(cases, b)
	}
	c.RunIsolated("c02-config", cases, fw.CasesOpts{Workers: 8, CaseTimout: 10 * time.Minute})
}

// run whose store is live (notes are routed to it)
var current atomic.Pointer[run]
