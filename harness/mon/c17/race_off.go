//go:build !race

package c17

const raceBuild = false
