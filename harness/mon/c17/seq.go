package c17

import (
	"bytes"
	"encoding/binary"
	"encoding/json"
	"errors"
	"fmt"
	"io"
	"math/rand/v2"
	"os"
	"path/filepath"
	"runtime/debug"
	"strings"
	"sync"
	"sync/atomic"

	"github.com/codenotary/immudb/embedded/appendable"
	"github.com/codenotary/immudb/embedded/appendable/multiapp"
	"github.com/codenotary/immudb/embedded/appendable/singleapp"
	"github.com/codenotary/immudb/embedded/cache"

	"verifharness/internal/fw"
)

const (
	maxAppend   = 32 << 10
	maxRead     = 32 << 10
	singleCap   = 256 << 10
	multiChunks = 40
	multiCapMax = 512 << 10
)

type entry struct {
	off  int64
	data []byte
}

type seq struct {
	c    *fw.Ctx
	id   int
	r    *rand.Rand
	cf   config
	kind string
	fs   *faultState
	dir  string
	path string

	app    appendable.Appendable
	ro     bool
	closed bool
	dead   atomic.Bool
	base   int64 // header length of every file of this appendable
	opNo   atomic.Int32

	// model; mu orders publication to reader goroutines (the writer is the only mutator)
	mu       sync.Mutex
	data     []byte
	ents     []entry
	vsize    int64 // compressed: size as observed after the last successful operation
	curChunk int64 // compressed multiapp: chunk holding the last entry start
	maxChunk int64 // compressed multiapp: furthest chunk ever written
	disc     int64
	hwm      int64
	stale    atomic.Bool // physical files may hold bytes beyond the logical end

	appendNo int
	copies   int

	tmu   sync.Mutex
	trace []string
}

func newSeq(c *fw.Ctx, id int, r *rand.Rand, cf config, fs *faultState) *seq {
	s := &seq{c: c, id: id, r: r, cf: cf, kind: cf.kind(), fs: fs}
	s.dir = c.Dir(fmt.Sprintf("seq%d", id))
	if cf.Multi {
		s.path = filepath.Join(s.dir, "app")
	} else {
		s.path = filepath.Join(s.dir, "app.aof")
	}
	return s
}

func (s *seq) comp() bool { return s.cf.Comp != appendable.NoCompression }

func (s *seq) msize() int64 {
	if s.comp() {
		return s.vsize
	}
	return int64(len(s.data))
}

func (s *seq) unit() int64 { // structural unit: chunk size (multi) or write-buffer size (single)
	if s.cf.Multi {
		return int64(s.cf.FileSize)
	}
	return int64(s.cf.WBuf)
}

func (s *seq) tail() string {
	switch {
	case s.cf.Prealloc:
		return "prealloc"
	case s.stale.Load():
		return "stale-tail"
	}
	return "clean"
}

func (s *seq) tr(format string, a ...any) {
	s.tmu.Lock()
	s.trace = append(s.trace, fmt.Sprintf("%4d ", s.opNo.Load())+fmt.Sprintf(format, a...))
	s.tmu.Unlock()
}

// baseKind drops the "+comp" suffix: used for defect classes that do not depend on compression.
func (s *seq) baseKind() string {
	if s.cf.Multi {
		return "multi"
	}
	return "single"
}

func (s *seq) violation(sig, detail string, fatal bool) { s.violationK(s.kind, sig, detail, fatal) }

func (s *seq) violationK(kind, sig, detail string, fatal bool) {
	if fatal {
		s.dead.Store(true)
	}
	s.tmu.Lock()
	tr := strings.Join(s.trace, "\n") + "\n"
	s.tmu.Unlock()
	cfb, _ := json.MarshalIndent(s.cf, "", " ")
	s.c.Violation(kind+"/"+sig, fmt.Sprintf("seq %d op %d (%s, tail=%s): %s", s.id, s.opNo.Load(), s.cfString(), s.tail(), detail),
		map[string][]byte{"config.json": cfb, "trace.txt": []byte(tr)})
}

func (s *seq) cfString() string {
	return fmt.Sprintf("multi=%v fileSize=%d wbuf=%d retry=%v auto=%v prealloc=%v/%d comp=%d maxOpen=%d faults=%v",
		s.cf.Multi, s.cf.FileSize, s.cf.WBuf, s.cf.Retry, s.cf.Auto, s.cf.Prealloc, s.cf.PreSize, s.cf.Comp, s.cf.MaxOpen, s.cf.Faults)
}

// guard runs one call into immudb; a panic becomes a violation "<func>/<kind>".
func (s *seq) guard(op string, f func()) bool {
	p, sig, text := fw.Guard(f)
	if p {
		s.dead.Store(true)
		s.tmu.Lock()
		tr := strings.Join(s.trace, "\n") + "\n"
		s.tmu.Unlock()
		cfb, _ := json.MarshalIndent(s.cf, "", " ")
		s.c.Violation(sig, fmt.Sprintf("seq %d op %d %s (%s): %s", s.id, s.opNo.Load(), op, s.cfString(), text),
			map[string][]byte{"config.json": cfb, "trace.txt": []byte(tr)})
		return false
	}
	return true
}

func (s *seq) distinct(op, buf, pos, outcome string) {
	s.c.Distinct(s.kind + "|" + op + "|" + buf + "|" + pos + "|" + outcome)
}

// ---- fault arming ----

func (s *seq) arm() {
	if !s.cf.Faults || s.r.IntN(5) != 0 {
		return
	}
	s.fs.armed = true
	s.fs.fired = false
	s.fs.skip = pick(s.r, 0, 0, 0, 1, 2)
	s.fs.site = []string{"", "singleapp.write", "singleapp.sync"}[s.r.IntN(3)]
}

func (s *seq) disarm() bool {
	fired := s.fs.fired
	s.fs.armed = false
	s.fs.fired = false
	if fired {
		s.stale.Store(true)
		s.c.Count("faults_fired", 1)
		s.c.Count("faults_fired_"+s.fs.site2, 1)
		s.tr("  (injected error at %s)", s.fs.site2)
	}
	return fired
}

// ---- open / close ----

func (s *seq) openApp(path string, readOnly bool) (app appendable.Appendable, err error) {
	cf := &s.cf
	if cf.Multi {
		o := multiapp.DefaultOptions().
			WithReadOnly(readOnly).
			WithRetryableSync(cf.Retry).WithAutoSync(cf.Auto).
			WithFileSize(cf.FileSize).WithFileExt("aof").
			WithMaxOpenedFiles(cf.MaxOpen).
			WithCompressionFormat(cf.Comp).WithCompresionLevel(cf.Level).
			WithReadBufferSize(cf.RBuf).WithWriteBufferSize(cf.WBuf).
			WithPrealloc(cf.Prealloc).
			WithMetadata(cf.Meta)
		var a *multiapp.MultiFileAppendable
		s.guard("multiapp.Open", func() { a, err = multiapp.Open(path, o) })
		if a == nil {
			return nil, err
		}
		return a, err
	}
	o := singleapp.DefaultOptions().
		WithReadOnly(readOnly).
		WithRetryableSync(cf.Retry).WithAutoSync(cf.Auto).
		WithCompressionFormat(cf.Comp).WithCompresionLevel(cf.Level).
		WithReadBufferSize(cf.RBuf).
		WithPreallocSize(cf.PreSize).
		WithMetadata(cf.Meta)
	if !readOnly {
		o.WithWriteBuffer(make([]byte, cf.WBuf))
	}
	var a *singleapp.AppendableFile
	s.guard("singleapp.Open", func() { a, err = singleapp.Open(path, o) })
	if a == nil {
		return nil, err
	}
	return a, err
}

func sameMeta(a, b []byte) bool { return bytes.Equal(a, b) } // nil and empty are the same metadata

// checkOpened compares what a fresh handle reports with the model. Returns the reported size.
func (s *seq) checkOpened(app appendable.Appendable, what string) (int64, bool) {
	var meta []byte
	var cfmt int
	var sz int64
	var err error
	if !s.guard(what+"/Metadata", func() { meta = app.Metadata(); cfmt = app.CompressionFormat(); sz, err = app.Size() }) {
		return 0, false
	}
	s.c.Eval(3)
	outcome := "same"
	if !sameMeta(meta, s.cf.Meta) && len(s.cf.Meta) >= 3000 {
		s.violationK(s.baseKind(), "reopen/large-metadata-not-read-back", fmt.Sprintf("metadata of %d bytes after %s: got %d bytes, equal=false", len(s.cf.Meta), what, len(meta)), true)
		return sz, false
	}
	if !sameMeta(meta, s.cf.Meta) {
		s.violation(what+"/metadata-differs", fmt.Sprintf("metadata after %s: got %x want %x", what, meta, s.cf.Meta), true)
		return sz, false
	}
	if cfmt != s.cf.Comp {
		s.violation(what+"/compression-format-differs", fmt.Sprintf("compression format after %s: got %d want %d", what, cfmt, s.cf.Comp), true)
		return sz, false
	}
	L := s.msize()
	if err != nil {
		s.violation(what+"/size-error", fmt.Sprintf("Size() after %s: %v", what, err), true)
		return sz, false
	}
	switch {
	case sz != L && s.tail() == "stale-tail" && (sz > L || (s.comp() && s.cf.Multi)):
		// SetOffset moved the end back but nothing truncates the file / removes the later chunk
		// files: an open sees the old end again (with over-long compressed chunks the size seen
		// may also be smaller). The property exempts only preallocated files.
		s.c.Count("stale_tail_resurrected", 1)
		s.violationK(s.baseKind(), "reopen/stale-tail-resurrected", fmt.Sprintf("Size() after %s = %d, but the log was rewound with SetOffset and holds %d bytes: the bytes cut off by SetOffset are back", what, sz, L), false)
		outcome = "stale-tail-resurrected"
	case sz != L && s.comp() && s.cf.Multi && s.tail() == "prealloc":
		outcome = "differs(prealloc)"
	case sz < L:
		s.violation(what+"/size-shrunk/"+s.tail(), fmt.Sprintf("Size() after %s = %d, model has %d bytes", what, sz, L), true)
		return sz, false
	case sz > L && s.tail() == "clean":
		s.violation(what+"/size-grew/clean", fmt.Sprintf("Size() after %s = %d, model has %d bytes (never rewound, not preallocated)", what, sz, L), true)
		return sz, false
	case sz > L:
		outcome = "larger(" + s.tail() + ")"
	}
	s.distinct(what, s.tail(), "-", outcome)
	return sz, true
}

func (s *seq) openFresh() bool {
	app, err := s.openApp(s.path, false)
	if s.dead.Load() {
		return false
	}
	if err != nil {
		s.violation("open/error", fmt.Sprintf("creating: %v", err), true)
		return false
	}
	s.app = app
	// header length (identical for every chunk file: same metadata)
	first := s.path
	if s.cf.Multi {
		first = filepath.Join(s.path, fmt.Sprintf("%08d.aof", 0))
	}
	if f, err := os.Open(first); err == nil {
		var l [4]byte
		if _, err := io.ReadFull(f, l[:]); err == nil {
			s.base = 4 + int64(binary.BigEndian.Uint32(l[:]))
		}
		f.Close()
	}
	s.tr("open fresh")
	sz, ok := s.checkOpened(app, "create")
	if !ok {
		return false
	}
	if sz > 0 {
		if !s.cf.Prealloc {
			s.violation("create/nonzero-size", fmt.Sprintf("fresh appendable reports size %d", sz), true)
			return false
		}
		return s.rewindTo(0, "create")
	}
	return true
}

// rewindTo re-establishes the logical end after an open that reported a larger size.
func (s *seq) rewindTo(L int64, what string) bool {
	if s.comp() && s.cf.Multi && len(s.ents) > 0 && L >= (s.curChunk+1)*int64(s.cf.FileSize) {
		// the last compressed entry ran past its chunk: its end is not an address of that chunk;
		// rewind to the entry's own offset instead (the entry leaves the model)
		last := s.ents[len(s.ents)-1]
		s.mu.Lock()
		s.ents = s.ents[: len(s.ents)-1 : len(s.ents)-1]
		s.vsize = last.off
		s.curChunk = last.off / int64(s.cf.FileSize)
		s.mu.Unlock()
		L = last.off
		s.c.Count("rewind_to_last_entry_after_overflow", 1)
	}
	var err error
	if !s.guard(what+"/SetOffset", func() { err = s.app.SetOffset(L) }) {
		return false
	}
	s.c.Eval(1)
	if err != nil {
		s.violation(what+"/setoffset-to-model-size-failed", fmt.Sprintf("SetOffset(%d): %v", L, err), true)
		return false
	}
	s.stale.Store(true)
	return s.checkSize(what + "+setoffset")
}

func (s *seq) checkSize(after string) bool {
	var sz, off int64
	var err error
	if !s.guard("Size", func() { sz, err = s.app.Size(); off = s.app.Offset() }) {
		return false
	}
	s.c.Eval(1)
	L := s.msize()
	if err != nil || sz != L || off != L {
		s.violation("size/after-"+after, fmt.Sprintf("after %s: Size()=%d (err %v) Offset()=%d, model %d", after, sz, err, off, L), true)
		return false
	}
	return true
}

// flushedEnd is the logical end of the bytes physically present in the file(s),
// observed with stat; -1 when unknown (files may hold bytes beyond the logical end).
func (s *seq) flushedEnd() int64 {
	if s.tail() != "clean" || s.base == 0 {
		return -1
	}
	if !s.cf.Multi {
		st, err := os.Stat(s.path)
		if err != nil {
			return -1
		}
		return st.Size() - s.base
	}
	L, fsz := s.msize(), int64(s.cf.FileSize)
	c := int64(0)
	if s.comp() {
		c = s.curChunk
	} else if L > 0 {
		c = (L - 1) / fsz
	}
	st, err := os.Stat(filepath.Join(s.path, fmt.Sprintf("%08d.aof", c)))
	if err != nil {
		return c * fsz
	}
	return c*fsz + st.Size() - s.base
}

func (s *seq) bufState() string {
	fe := s.flushedEnd()
	switch {
	case fe < 0:
		return s.tail()
	case fe >= s.msize():
		return "flushed"
	}
	return "buffered"
}

func (s *seq) rangeState(a, b int64) string {
	fe := s.flushedEnd()
	switch {
	case fe < 0:
		return s.tail()
	case b <= fe:
		return "file"
	case a >= fe:
		return "buffer"
	}
	return "file+buffer"
}

// rangePos classifies [a,b) against chunk boundaries (multi) or the write-buffer size (single).
func (s *seq) rangePos(a, b int64) string {
	u := s.unit()
	n := b - a
	if !s.cf.Multi {
		switch {
		case n < u:
			return "lt-wbuf"
		case n == u:
			return "eq-wbuf"
		case n <= 2*u:
			return "gt-wbuf"
		}
		return "gt-2wbuf"
	}
	if n <= 0 {
		if a%u == 0 {
			return "at-boundary"
		}
		return "inside"
	}
	ca, cb := a/u, (b-1)/u
	switch {
	case ca == cb && a%u == 0 && b%u == 0:
		return "whole-chunk"
	case ca == cb && a%u == 0:
		return "from-chunk-start"
	case ca == cb && b%u == 0:
		return "to-chunk-end"
	case ca == cb:
		return "inside"
	case cb-ca == 1:
		return "cross-1"
	}
	return "cross-many"
}

func errClass(err error) string {
	switch {
	case err == nil:
		return "ok"
	case errors.Is(err, errInjected):
		return "injected"
	case errors.Is(err, io.EOF):
		return "eof"
	case errors.Is(err, singleapp.ErrBufferFull):
		return "buffer-full"
	case errors.Is(err, singleapp.ErrReadOnly), errors.Is(err, multiapp.ErrReadOnly):
		return "read-only"
	case errors.Is(err, singleapp.ErrAlreadyClosed), errors.Is(err, multiapp.ErrAlreadyClosed):
		return "already-closed"
	case errors.Is(err, singleapp.ErrIllegalArguments), errors.Is(err, multiapp.ErrIllegalArguments):
		return "illegal-arguments"
	case errors.Is(err, singleapp.ErrNegativeOffset):
		return "negative-offset"
	case errors.Is(err, os.ErrNotExist):
		return "not-exist"
	case errors.Is(err, cache.ErrKeyNotFound):
		return "cache-key-not-found"
	}
	return "other"
}

// ---- data generation ----

func (s *seq) genBytes(n int) []byte {
	b := make([]byte, n)
	s.appendNo++
	switch s.r.IntN(3) {
	case 0:
		for i := 0; i < n; i += 8 {
			v := s.r.Uint64() | 0x0101010101010101 // no zero bytes: preallocated zeros stay distinguishable
			for j := 0; j < 8 && i+j < n; j++ {
				b[i+j] = byte(v >> (8 * j))
			}
		}
	case 1:
		for i := 0; i < n; {
			run := 1 + s.r.IntN(40)
			v := byte(1 + s.r.IntN(255))
			for j := 0; j < run && i < n; j++ {
				b[i] = v
				i++
			}
		}
	default:
		k := byte(s.appendNo*37 + 1)
		for i := range b {
			b[i] = k + byte(i)
			if b[i] == 0 {
				b[i] = 0xAA
			}
		}
	}
	return b
}

func (s *seq) capBytes() int64 {
	if !s.cf.Multi {
		return singleCap
	}
	c := int64(multiChunks) * int64(s.cf.FileSize)
	if c > multiCapMax {
		c = multiCapMax
	}
	return s.disc + c
}

func (s *seq) appendLen() int {
	w := s.cf.WBuf
	L := s.msize()
	fsz := s.cf.FileSize
	n := 1
	k := s.r.IntN(10)
	if !s.cf.Multi && (k == 4 || k == 5) {
		k = 6 + s.r.IntN(4)
	}
	switch k {
	case 0:
		n = 1
	case 1:
		n = 1 + s.r.IntN(16)
	case 2:
		n = w + s.r.IntN(3) - 1
	case 3:
		n = 1 + s.r.IntN(2*w)
	case 4: // up to the chunk end, one less, one more
		rem := fsz - int(L%int64(fsz))
		n = rem + s.r.IntN(3) - 1
	case 5: // spanning several chunks
		n = fsz*(1+s.r.IntN(3)) + s.r.IntN(fsz)
	case 6:
		n = 2*w + s.r.IntN(w+1)
	default:
		n = 1 + s.r.IntN(2048)
	}
	if n < 1 {
		n = 1
	}
	if n > maxAppend {
		n = maxAppend
	}
	if s.cf.Retry && s.cf.Auto && n > 24*w {
		n = 24 * w // retryable auto-sync: one fsync per full write buffer
	}
	if room := s.capBytes() - L; int64(n) > room {
		n = int(room)
	}
	return n
}

// ---- operations ----

func (s *seq) opAppend() {
	n := s.appendLen()
	if n <= 0 {
		if s.comp() {
			s.opSetOffset()
		} else {
			s.opSetOffsetTo(s.disc+(s.msize()-s.disc)/2*int64(s.r.IntN(2)), "cap")
		}
		return
	}
	bs := s.genBytes(n)
	if s.comp() {
		s.appendCompressed(bs)
		return
	}
	prev := int64(len(s.data))
	buf, pos := s.bufState(), s.rangePos(prev, prev+int64(n))
	s.tr("Append(len=%d) at %d", n, prev)
	s.arm()
	var off int64
	var wn int
	var err error
	ok := s.guard("Append", func() { off, wn, err = s.app.Append(bs) })
	fired := s.disarm()
	if !ok {
		return
	}
	s.c.Eval(1)
	if err == nil {
		if off != prev {
			s.violation("append/offset-not-previous-size", fmt.Sprintf("Append(%d bytes) returned offset %d, previous size %d (%s,%s)", n, off, prev, buf, pos), true)
			return
		}
		if wn != n {
			s.violation("append/count", fmt.Sprintf("Append(%d bytes) returned n=%d without error", n, wn), true)
			return
		}
		s.mu.Lock()
		s.data = append(s.data, bs...)
		if int64(len(s.data)) > s.hwm {
			s.hwm = int64(len(s.data))
		}
		s.mu.Unlock()
		s.distinct("append", buf, pos, "ok")
		s.checkSize("append")
		return
	}
	bufFull := s.cf.Retry && !s.cf.Auto && errors.Is(err, singleapp.ErrBufferFull)
	if !fired && !bufFull {
		s.violation("append/unexpected-error", fmt.Sprintf("Append(%d bytes) at %d (%s,%s): n=%d err=%v", n, prev, buf, pos, wn, err), true)
		return
	}
	// a failed append acknowledged wn bytes; resynchronise from the size the appendable reports
	var sz int64
	var serr error
	if !s.guard("Size", func() { sz, serr = s.app.Size() }) {
		return
	}
	lo := prev + int64(wn)
	if s.cf.Multi {
		lo = prev // the multiapp count leaves out the bytes accepted by the failing chunk append
		if int64(wn) < 0 {
			lo = prev
		}
	}
	if serr != nil || sz < lo || sz > prev+int64(n) || (!s.cf.Multi && sz != prev+int64(wn)) {
		s.violation("append/size-after-failed-append", fmt.Sprintf("Append(%d bytes) at %d failed (n=%d err=%v); Size()=%d err=%v", n, prev, wn, err, sz, serr), true)
		return
	}
	s.mu.Lock()
	s.data = append(s.data, bs[:sz-prev]...)
	if int64(len(s.data)) > s.hwm {
		s.hwm = int64(len(s.data))
	}
	s.mu.Unlock()
	s.distinct("append", buf, pos, "err:"+errClass(err))
	s.settle("append", fired)
}

func (s *seq) appendCompressed(bs []byte) {
	prev := s.vsize
	fsz := int64(s.cf.FileSize)
	buf := s.bufState()
	s.tr("Append(entry len=%d) size=%d", len(bs), prev)
	var off int64
	var wn int
	var err error
	if !s.guard("Append", func() { off, wn, err = s.app.Append(bs) }) {
		return
	}
	s.c.Eval(1)
	if err != nil {
		s.violation("append/unexpected-error", fmt.Sprintf("Append(entry of %d bytes) at %d: n=%d err=%v", len(bs), prev, wn, err), true)
		return
	}
	want, pos := prev, "fits"
	if s.cf.Multi && prev >= (s.curChunk+1)*fsz {
		// the previous compressed entry ran past the chunk size: the next entry starts the next chunk
		want = (s.curChunk + 1) * fsz
		pos = "after-overflow"
		if prev == want {
			pos = "at-boundary"
		}
		s.c.Count("compressed_chunk_overflows", 1)
	}
	if off != want {
		s.violation("append/offset-not-previous-size", fmt.Sprintf("Append(entry) returned offset %d, expected %d (previous size %d, chunk %d)", off, want, prev, s.curChunk), true)
		return
	}
	var sz, o2 int64
	var serr error
	if !s.guard("Size", func() { sz, serr = s.app.Size(); o2 = s.app.Offset() }) {
		return
	}
	s.c.Eval(1)
	// singleapp counts the stored bytes (length prefix + compressed payload), multiapp the payload given
	badN := (!s.cf.Multi && (wn <= 4 || sz != off+int64(wn))) || (s.cf.Multi && wn != len(bs))
	if serr != nil || sz <= off+4 || o2 != sz || badN {
		s.violation("size/after-append", fmt.Sprintf("compressed Append at %d wrote n=%d; Size()=%d err=%v Offset()=%d", off, wn, sz, serr, o2), true)
		return
	}
	s.mu.Lock()
	s.ents = append(s.ents, entry{off, bs})
	s.vsize = sz
	if s.cf.Multi {
		// virtual sizes are not monotonic across an over-long chunk: track the furthest chunk
		// ever written and the furthest size inside it
		s.curChunk = off / fsz
		if s.curChunk > s.maxChunk {
			s.maxChunk, s.hwm = s.curChunk, sz
		} else if s.curChunk == s.maxChunk && sz > s.hwm {
			s.hwm = sz
		}
	} else if sz > s.hwm {
		s.hwm = sz
	}
	s.mu.Unlock()
	s.distinct("append", buf, pos, "ok")
}

// settle: after an injected failure the operation is retried; a Sync without faults must succeed
// and the bytes must still equal the model.
func (s *seq) settle(what string, fired bool) {
	if s.dead.Load() || s.ro {
		return
	}
	if fired && s.r.IntN(2) == 0 {
		s.opRead() // read inside the window between the failure and the retry
		if s.dead.Load() {
			return
		}
	}
	var err error
	if !s.guard("Sync", func() { err = s.app.Sync() }) {
		return
	}
	s.c.Eval(1)
	if err != nil {
		s.violation("sync/retry-failed", fmt.Sprintf("Sync after failed %s: %v", what, err), true)
		return
	}
	s.tr("  Sync (retry) ok")
	s.flushed()
	if !s.checkSize("retried-sync") {
		return
	}
	if fired {
		s.c.Count("retried_after_fault", 1)
		span := int64(2*s.cf.WBuf + 64)
		if s.cf.Multi {
			span += int64(s.cf.FileSize)
		}
		s.verify(s.app, "retried-sync", span)
		s.distinct("retry-after-fault", what, s.fs.site2, "ok")
	}
}

// flushed: a Flush/Sync/SwitchToReadOnlyMode succeeded: everything logical is in the files.
func (s *seq) flushed() {
	L := s.msize()
	s.mu.Lock()
	if s.comp() && s.cf.Multi {
		if s.curChunk == s.maxChunk && L >= s.hwm {
			s.hwm = L
			s.stale.Store(false)
		}
	} else if L >= s.hwm {
		s.hwm = L
		s.stale.Store(false)
	}
	s.mu.Unlock()
}

func (s *seq) opFlushSync(sync bool) {
	name := "flush"
	if sync {
		name = "sync"
	}
	buf := s.bufState()
	s.tr("%s", name)
	s.arm()
	var err error
	ok := s.guard(name, func() {
		if sync {
			err = s.app.Sync()
		} else {
			err = s.app.Flush()
		}
	})
	fired := s.disarm()
	if !ok {
		return
	}
	s.c.Eval(1)
	if s.ro {
		// not judged beyond "nothing changes": the property does not say what write calls return in read-only mode
		s.distinct(name, "read-only", "-", errClass(err))
		s.checkSize(name + "-in-read-only")
		return
	}
	if err != nil {
		if !fired {
			s.violation(name+"/unexpected-error", fmt.Sprintf("%s with %s buffer: %v", name, buf, err), true)
			return
		}
		s.distinct(name, buf, "-", "err:injected")
		if !s.checkSize("failed-" + name) {
			return
		}
		s.settle(name, true)
		return
	}
	s.flushed()
	s.distinct(name, buf, "-", "ok")
	if s.checkSize(name) && fired {
		// the injected error was absorbed; the bytes must still be there
		s.settle(name, true)
	}
}

func (s *seq) opSetOffset() {
	L := s.msize()
	var k int64
	if s.comp() {
		// only entry offsets (or the end) are meaningful addresses
		var cands []int64
		for i := len(s.ents) - 1; i >= 0 && len(cands) < 8; i-- {
			if s.ents[i].off >= s.disc {
				cands = append(cands, s.ents[i].off)
			}
		}
		if len(cands) == 0 || s.r.IntN(6) == 0 {
			k = L
		} else {
			k = cands[s.r.IntN(len(cands))]
		}
		s.opSetOffsetTo(k, "entry")
		return
	}
	u := s.unit()
	switch s.r.IntN(8) {
	case 0:
		k = L
	case 1: // beyond the end: must be refused
		k = L + 1 + s.r.Int64N(u)
	case 2: // a short way back (likely inside the write buffer)
		k = L - s.r.Int64N(int64(s.cf.WBuf)+1)
	case 3: // chunk / buffer boundary
		k = (s.r.Int64N(L/u+1))*u + int64(s.r.IntN(3)) - 1
	case 4:
		k = L - 1
	default:
		k = s.disc + s.r.Int64N(L-s.disc+1)
	}
	if k < s.disc {
		k = s.disc
	}
	if k < 0 {
		k = 0
	}
	s.opSetOffsetTo(k, "")
}

func (s *seq) opSetOffsetTo(k int64, why string) {
	L := s.msize()
	buf := s.bufState()
	fe := s.flushedEnd()
	pos := "same-chunk"
	u := s.unit()
	switch {
	case k > L:
		pos = "beyond-end"
	case k == L:
		pos = "noop"
	case s.cf.Multi && (L == 0 || k/u != (L-1)/u) && k%u == 0:
		pos = "earlier-chunk-start"
	case s.cf.Multi && k/u != (L-1)/u:
		pos = "earlier-chunk"
	case k%u == 0:
		pos = "unit-start"
	}
	if fe >= 0 && k < L {
		if k >= fe {
			pos += "/into-buffer"
		} else {
			pos += "/into-file"
		}
	}
	s.tr("SetOffset(%d) size=%d %s", k, L, why)
	s.arm()
	var err error
	ok := s.guard("SetOffset", func() { err = s.app.SetOffset(k) })
	fired := s.disarm()
	if !ok {
		return
	}
	s.c.Eval(1)
	if s.ro {
		s.distinct("setoffset", "read-only", pos, errClass(err))
		s.checkSize("setoffset-in-read-only")
		return
	}
	if k > L {
		if err == nil {
			s.violation("setoffset/beyond-end-accepted", fmt.Sprintf("SetOffset(%d) with size %d returned nil", k, L), true)
			return
		}
		s.distinct("setoffset", buf, pos, "refused")
		s.checkSize("refused-setoffset")
		return
	}
	if err != nil {
		if !fired {
			s.violation("setoffset/unexpected-error", fmt.Sprintf("SetOffset(%d) with size %d (%s,%s): %v", k, L, buf, pos, err), true)
			return
		}
		s.distinct("setoffset", buf, pos, "err:injected")
		if !s.checkSize("failed-setoffset") {
			return
		}
		// retry without faults
		if !s.guard("SetOffset", func() { err = s.app.SetOffset(k) }) {
			return
		}
		s.c.Eval(1)
		if err != nil {
			s.violation("setoffset/retry-failed", fmt.Sprintf("SetOffset(%d) retried after an injected error: %v", k, err), true)
			return
		}
	}
	if k < L {
		s.stale.Store(true)
	}
	s.mu.Lock()
	if s.comp() {
		i := len(s.ents)
		for i > 0 && s.ents[i-1].off >= k {
			i--
		}
		s.ents = s.ents[:i:i]
		s.vsize = k
		if s.cf.Multi && k < L {
			s.curChunk = k / int64(s.cf.FileSize)
		}
	} else {
		s.data = s.data[:k:k] // later appends must not overwrite bytes a reader snapshot still refers to
	}
	s.mu.Unlock()
	s.distinct("setoffset", buf, pos, "ok")
	if s.checkSize("setoffset") && fired {
		s.settle("setoffset", true)
	}
}

func (s *seq) opDiscard() {
	L := s.msize()
	var off int64
	if s.comp() {
		off = L
		if n := len(s.ents); n > 0 && s.r.IntN(8) > 0 {
			off = s.ents[s.r.IntN(n)].off
		}
	} else {
		u := s.unit()
		switch s.r.IntN(6) {
		case 0:
			off = L
		case 1:
			off = L + 1 + s.r.Int64N(u) // beyond: must be refused
		case 2:
			off = (s.r.Int64N(L/u + 1)) * u
		default:
			off = s.r.Int64N(L + 1)
		}
	}
	if s.comp() && s.r.IntN(10) == 0 {
		off = L + 1 + s.r.Int64N(s.unit())
	}
	pos := s.rangePos(off, off)
	u := s.unit()
	if s.cf.Multi && L > 0 && off <= L {
		switch {
		case off/u == (L-1)/u || off/u == L/u:
			pos += "/current-chunk"
		default:
			pos += "/earlier-chunk"
		}
	}
	s.tr("DiscardUpto(%d) size=%d", off, L)
	var err error
	if !s.guard("DiscardUpto", func() { err = s.app.DiscardUpto(off) }) {
		return
	}
	s.c.Eval(1)
	if off > L {
		if err == nil {
			s.violation("discard/beyond-end-accepted", fmt.Sprintf("DiscardUpto(%d) with size %d returned nil", off, L), true)
			return
		}
		s.distinct("discard", s.bufState(), "beyond-end", "refused")
		s.checkSize("refused-discard")
		return
	}
	if err != nil {
		s.violation("discard/unexpected-error", fmt.Sprintf("DiscardUpto(%d) with size %d: %v", off, L, err), true)
		return
	}
	s.mu.Lock()
	if off > s.disc {
		s.disc = off
	}
	s.mu.Unlock()
	if !s.checkSize("discard") {
		return
	}
	if s.verify(s.app, "discard", -1) {
		s.distinct("discard", s.bufState(), pos, "ok")
	}
}

func (s *seq) opSwitchRO() {
	buf := s.bufState()
	s.tr("SwitchToReadOnlyMode")
	s.arm()
	var err error
	ok := s.guard("SwitchToReadOnlyMode", func() { err = s.app.SwitchToReadOnlyMode() })
	fired := s.disarm()
	if !ok {
		return
	}
	s.c.Eval(1)
	if s.ro {
		s.distinct("switch-ro", "read-only", "-", errClass(err))
		s.checkSize("switch-ro-in-read-only")
		return
	}
	if err != nil {
		if !fired {
			s.violation("switch-ro/unexpected-error", fmt.Sprintf("SwitchToReadOnlyMode with %s buffer: %v", buf, err), true)
			return
		}
		s.distinct("switch-ro", buf, "-", "err:injected")
		if s.checkSize("failed-switch-ro") {
			s.settle("switch-ro", true)
		}
		return
	}
	s.ro = true
	s.flushed()
	s.distinct("switch-ro", buf, "-", "ok")
	if s.checkSize("switch-ro") {
		s.verify(s.app, "switch-ro", int64(2*s.cf.WBuf+64))
	}
}

// ---- reads ----

// riskyMu serialises compressed reads issued while the files may hold bytes beyond the logical
// end: if the implementation picks up such bytes as an entry length it allocates up to 4 GiB per
// read; one at a time keeps the monitor process alive so that it can report the wrong read.
var riskyMu sync.Mutex

func (s *seq) riskyRead(app appendable.Appendable, bs []byte, off int64) (rn int, err error, ok bool) {
	if s.tail() != "clean" {
		riskyMu.Lock()
		defer riskyMu.Unlock()
	}
	ok = s.guardQuiet(func() { rn, err = app.ReadAt(bs, off) })
	if s.tail() != "clean" && (rn != len(bs) || err != nil) {
		debug.FreeOSMemory()
	}
	return
}

// guardQuiet is guard for calls that may run on reader goroutines (no shared sequence state touched).
func (s *seq) guardQuiet(f func()) bool {
	p, sig, text := fw.Guard(f)
	if p {
		s.c.Violation(sig, fmt.Sprintf("seq %d ReadAt (%s): %s", s.id, s.cfString(), text), nil)
		return false
	}
	return true
}

func (s *seq) readRange() (off int64, n int) {
	L := s.msize()
	u := s.unit()
	switch s.r.IntN(9) {
	case 0:
		off = (s.r.Int64N(L/u+1))*u + int64(s.r.IntN(7)) - 4
	case 1:
		off = L - s.r.Int64N(2*int64(s.cf.WBuf)+1)
	case 2:
		off = L
	case 3:
		off = L + 1 + s.r.Int64N(u)
	case 4:
		if fe := s.flushedEnd(); fe >= 0 {
			off = fe - s.r.Int64N(16)
		} else {
			off = L - s.r.Int64N(int64(s.cf.WBuf)+1)
		}
	default:
		off = s.r.Int64N(L + 1)
	}
	if off < 0 {
		off = 0
	}
	if off < s.disc && s.r.IntN(10) > 0 {
		off = s.disc + s.r.Int64N(L-s.disc+1)
	}
	switch s.r.IntN(8) {
	case 0:
		n = 1
	case 1:
		n = 1 + s.r.IntN(16)
	case 2: // exactly to the next unit boundary, or one past it
		n = int(u-off%u) + s.r.IntN(2)
	case 3: // several units
		n = int(u)*(1+s.r.IntN(3)) + s.r.IntN(int(u))
	case 4: // exactly to the end / one past the end
		n = int(L-off) + s.r.IntN(2)
	case 5:
		n = 1 + s.r.IntN(2*s.cf.WBuf)
	default:
		n = 1 + s.r.IntN(4096)
	}
	if n < 1 {
		n = 1
	}
	if n > maxRead {
		n = maxRead
	}
	return
}

func (s *seq) opRead() {
	if s.comp() {
		s.readCompressed()
		return
	}
	off, n := s.readRange()
	L := s.msize()
	end := off + int64(n)
	if end > L {
		end = L
	}
	st := "beyond"
	if off < L {
		st = s.rangeState(off, end)
	}
	pos := s.rangePos(off, off+int64(n))
	bs := make([]byte, n)
	var rn int
	var err error
	s.tr("ReadAt(len=%d, off=%d) size=%d", n, off, L)
	if !s.guard("ReadAt", func() { rn, err = s.app.ReadAt(bs, off) }) {
		return
	}
	if off < s.disc {
		s.c.Count("reads_below_discard_offset_unjudged", 1)
		return
	}
	out := s.judgeRead(s.data, off, bs, rn, err, false, "")
	s.distinct("read", st, pos, out)
}

// judgeRead compares one uncompressed read with the model bytes `model` (whole log so far).
func (s *seq) judgeRead(model []byte, off int64, bs []byte, rn int, err error, concurrent bool, what string) string {
	s.c.Eval(1)
	L := int64(len(model))
	var want []byte
	if off < L {
		e := off + int64(len(bs))
		if e > L {
			e = L
		}
		want = model[off:e]
	}
	ctx := fmt.Sprintf("ReadAt(len=%d, off=%d) with %d bytes in the log%s", len(bs), off, L, what)
	if concurrent {
		ctx += " [reader goroutine during appends]"
	}
	if rn < 0 || rn > len(bs) {
		s.violation("read/bad-count", fmt.Sprintf("%s returned n=%d", ctx, rn), false)
		return "MISMATCH"
	}
	if err != nil && !errors.Is(err, io.EOF) {
		s.violationK(s.baseKind(), "read/unexpected-error/"+errClass(err), fmt.Sprintf("%s: n=%d err=%v", ctx, rn, err), false)
		return "MISMATCH"
	}
	if rn < len(want) {
		if concurrent {
			ctx += s.diag(off, len(bs))
		}
		s.violation("read/short/"+s.tail(), fmt.Sprintf("%s returned only n=%d (err=%v); %d bytes are available", ctx, rn, err, len(want)), false)
		return "MISMATCH"
	}
	if !bytes.Equal(bs[:len(want)], want) {
		i := 0
		for i < len(want) && bs[i] == want[i] {
			i++
		}
		j := len(want)
		for j > i && bs[j-1] == want[j-1] {
			j--
		}
		zeros := true
		for _, b := range bs[i:j] {
			if b != 0 {
				zeros = false
				break
			}
		}
		// where else does the model hold the bytes that were returned? (diagnosis)
		probe := bs[i:j]
		if len(probe) > 24 {
			probe = probe[:24]
		}
		if len(probe) >= 8 && !zeros {
			if at := bytes.Index(model, probe); at >= 0 {
				ctx += fmt.Sprintf(" {the returned bytes are the ones written at offset %d}", at)
			} else {
				ctx += " {the returned bytes occur nowhere in the current log}"
			}
		}
		if concurrent {
			ctx += s.diag(off, len(bs))
		}
		u := s.unit()
		fe := int64(-2)
		if !concurrent {
			fe = s.flushedEnd()
		}
		s.violation("read/wrong-bytes/"+s.tail(), fmt.Sprintf("%s: bytes [%d,%d) differ from what was last written there (first got %#02x want %#02x; all-zero=%v; unit=%d, offset in unit %d; flushed end=%d)",
			ctx, off+int64(i), off+int64(j), bs[i], want[i], zeros, u, (off+int64(i))%u, fe), false)
		return "MISMATCH"
	}
	if concurrent {
		// the log may have grown since the snapshot: only the snapshot bytes are judged
		return "full"
	}
	if rn < len(bs) && err == nil {
		s.violation("read/short-without-error", fmt.Sprintf("%s returned n=%d and no error", ctx, rn), false)
		return "MISMATCH"
	}
	if s.tail() == "clean" {
		if rn != len(want) {
			s.violation("read/past-end/clean", fmt.Sprintf("%s returned n=%d, only %d bytes exist", ctx, rn, len(want)), false)
			return "MISMATCH"
		}
		if (len(want) == len(bs)) != (err == nil) {
			s.violation("read/eof-not-exactly-at-end", fmt.Sprintf("%s returned n=%d err=%v", ctx, rn, err), false)
			return "MISMATCH"
		}
	}
	switch {
	case len(want) == len(bs):
		return "full"
	case len(want) > 0:
		return "partial+eof"
	case off == L:
		return "at-end"
	}
	return "beyond-end"
}

func (s *seq) readCompressed() {
	// at the end of the log: EOF
	atEnd := len(s.ents) == 0 || s.r.IntN(12) == 0
	if atEnd && s.tail() != "clean" {
		// beyond the logical end the files may hold old bytes; a compressed read there would
		// interpret them as an entry (nothing the property speaks about)
		if len(s.ents) == 0 {
			return
		}
		atEnd = false
	}
	if atEnd {
		bs := make([]byte, 1+s.r.IntN(8))
		var rn int
		var err error
		s.tr("ReadAt(len=%d, off=%d) end", len(bs), s.vsize)
		if !s.guard("ReadAt", func() { rn, err = s.app.ReadAt(bs, s.vsize) }) {
			return
		}
		s.c.Eval(1)
		if s.tail() == "clean" {
			if rn != 0 || !errors.Is(err, io.EOF) {
				s.violation("read/eof-not-exactly-at-end", fmt.Sprintf("compressed ReadAt at the end (%d) returned n=%d err=%v", s.vsize, rn, err), false)
				return
			}
			s.distinct("read", "clean", "end", "at-end")
		}
		return
	}
	var e entry
	if s.r.IntN(3) == 0 {
		e = s.ents[len(s.ents)-1-s.r.IntN(minInt(len(s.ents), 4))]
	} else {
		e = s.ents[s.r.IntN(len(s.ents))]
	}
	if e.off < s.disc {
		return
	}
	n := len(e.data)
	switch s.r.IntN(4) {
	case 0:
		n = 1 + s.r.IntN(len(e.data))
	case 1:
		if !s.cf.Multi {
			n = len(e.data) + 1 + s.r.IntN(8) // longer than the entry: the entry, then EOF
		}
	}
	bs := make([]byte, n)
	var rn int
	var err error
	s.tr("ReadAt(len=%d, entry off=%d len=%d)", n, e.off, len(e.data))
	var ok bool
	if rn, err, ok = s.riskyRead(s.app, bs, e.off); !ok {
		s.dead.Store(true)
		return
	}
	out := s.judgeEntry(e, bs, rn, err, false)
	pos := "exact"
	if n < len(e.data) {
		pos = "prefix"
	} else if n > len(e.data) {
		pos = "longer"
	}
	s.distinct("read", s.rangeState(e.off, e.off+1), pos, out)
}

func (s *seq) judgeEntry(e entry, bs []byte, rn int, err error, concurrent bool) string {
	s.c.Eval(1)
	want := e.data
	if len(want) > len(bs) {
		want = want[:len(bs)]
	}
	ctx := fmt.Sprintf("compressed ReadAt(len=%d) of the %d-byte entry at %d", len(bs), len(e.data), e.off)
	if concurrent {
		ctx += " [reader goroutine during appends]"
	}
	if err != nil && !errors.Is(err, io.EOF) && errClass(err) != "other" {
		s.violationK(s.baseKind(), "read/unexpected-error/"+errClass(err), fmt.Sprintf("%s: n=%d err=%v", ctx, rn, err), false)
		return "MISMATCH"
	}
	// a wrong stored length, a decoder error and wrong payload bytes are one class: the stored entry was not read back
	if (err != nil && !errors.Is(err, io.EOF)) || rn != len(want) || !bytes.Equal(bs[:rn], want) {
		if concurrent {
			ctx += s.diag(e.off, len(bs))
		}
		// the sequence ends here: on a tree with this defect every further compressed read may
		// cost a multi-GiB allocation
		s.violation("read/wrong-entry/"+s.tail(), fmt.Sprintf("%s returned n=%d err=%v, payload equal=%v", ctx, rn, err, rn == len(want) && bytes.Equal(bs[:rn], want)), true)
		return "MISMATCH"
	}
	if (rn == len(bs)) != (err == nil) {
		s.violation("read/eof-not-exactly-at-end", fmt.Sprintf("%s returned n=%d err=%v", ctx, rn, err), false)
		return "MISMATCH"
	}
	if rn < len(bs) {
		return "entry+eof"
	}
	return "full"
}

// diag describes the appendable right after a failed concurrent read (diagnosis only).
func (s *seq) diag(off int64, n int) string {
	out := ""
	fw.Guard(func() {
		sz, _ := s.app.Size()
		out = fmt.Sprintf(" {now: Size()=%d", sz)
		if m, ok := s.app.(*multiapp.MultiFileAppendable); ok {
			cur, id := m.CurrApp()
			out += fmt.Sprintf(" current chunk=%d its offset=%d, target chunk=%d", id, cur.Offset(), off/int64(s.cf.FileSize))
		}
		bs := make([]byte, n)
		rn, err := s.app.ReadAt(bs, off)
		out += fmt.Sprintf("; same read again: n=%d err=%v}", rn, err)
	})
	return out
}

// verify reads back [max(disc, L-span), L) (span<0: everything) through app and compares.
func (s *seq) verify(app appendable.Appendable, what string, span int64) bool {
	if s.comp() {
		lo := 0
		if span >= 0 && len(s.ents) > 6 {
			lo = len(s.ents) - 6
		} else if len(s.ents) > 300 {
			lo = len(s.ents) - 300
		}
		for _, e := range s.ents[lo:] {
			if e.off < s.disc {
				continue
			}
			bs := make([]byte, len(e.data))
			var rn int
			var err error
			var ok bool
			if rn, err, ok = s.riskyRead(app, bs, e.off); !ok {
				s.dead.Store(true)
				return false
			}
			if s.judgeEntry(e, bs, rn, err, false) == "MISMATCH" {
				s.tr("  (mismatch while verifying after %s)", what)
				return false
			}
		}
		return true
	}
	L := int64(len(s.data))
	from := s.disc
	if span >= 0 && L-span > from {
		from = L - span
	}
	for from < L {
		n := L - from
		if n > 64<<10 {
			n = 64 << 10
		}
		bs := make([]byte, n)
		var rn int
		var err error
		if !s.guard("ReadAt", func() { rn, err = app.ReadAt(bs, from) }) {
			return false
		}
		if s.judgeRead(s.data, from, bs, rn, err, false, " [read-back after "+what+"]") == "MISMATCH" {
			s.tr("  (mismatch while verifying after %s)", what)
			return false
		}
		from += n
	}
	return true
}

// ---- copy / reopen ----

// largeMetaOpenError: an open that fails with ErrCorruptedMetadata on metadata larger than one
// buffered read is the same defect as metadata read back wrongly.
func (s *seq) largeMetaOpenError(err error, what string) bool {
	if len(s.cf.Meta) >= 3000 && errors.Is(err, singleapp.ErrCorruptedMetadata) {
		s.violationK(s.baseKind(), "reopen/large-metadata-not-read-back", fmt.Sprintf("metadata of %d bytes: %s fails with %v", len(s.cf.Meta), what, err), true)
		return true
	}
	return false
}

func (s *seq) opCopy() {
	s.copies++
	dst := filepath.Join(s.dir, fmt.Sprintf("copy-%d", s.copies))
	if !s.cf.Multi {
		dst += ".aof"
	}
	defer os.RemoveAll(dst)
	buf := s.bufState()
	s.tr("Copy")
	s.arm()
	var err error
	ok := s.guard("Copy", func() { err = s.app.Copy(dst) })
	fired := s.disarm()
	if !ok {
		return
	}
	s.c.Eval(1)
	if err != nil {
		if !fired {
			s.violation("copy/unexpected-error", fmt.Sprintf("Copy: %v", err), true)
			return
		}
		os.RemoveAll(dst)
		if !s.guard("Copy", func() { err = s.app.Copy(dst) }) {
			return
		}
		if err != nil {
			s.violation("copy/retry-failed", fmt.Sprintf("Copy retried after an injected error: %v", err), true)
			return
		}
	}
	if !s.ro {
		s.flushed() // Copy flushes (singleapp) / syncs (multiapp) first
	}
	ro := s.r.IntN(2) == 0
	cp, err := s.openApp(dst, ro)
	if s.dead.Load() {
		return
	}
	if err != nil {
		if s.largeMetaOpenError(err, "copy") {
			return
		}
		s.violation("copy/open-error", fmt.Sprintf("opening the copy: %v", err), false)
		return
	}
	defer func() { s.guard("Close", func() { cp.Close() }) }()
	if _, ok := s.checkOpened(cp, "copy"); !ok {
		return
	}
	if s.verify(cp, "copy", -1) {
		s.distinct("copy", buf, "-", "equal")
	}
	s.checkSize("copy")
}

func (s *seq) opReopen() {
	if !s.ro {
		sync := s.r.IntN(2) == 0
		var err error
		if !s.guard("Flush", func() {
			if sync {
				err = s.app.Sync()
			} else {
				err = s.app.Flush()
			}
		}) {
			return
		}
		s.c.Eval(1)
		if err != nil {
			s.violation("flush/unexpected-error", fmt.Sprintf("flush/sync before close: %v", err), true)
			return
		}
		s.flushed()
	}
	buf := s.bufState()
	s.tr("Close + reopen")
	var err error
	if !s.guard("Close", func() { err = s.app.Close() }) {
		return
	}
	s.c.Eval(1)
	if err != nil {
		s.violation("close/unexpected-error", fmt.Sprintf("Close after a successful flush: %v", err), true)
		return
	}
	s.closed = true
	// a closed appendable must refuse politely (only panics are judged here)
	s.guard("ReadAt(closed)", func() { s.app.ReadAt(make([]byte, 4), 0) })
	s.guard("Size(closed)", func() { s.app.Size() })
	if s.dead.Load() {
		return
	}
	if s.r.IntN(3) == 0 {
		app, err := s.openApp(s.path, true)
		if s.dead.Load() {
			return
		}
		if err != nil {
			if s.largeMetaOpenError(err, "reopen-ro") {
				return
			}
			s.violation("reopen/open-error", fmt.Sprintf("read-only reopen: %v", err), true)
			return
		}
		_, ok := s.checkOpened(app, "reopen-ro")
		if ok && s.verify(app, "reopen-ro", -1) {
			s.distinct("reopen-ro", buf, "-", "equal")
		}
		s.guard("Close", func() { err = app.Close() })
		if s.dead.Load() {
			return
		}
		if err != nil {
			s.violation("close/unexpected-error", fmt.Sprintf("Close of a read-only handle: %v", err), true)
			return
		}
	}
	drawRuntime(s.r, &s.cf)
	app, err := s.openApp(s.path, false)
	if s.dead.Load() {
		return
	}
	if err != nil {
		if s.largeMetaOpenError(err, "reopen") {
			return
		}
		s.violation("reopen/open-error", fmt.Sprintf("reopen: %v", err), true)
		return
	}
	s.app, s.closed, s.ro = app, false, false
	sz, ok := s.checkOpened(app, "reopen")
	if !ok {
		return
	}
	// compressed multiapp with left-over chunk files: an equal size may still be another position
	// (chunk c over-long vs. a later left-over chunk); re-establish the position explicitly
	ambiguous := s.comp() && s.cf.Multi && s.tail() != "clean" && s.msize() >= (s.curChunk+1)*int64(s.cf.FileSize)
	if (sz != s.msize() || ambiguous) && !s.rewindTo(s.msize(), "reopen") {
		return
	}
	if s.verify(app, "reopen", -1) {
		s.distinct("reopen", buf, "-", "equal")
	}
}

// ---- concurrent readers ----

func (s *seq) opConcurrent() {
	nr := 1 + s.r.IntN(3)
	nw := 8 + s.r.IntN(40)
	s.tr("concurrent phase: %d readers, %d writer ops", nr, nw)
	var stop atomic.Bool
	var wg sync.WaitGroup
	var reads atomic.Int64
	for i := 0; i < nr; i++ {
		rr := rand.New(rand.NewPCG(s.r.Uint64(), uint64(i)))
		wg.Add(1)
		go func() {
			defer wg.Done()
			for k := 0; k < 4000 && !stop.Load(); k++ {
				s.mu.Lock()
				data, ents, disc := s.data, s.ents, s.disc
				s.mu.Unlock()
				if s.comp() {
					if len(ents) == 0 {
						continue
					}
					e := ents[rr.IntN(len(ents))]
					if rr.IntN(2) == 0 {
						e = ents[len(ents)-1-rr.IntN(minInt(len(ents), 3))]
					}
					if e.off < disc {
						continue
					}
					bs := make([]byte, len(e.data))
					var rn int
					var err error
					var ok bool
					if rn, err, ok = s.riskyRead(s.app, bs, e.off); !ok {
						return
					}
					if s.judgeEntry(e, bs, rn, err, true) == "MISMATCH" {
						return
					}
					reads.Add(1)
					continue
				}
				L := int64(len(data))
				if L-disc < 1 {
					continue
				}
				var off int64
				switch rr.IntN(3) {
				case 0: // near the published end
					off = L - 1 - rr.Int64N(minI64(L-disc, int64(2*s.cf.WBuf)+int64(s.cf.FileSize)))
				default:
					off = disc + rr.Int64N(L-disc)
				}
				n := 1 + rr.Int64N(minI64(L-off, 8192))
				if rr.IntN(3) == 0 {
					n = L - off
					if n > maxRead {
						n = maxRead
					}
				}
				bs := make([]byte, n)
				var rn int
				var err error
				p, sig, text := fw.Guard(func() { rn, err = s.app.ReadAt(bs, off) })
				if p {
					s.c.Violation(sig, fmt.Sprintf("seq %d concurrent ReadAt: %s", s.id, text), nil)
					return
				}
				if rn != len(bs) && err == nil {
					err = io.ErrUnexpectedEOF
				}
				if s.judgeRead(data, off, bs, rn, err, true, "") == "MISMATCH" {
					return
				}
				reads.Add(1)
			}
		}()
	}
	for i := 0; i < nw && !s.dead.Load(); i++ {
		s.opNo.Add(1)
		switch s.r.IntN(10) {
		case 0:
			s.opFlushSync(false)
		case 1:
			s.opFlushSync(true)
		default:
			if s.capBytes()-s.msize() < 1 {
				i = nw
				break
			}
			s.opAppend()
		}
	}
	stop.Store(true)
	wg.Wait()
	s.c.Count("concurrent_reads", reads.Load())
	if reads.Load() > 0 {
		s.distinct("concurrent-phase", s.tail(), fmt.Sprintf("readers=%d", nr), "ok")
	}
}

func minInt(a, b int) int {
	if a < b {
		return a
	}
	return b
}

func minI64(a, b int64) int64 {
	if a < b {
		return a
	}
	return b
}

// ---- sequence ----

func (s *seq) step() {
	s.opNo.Add(1)
	if s.ro {
		switch k := s.r.IntN(20); {
		case k < 9:
			s.opRead()
		case k < 11:
			s.opDiscard()
		case k < 13:
			s.opCopy()
		case k < 14:
			s.opFlushSync(s.r.IntN(2) == 0)
		case k < 15:
			s.opSetOffsetTo(s.msize(), "ro")
		case k < 16:
			s.opSwitchRO()
		default:
			s.opReopen()
		}
		return
	}
	if s.capBytes()-s.msize() < 1 && s.r.IntN(2) == 0 {
		L := s.msize()
		if s.comp() {
			s.opSetOffset()
		} else {
			s.opSetOffsetTo(s.disc+s.r.Int64N(L-s.disc+1)/2, "cap")
		}
		return
	}
	switch k := s.r.IntN(100); {
	case k < 38:
		s.opAppend()
	case k < 66:
		s.opRead()
	case k < 73:
		s.opSetOffset()
	case k < 80:
		s.opFlushSync(false)
	case k < 85:
		s.opFlushSync(true)
	case k < 88:
		s.opDiscard()
	case k < 90:
		s.opSwitchRO()
	case k < 94:
		s.opReopen()
	case k < 97:
		s.opCopy()
	default:
		if s.cf.Conc {
			s.opConcurrent()
		} else {
			s.opRead()
		}
	}
}

func (s *seq) run(nops int) {
	defer os.RemoveAll(s.dir)
	defer func() {
		if s.app != nil && !s.closed {
			fw.Guard(func() { s.app.Close() })
		}
	}()
	if !s.openFresh() {
		return
	}
	for int(s.opNo.Load()) < nops && !s.dead.Load() {
		s.step()
	}
	if s.dead.Load() {
		return
	}
	// final: everything written must survive flush + close + reopen
	s.opNo.Add(1)
	s.opReopen()
	if s.dead.Load() {
		return
	}
	s.c.Count("sequences_completed", 1)
	s.c.Count("ops", int64(s.opNo.Load()))
	s.c.Sample(map[string]any{"seq": s.id, "config": s.cfString(), "final_size": s.msize(), "entries": len(s.ents), "discarded_upto": s.disc})
}
