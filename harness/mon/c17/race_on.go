//go:build race

package c17

// raceBuild: the -race binary runs the same sequence list, but only a prefix of it
// (the detector makes file-heavy sequences ~20x slower).
const raceBuild = true
