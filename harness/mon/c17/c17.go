// Package c17: appendable files (singleapp, multiapp) behave as a persistent byte log.
//
// Model: a []byte (uncompressed) or a list of (entry offset, payload) pairs
// (compressed: reads are addressed at entry offsets) plus the user metadata.
// PRNG sequences of Append / ReadAt / SetOffset / Flush / Sync / DiscardUpto /
// SwitchToReadOnlyMode / Close+reopen / Copy run against the real code with
// PRNG configurations; every reply is compared with the model.
package c17

import (
	"errors"
	"fmt"
	"math/rand/v2"
	"os"
	"runtime"
	"runtime/pprof"
	"sync"
	"sync/atomic"
	"time"

	"github.com/codenotary/immudb/embedded/appendable"

	"verifharness/internal/fw"
	"verifharness/internal/hook"
)

func init() { fw.RegisterMonitor("C17", "exploration", Run) }

var errInjected = errors.New("c17: injected I/O error")

// ---- per-goroutine fault plan (the verifhook handler is process-wide) ----

type faultState struct {
	armed bool
	skip  int    // fail the (skip+1)-th matching Fault call
	site  string // "" = any site
	fired bool
	site2 string // site that fired
	calls int
}

var faultPlans sync.Map // goroutine id -> *faultState

func goid() uint64 {
	var buf [64]byte
	n := runtime.Stack(buf[:], false)
	var id uint64
	for _, c := range buf[10:n] {
		if c < '0' || c > '9' {
			break
		}
		id = id*10 + uint64(c-'0')
	}
	return id
}

var faultCalls atomic.Int64

func faultFn(site string, _ uint64) error {
	faultCalls.Add(1)
	v, ok := faultPlans.Load(goid())
	if !ok {
		return nil
	}
	fs := v.(*faultState) // only touched by its own goroutine
	fs.calls++
	if !fs.armed || (fs.site != "" && fs.site != site) {
		return nil
	}
	if fs.skip > 0 {
		fs.skip--
		return nil
	}
	fs.armed = false
	fs.fired = true
	fs.site2 = site
	return errInjected
}

// ---- configuration ----

type config struct {
	Multi    bool   `json:"multi"`
	FileSize int    `json:"file_size"` // multiapp chunk size
	Prealloc bool   `json:"prealloc"`
	PreSize  int    `json:"prealloc_size"` // singleapp only
	Comp     int    `json:"compression_format"`
	Level    int    `json:"compression_level"`
	Meta     []byte `json:"metadata"`
	Faults   bool   `json:"faults"`
	Conc     bool   `json:"concurrent_readers"`
	// runtime options (not persisted; redrawn on every reopen)
	WBuf    int  `json:"write_buffer"`
	RBuf    int  `json:"read_buffer"`
	Retry   bool `json:"retryable_sync"`
	Auto    bool `json:"auto_sync"`
	MaxOpen int  `json:"max_opened_files"`
}

func pick(r *rand.Rand, xs ...int) int { return xs[r.IntN(len(xs))] }

func logUniform(r *rand.Rand, lo, hi int) int {
	// uniform in the exponent, so small and large sizes are both frequent
	if lo >= hi {
		return lo
	}
	bitsLo, bitsHi := 0, 0
	for 1<<bitsLo < lo {
		bitsLo++
	}
	for 1<<bitsHi < hi {
		bitsHi++
	}
	b := bitsLo + r.IntN(bitsHi-bitsLo+1)
	v := 1 << b
	switch r.IntN(4) {
	case 0: // exact power of two
	case 1:
		v += r.IntN(v/2 + 1)
	case 2:
		v -= r.IntN(v/4 + 1)
	default:
		v += 1 - r.IntN(3)
	}
	if v < lo {
		v = lo
	}
	if v > hi {
		v = hi
	}
	return v
}

func drawRuntime(r *rand.Rand, cf *config) {
	cf.WBuf = logUniform(r, 16, 8192)
	cf.RBuf = logUniform(r, 1, 8192)
	cf.Retry = r.IntN(2) == 0
	cf.Auto = r.IntN(2) == 0
	if cf.Comp != appendable.NoCompression && cf.Retry && !cf.Auto {
		// retryable sync without auto-sync makes Append fail with ErrBufferFull in
		// the middle of an entry; a half-written compressed entry has no defined
		// read address, so that combination is only driven uncompressed
		cf.Auto = true
	}
	cf.MaxOpen = 1 + r.IntN(3)
}

func drawConfig(r *rand.Rand, i int, thorough bool) config {
	var cf config
	cf.Multi = r.IntN(3) > 0
	cf.FileSize = logUniform(r, 64, 65536)
	switch {
	case r.IntN(4) == 0:
		cf.Comp = 1 + r.IntN(4)
	default:
		cf.Comp = appendable.NoCompression
	}
	cf.Level = pick(r, appendable.BestSpeed, appendable.BestCompression, appendable.DefaultCompression, appendable.HuffmanOnly)
	cf.Prealloc = r.IntN(4) == 0
	if cf.Prealloc && !cf.Multi {
		cf.PreSize = logUniform(r, 64, 16384)
	}
	switch r.IntN(6) {
	case 0:
		cf.Meta = nil
	case 1:
		cf.Meta = []byte{}
	default:
		cf.Meta = make([]byte, 1+r.IntN(200))
		for j := range cf.Meta {
			cf.Meta[j] = byte(r.IntN(256))
		}
	}
	cf.Faults = r.IntN(5) == 0
	cf.Conc = r.IntN(5) == 0
	drawRuntime(r, &cf)
	return cf
}

func (cf *config) kind() string {
	k := "single"
	if cf.Multi {
		k = "multi"
	}
	if cf.Comp != appendable.NoCompression {
		k += "+comp"
	}
	return k
}

// ---- driver ----

func Run(c *fw.Ctx) {
	c.Rule = "PRNG operation sequences against singleapp/multiapp under PRNG configurations (chunk 64B-64KiB, write buffer 16B-8KiB, retryable x auto sync, prealloc, 5 compression formats, MaxOpenedFiles 1-3, injected write/fsync errors, concurrent readers); every reply is compared with a []byte model; an evaluation is one compared reply; distinct = (appendable kind x operation x observed buffer state x position relative to chunk boundary / write buffer x outcome)"
	c.Assume("after a rewind (SetOffset below bytes already written to a file) or with preallocated files the physical files keep bytes beyond the logical end: in those states only bytes inside the model are judged, not the size seen by a reopen nor what a read beyond the end returns; the harness re-issues SetOffset(model size) after such a reopen, as embedded/store does")
	c.Assume("compressed appendables: reads are issued at entry offsets with a buffer no longer than the entry (multiapp) and SetOffset/DiscardUpto only at entry offsets; a compressed chunk may exceed the chunk size, the next entry then starts at the next chunk's base offset")
	c.Assume("Flush or Sync succeeds before every Close; bytes below the highest DiscardUpto offset are not judged; SetOffset is not issued below it")
	c.Assume("injected errors (sites singleapp.write, singleapp.sync) are one-shot; the failed operation is retried without faults and must then succeed; after a failed Append the model is resynchronised from Size() (which must lie between the acknowledged and the requested byte count)")
	c.Assume("reader goroutines pick their ranges inside the length published by the writer, so the concrete ranges depend on the schedule; the writer's operations do not")

	h := hook.Install(&hook.Config{Seed: c.Seed, FaultFn: faultFn})
	defer hook.Uninstall()

	nseq := c.N(300, 12000)
	if raceBuild {
		nseq = c.N(40, 600) // prefix of the same list
		c.Note("race build: prefix of the sequence list only")
	}
	nops := 300
	workers := runtime.GOMAXPROCS(0)
	if workers > 16 {
		workers = 16
	}
	if workers < 2 {
		workers = 2
	}

	if pf := os.Getenv("VERIF_C17_PROF"); pf != "" {
		if f, err := os.Create(pf); err == nil {
			pprof.StartCPUProfile(f)
			defer pprof.StopCPUProfile()
		}
	}
	only := -1 // VERIF_C17_ONLY=<n>: run one sequence of the list (debugging aid; the list itself is unchanged)
	if v := os.Getenv("VERIF_C17_ONLY"); v != "" {
		fmt.Sscanf(v, "%d", &only)
	}
	var next atomic.Int64
	var wg sync.WaitGroup
	for w := 0; w < workers; w++ {
		wg.Add(1)
		go func() {
			defer wg.Done()
			id := goid()
			fs := &faultState{}
			faultPlans.Store(id, fs)
			defer faultPlans.Delete(id)
			for {
				i := int(next.Add(1)) - 1
				if i >= nseq {
					return
				}
				if only >= 0 && i != only {
					continue
				}
				r := fw.NewRand(c.Seed, fmt.Sprintf("c17/seq/%d", i))
				cf := drawConfig(r, i, c.Thorough())
				if rm := fw.NewRand(c.Seed, fmt.Sprintf("c17/meta/%d", i)); rm.IntN(20) == 0 {
					// metadata larger than one buffered read (own stream: the rest of the list does not shift)
					cf.Meta = make([]byte, 3000+rm.IntN(6000))
					for j := range cf.Meta {
						cf.Meta[j] = byte(1 + rm.IntN(255))
					}
				}
				s := newSeq(c, i, r, cf, fs)
				t0 := time.Now()
				s.run(nops)
				if os.Getenv("VERIF_C17_DEBUG") != "" { // diagnostics only; never part of a verdict
					fmt.Fprintf(os.Stderr, "seq %d %.2fs ops=%d %s conc=%v\n", i, time.Since(t0).Seconds(), s.opNo.Load(), s.cfString(), cf.Conc)
				}
			}
		}()
	}
	wg.Wait()

	hits := h.Hits()
	c.Set("fault_site_calls", map[string]uint64{
		"singleapp.write": hits["fault:singleapp.write"],
		"singleapp.sync":  hits["fault:singleapp.sync"],
	})
	c.Set("sequences", nseq)
	c.Set("ops_per_sequence", nops)
	if hits["fault:singleapp.write"] == 0 || hits["fault:singleapp.sync"] == 0 {
		c.Inconclusive("fault sites singleapp.write / singleapp.sync were never reached: hooks not compiled in?")
	}
}
