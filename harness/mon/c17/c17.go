// Package c17: monitor for property C17 (see DESIGN.md section 2).
package c17
