package c05

import (
	"fmt"
	"sort"
	"strings"
	"sync/atomic"

	"verifharness/internal/kvmodel"
)

var hcMismatch atomic.Int64

// own write of the transaction being replayed
type ownEntry struct {
	val       string
	md        mdKind
	transient bool
}

// world is a state of the reference map (all committed txs up to the view's bound)
// overlaid with the transaction's own earlier writes.
type world struct {
	v   kvmodel.View
	own map[string]ownEntry
}

type ent struct {
	own    bool
	tx, hc uint64
	md     mdKind
	val    string
}

func encVal(md mdKind, val string) []byte { return append([]byte{byte(md)}, val...) }

func entOf(ver kvmodel.Version, n uint64) ent {
	return ent{tx: ver.Ts, hc: n, md: mdKind(ver.Value[0]), val: string(ver.Value[1:])}
}

func (w *world) look(k string) (ent, bool) {
	if o, ok := w.own[k]; ok {
		return ent{own: true, md: o.md, val: o.val}, true
	}
	ver, n, ok := w.v.Get([]byte(k))
	if !ok {
		return ent{}, false
	}
	return entOf(ver, n), true
}

func (w *world) keys() []string {
	var out []string
	for _, k := range w.v.Keys() {
		out = append(out, string(k))
	}
	for k := range w.own {
		if _, _, ok := w.v.Get([]byte(k)); !ok {
			out = append(out, k)
		}
	}
	sort.Strings(out)
	return out
}

// filt applies the filters (order: expired, deleted) to a version's metadata.
func filt(md mdKind, f int) string {
	if f&fExpired != 0 && md == mdExpired {
		return "exp"
	}
	if f&fDeleted != 0 && md == mdDeleted {
		return "nf"
	}
	return ""
}

func (e ent) String() string {
	if e.own {
		return fmt.Sprintf("own{%q md=%d}", e.val, e.md)
	}
	return fmt.Sprintf("{tx=%d hc=%d md=%d %q}", e.tx, e.hc, e.md, e.val)
}

func (r *refLog) String() string {
	if r == nil {
		return "<none>"
	}
	return fmt.Sprintf("{tx=%d hc=%d md=%d %q %s}", r.Tx, r.HC, r.MD, r.Val, r.ValErr)
}

// refDiff compares what a ValueRef showed with the model entry ("" = equal).
func refDiff(r *refLog, e ent) string {
	if r == nil {
		return "no value reference logged, expected " + e.String()
	}
	if e.own {
		if r.Tx != 0 || r.MD != e.md || r.Val != e.val || r.ValErr != "" {
			return fmt.Sprintf("got %s, expected the transaction's own write %s", r, e)
		}
		return ""
	}
	// the revision number (HC) is index bookkeeping, not part of what the property speaks about: counted, not judged
	if r.HC != e.hc && r.Tx == e.tx {
		hcMismatch.Add(1)
	}
	ok := r.Tx == e.tx && r.MD == e.md
	if e.md == mdExpired {
		ok = ok && r.ValErr == "exp"
	} else {
		ok = ok && r.Val == e.val && r.ValErr == ""
	}
	if !ok {
		return fmt.Sprintf("got %s, expected %s", r, e)
	}
	return ""
}

func (w *world) get(key string, f int) (string, ent) {
	e, ok := w.look(key)
	if !ok {
		return "nf", e
	}
	// point reads judge the transaction's own pending entry with the filters as well (an own tombstone is
	// "not found"): since fix e644604 in OngoingTx.GetWithFilters; prefix reads and readers still do not
	if c := filt(e.md, f); c != "" {
		return c, e
	}
	return "", e
}

func (w *world) prefixGet(prefix, neq string, f int) (string, string, ent) {
	for _, k := range w.keys() {
		if k < prefix || (neq != "" && k <= neq) {
			continue
		}
		if !strings.HasPrefix(k, prefix) {
			break
		}
		e, _ := w.look(k)
		if !e.own {
			if c := filt(e.md, f); c != "" {
				return c, k, e
			}
		}
		return "", k, e
	}
	return "nf", "", ent{}
}

// notFound folds the two "no such key" answers: ErrExpiredEntry wraps ErrKeyNotFound, and the read-set
// records both as "the key does not exist", so a deleted/absent key and an expired one are the same answer.
func notFound(c string) string {
	if c == "exp" {
		return "nf"
	}
	return c
}

func rangeSpec(op *opSpec) kvmodel.RangeSpec {
	return kvmodel.RangeSpec{SeekKey: []byte(op.Seek), EndKey: []byte(op.End), Prefix: []byte(op.Prefix),
		InclusiveSeek: op.IncSeek, InclusiveEnd: op.IncEnd, Desc: op.Desc}
}

func (w *world) rangeKeys(op *opSpec) []string {
	rs := rangeSpec(op)
	var out []string
	for _, k := range w.keys() {
		if rs.Match([]byte(k)) {
			out = append(out, k)
		}
	}
	if op.Desc {
		for i, j := 0, len(out)-1; i < j; i, j = i+1, j-1 {
			out[i], out[j] = out[j], out[i]
		}
	}
	return out
}

// scanDiff replays the steps of one reader on w and compares every logged row.
// resetSkips selects whether Reset re-arms the offset (both behaviours are accepted by the caller).
// Own writes made while the reader is open (wset) are added to w.own (the caller passes a world it may mutate).
func scanDiff(w *world, ol *opLog, resetSkips bool) string {
	op := &ol.Op
	keys := w.rangeKeys(op)
	cur, skipped := 0, uint64(0)
	flex := map[string]bool{} // keys written during the current pass: they may or may not show up
	last := ""
	pos := func(k string) int {
		for i, x := range keys {
			if x == k {
				return i
			}
		}
		return -1
	}
	for ri := range ol.Rows {
		row := &ol.Rows[ri]
		switch row.Step {
		case "reset":
			if row.Err != "" {
				return ""
			}
			cur, last = 0, ""
			flex = map[string]bool{}
			keys = w.rangeKeys(op)
			if resetSkips {
				skipped = 0
			}
			continue
		case "wset":
			if row.Err != "" {
				continue
			}
			w.own[row.Key] = ownEntry{val: stepVal(op, ri, ol), md: mdNone}
			flex[row.Key] = true
			keys = w.rangeKeys(op)
			cur = 0
			if last != "" {
				for cur < len(keys) && ((!op.Desc && keys[cur] <= last) || (op.Desc && keys[cur] >= last)) {
					cur++
				}
			}
			continue
		}
		if row.Err != "" && row.Err != "end" {
			return "" // limit / failure: nothing returned, nothing to compare
		}
		if row.Err == "" && flex[row.Key] {
			// a key written during this pass: fine if it shows the own write; it must not hide other keys
			e, _ := w.look(row.Key)
			if d := refDiff(row.Ref, e); d != "" {
				return fmt.Sprintf("row %d (key %s written during the scan): %s", ri, row.Key, d)
			}
			if p := pos(row.Key); p >= cur {
				for _, k := range keys[cur:p] {
					if !flex[k] {
						return fmt.Sprintf("row %d returned %s, skipping %s", ri, row.Key, k)
					}
				}
				cur = p + 1
				last = row.Key
			}
			continue
		}
		// next row of the model
		var e ent
		key, found := "", false
		for cur < len(keys) {
			k := keys[cur]
			cur++
			if flex[k] {
				continue
			}
			var ok bool
			if row.Step == "between" {
				ver, rev, has := w.v.GetBetween([]byte(k), row.I, row.F)
				if !has {
					continue
				}
				e, ok = entOf(ver, rev), true
			} else {
				e, ok = w.look(k)
			}
			if !ok {
				continue
			}
			if filt(e.md, op.Filters) != "" {
				continue
			}
			if skipped < op.Offset {
				skipped++
				continue
			}
			key, found = k, true
			break
		}
		switch {
		case row.Err == "end" && found:
			return fmt.Sprintf("row %d: reader reported no more entries, expected %s %s", ri, key, e)
		case row.Err == "end":
		case !found:
			return fmt.Sprintf("row %d: reader returned %s %s, expected no more entries", ri, row.Key, row.Ref)
		case key != row.Key:
			return fmt.Sprintf("row %d: reader returned key %s %s, expected %s %s", ri, row.Key, row.Ref, key, e)
		default:
			if d := refDiff(row.Ref, e); d != "" {
				return fmt.Sprintf("row %d key %s: %s", ri, key, d)
			}
			last = key
		}
	}
	return ""
}

func stepVal(op *opSpec, rowIdx int, ol *opLog) string {
	n := 0
	for i := 0; i <= rowIdx; i++ {
		if ol.Rows[i].Step == "wset" {
			n++
		}
	}
	return nthWset(op, n)
}

func cloneOwn(m map[string]ownEntry) map[string]ownEntry {
	c := make(map[string]ownEntry, len(m)+1)
	for k, v := range m {
		c[k] = v
	}
	return c
}

// readDiff compares one logged read operation with the model ("" = as the model says).
// It never changes own.
func readDiff(v kvmodel.View, own map[string]ownEntry, ol *opLog) string {
	if strings.HasPrefix(ol.Err, "other:") || ol.Err == "limit" {
		return ""
	}
	w := &world{v: v, own: own}
	op := &ol.Op
	switch op.K {
	case "get", "getf", "del":
		f := op.Filters
		if op.K == "del" {
			f = fExpired | fDeleted
		}
		c, e := w.get(op.Key, f)
		if op.K == "del" {
			if c == "" && e.own && e.md == mdDeleted {
				c = "nf" // Delete looks at the metadata of the transaction's own tombstone
			}
			if notFound(c) != notFound(ol.Err) {
				return fmt.Sprintf("Delete(%s) answered %q, expected %q (%s)", op.Key, ol.Err, c, e)
			}
			return ""
		}
		if notFound(c) != notFound(ol.Err) {
			return fmt.Sprintf("Get(%s) answered %q %s, expected %q %s", op.Key, ol.Err, ol.Ref, c, e)
		}
		if c == "" {
			if d := refDiff(ol.Ref, e); d != "" {
				return fmt.Sprintf("Get(%s): %s", op.Key, d)
			}
		}
	case "prefix":
		c, k, e := w.prefixGet(op.Prefix, op.Neq, op.Filters)
		if notFound(c) != notFound(ol.Err) {
			return fmt.Sprintf("GetWithPrefix(%s, neq %q) answered %q %s %s, expected %q %s %s", op.Prefix, op.Neq, ol.Err, ol.Key, ol.Ref, c, k, e)
		}
		if c == "" {
			if k != ol.Key {
				return fmt.Sprintf("GetWithPrefix(%s, neq %q) returned key %s %s, expected %s %s", op.Prefix, op.Neq, ol.Key, ol.Ref, k, e)
			}
			if d := refDiff(ol.Ref, e); d != "" {
				return fmt.Sprintf("GetWithPrefix(%s, neq %q) key %s: %s", op.Prefix, op.Neq, k, d)
			}
		}
	case "scan":
		if ol.Err != "" {
			return ""
		}
		d := scanDiff(&world{v: v, own: cloneOwn(own)}, ol, false)
		if d != "" && op.Offset > 0 {
			hasReset := false
			for _, r := range ol.Rows {
				hasReset = hasReset || r.Step == "reset"
			}
			if hasReset && scanDiff(&world{v: v, own: cloneOwn(own)}, ol, true) == "" {
				return ""
			}
		}
		if d != "" {
			return "scan " + scanName(op) + ": " + d
		}
	}
	return ""
}

func scanName(op *opSpec) string {
	return fmt.Sprintf("{prefix %q seek %q(%v) end %q(%v) desc=%v offset=%d filters=%d}", op.Prefix, op.Seek, op.IncSeek, op.End, op.IncEnd, op.Desc, op.Offset, op.Filters)
}

// writes lists the entries a transaction would commit: program order of first write, last value wins.
type wEntry struct {
	key string
	ownEntry
}

// opWrites lists the writes one logged operation made, in order.
func opWrites(ol *opLog) []wEntry {
	op := &ol.Op
	switch op.K {
	case "set":
		if ol.Err == "" {
			return []wEntry{{op.Key, ownEntry{val: op.Val, md: op.MD}}}
		}
	case "tset":
		if ol.Err == "" {
			return []wEntry{{op.Key, ownEntry{val: op.Val, transient: true}}}
		}
	case "del":
		if ol.Err == "" {
			return []wEntry{{op.Key, ownEntry{md: mdDeleted}}}
		}
	case "scan":
		var out []wEntry
		n := 0
		for _, r := range ol.Rows {
			if r.Step == "wset" {
				n++
				if r.Err == "" {
					out = append(out, wEntry{r.Key, ownEntry{val: nthWset(op, n)}})
				}
			}
		}
		return out
	}
	return nil
}

// applyWrite adds the effect of one logged operation to own.
func applyWrite(own map[string]ownEntry, ol *opLog) {
	for _, w := range opWrites(ol) {
		own[w.key] = w.ownEntry
	}
}

func nthWset(op *opSpec, n int) string {
	for _, st := range op.Steps {
		if st.K == "wset" {
			n--
			if n == 0 {
				return st.Val
			}
		}
	}
	return ""
}

func txWrites(tl *txLog) []wEntry {
	own := map[string]ownEntry{}
	var order []string
	for i := range tl.Ops {
		for _, w := range opWrites(&tl.Ops[i]) {
			if _, ok := own[w.key]; !ok {
				order = append(order, w.key)
			}
			own[w.key] = w.ownEntry
		}
	}
	var out []wEntry
	for _, k := range order {
		if !own[k].transient {
			out = append(out, wEntry{k, own[k]})
		}
	}
	return out
}

// footprint tells whether a key lies in what a read operation looked at.
func footprint(op *opSpec, key string) bool {
	switch op.K {
	case "get", "getf", "del":
		return op.Key == key
	case "prefix":
		return key >= op.Prefix && (op.Neq == "" || key > op.Neq)
	case "scan", "mark":
		return rangeSpec(op).Match([]byte(key))
	}
	return false
}

// shape names the form of a read as it was observed.
func shape(ol *opLog) string {
	op := &ol.Op
	res := "hit"
	if ol.Err != "" {
		res = strings.SplitN(ol.Err, ":", 2)[0]
	} else if ol.Ref != nil && ol.Ref.Tx == 0 {
		res = "own"
	}
	switch op.K {
	case "get", "del", "mark":
		return op.K + "-" + res
	case "getf":
		return fmt.Sprintf("getf%d-%s", op.Filters, res)
	case "prefix":
		s := "prefix"
		if op.Neq != "" {
			s += "-neq"
		}
		return s + "-" + res
	case "scan":
		s := "scan-asc"
		if op.Desc {
			s = "scan-desc"
		}
		if op.Seek != "" || op.End != "" {
			s += "-bounded"
		}
		if op.Offset > 0 {
			s += "-offset"
		}
		tags := map[string]bool{}
		end := "early"
		for _, r := range ol.Rows {
			switch r.Step {
			case "reset", "between", "wset":
				tags[r.Step] = true
			}
			if r.Err == "end" {
				end = "end"
			}
		}
		for _, t := range []string{"reset", "between", "wset"} {
			if tags[t] {
				s += "-" + t
			}
		}
		return s + "-" + end
	}
	return op.K
}
