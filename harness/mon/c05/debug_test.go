package c05

import (
	"encoding/json"
	"fmt"
	"os"
	"strconv"
	"testing"

	"verifharness/internal/fw"
)

// development aid: VERIF_C05_CASE=<n> go test -tags verif -run TestOneCase -v ./mon/c05/
func TestOneCase(t *testing.T) {
	n, err := strconv.Atoi(os.Getenv("VERIF_C05_CASE"))
	if err != nil {
		t.Skip("VERIF_C05_CASE not set")
	}
	os.Setenv("VERIF_NO_EVIDENCE", "1")
	c := fw.New("C05", "quick")
	r := c.Rand("c05/cases")
	var cs caseSpec
	for i := 0; i <= n; i++ {
		cs = genCase(r, i, 19)
	}
	fmt.Println(cs)
	b, _ := json.Marshal(cs)
	runCase(c, b)
	c.Finish()
}
