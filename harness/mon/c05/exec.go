package c05

import (
	"context"
	"errors"
	"fmt"
	"strings"
	"sync"
	"sync/atomic"
	"time"

	"github.com/codenotary/immudb/embedded/store"

	"verifharness/internal/fw"
)

// what a ValueRef showed
type refLog struct {
	Tx     uint64
	HC     uint64
	MD     mdKind
	Val    string
	ValErr string `json:",omitempty"` // "exp": Resolve refused an expired entry
}

type rowLog struct {
	Step string
	I, F uint64  `json:",omitempty"`
	Err  string  `json:",omitempty"` // "" | end | limit | other:…
	Key  string  `json:",omitempty"`
	Ref  *refLog `json:",omitempty"`
	T    uint64  // ticket after the step
}

type opLog struct {
	Op     opSpec
	T0, T1 uint64   // tickets before the call and after the reply
	Err    string   `json:",omitempty"` // "" | nf | exp | limit | other:…
	Key    string   `json:",omitempty"` // key returned by a prefix get
	Ref    *refLog  `json:",omitempty"`
	Rows   []rowLog `json:",omitempty"`
}

type txLog struct {
	Prog       *txProg
	Round      int
	Begin      uint64
	SnapT      [2]uint64 // ticket after the first operation served by each index (the snapshot exists from then on)
	Ops        []opLog
	CommitCall uint64
	CommitRet  uint64
	Outcome    string // committed | conflict | cancelled | empty | error:…
	ErrText    string `json:",omitempty"`
	ID         uint64 `json:",omitempty"`
}

var fixedLive = time.Date(2100, 1, 1, 0, 0, 0, 0, time.UTC)
var fixedExpired = time.Date(2001, 1, 1, 0, 0, 0, 0, time.UTC)

func mkMD(k mdKind) *store.KVMetadata {
	switch k {
	case mdLive:
		md := store.NewKVMetadata()
		md.ExpiresAt(fixedLive)
		return md
	case mdExpired:
		md := store.NewKVMetadata()
		md.ExpiresAt(fixedExpired)
		return md
	case mdDeleted:
		md := store.NewKVMetadata()
		md.AsDeleted(true)
		return md
	}
	return nil
}

func mdOf(md *store.KVMetadata) mdKind {
	if md == nil {
		return mdNone
	}
	if md.Deleted() {
		return mdDeleted
	}
	if md.IsExpirable() {
		if t, err := md.ExpirationTime(); err == nil && t.Year() < 2050 {
			return mdExpired
		}
		return mdLive
	}
	return mdNone
}

func mkRef(v store.ValueRef) *refLog {
	r := &refLog{Tx: v.Tx(), HC: v.HC(), MD: mdOf(v.KVMetadata())}
	val, err := v.Resolve()
	switch {
	case err == nil:
		r.Val = string(val)
	case errors.Is(err, store.ErrExpiredEntry):
		r.ValErr = "exp"
	default:
		r.ValErr = "err:" + err.Error()
	}
	return r
}

func mkFilters(f int) []store.FilterFn {
	var out []store.FilterFn
	if f&fExpired != 0 {
		out = append(out, store.IgnoreExpired)
	}
	if f&fDeleted != 0 {
		out = append(out, store.IgnoreDeleted)
	}
	return out
}

func errClass(err error) string {
	switch {
	case err == nil:
		return ""
	case errors.Is(err, store.ErrExpiredEntry):
		return "exp"
	case errors.Is(err, store.ErrKeyNotFound):
		return "nf"
	case errors.Is(err, store.ErrNoMoreEntries):
		return "end"
	case errors.Is(err, store.ErrMVCCReadSetLimitExceeded):
		return "limit"
	}
	return "other:" + err.Error()
}

// errKind reduces an unexpected error to a stable class name for counters.
func errKind(s string) string {
	s = strings.TrimPrefix(s, "other:")
	s = strings.TrimPrefix(s, "error:")
	for _, known := range []string{"ts is greater than current ts", "already closed", "context deadline exceeded", "context canceled", "max active snapshots", "readers not closed", "cannot change a non-transient key", "max number of entries", "snapshots not closed"} {
		if strings.Contains(s, known) {
			return strings.ReplaceAll(known, " ", "-")
		}
	}
	if len(s) > 60 {
		s = s[:60]
	}
	return strings.ReplaceAll(s, " ", "-")
}

// recorder of the internal facts notified by the hooks, on the same ticket counter as the API events
type notes struct {
	ticket  atomic.Uint64
	mu      sync.Mutex
	issued  map[uint64]uint64 // tx id -> ticket of store.issued
	indexed map[uint64]uint64 // tx id -> ticket of the first indexer.bulk covering it
	nIdx    int
	count   map[uint64]int // tx id -> number of indexer.bulk notes covering it
	reindex []reindexNote  // bulk notes for ids every index had already covered (an index went back)
}

type reindexNote struct{ t, id uint64 }

func newNotes(nIdx int) *notes {
	return &notes{issued: map[uint64]uint64{}, indexed: map[uint64]uint64{}, count: map[uint64]int{}, nIdx: nIdx}
}

// reindexedAfter: some index covered, after ticket t, an id <= upto that all indexes had already covered.
func (n *notes) reindexedAfter(t, upto uint64) bool {
	n.mu.Lock()
	defer n.mu.Unlock()
	for _, r := range n.reindex {
		if r.t > t && r.id <= upto {
			return true
		}
	}
	return false
}

func (n *notes) tick() uint64 { return n.ticket.Add(1) }

func (n *notes) onNote(site string, a, b uint64, _ [32]byte) {
	t := n.tick()
	n.mu.Lock()
	switch site {
	case "store.issued":
		n.issued[a] = t // an id issued again (after a discarded precommit) keeps the latest
	case "indexer.bulk":
		for id := a; id <= b && id < a+64; id++ {
			if _, ok := n.indexed[id]; !ok {
				n.indexed[id] = t
			}
			n.count[id]++
			if n.count[id] > n.nIdx && len(n.reindex) < 1<<16 {
				n.reindex = append(n.reindex, reindexNote{t, id})
			}
		}
	}
	n.mu.Unlock()
}

func (n *notes) issuedAt(id uint64) uint64 { n.mu.Lock(); defer n.mu.Unlock(); return n.issued[id] }
func (n *notes) indexedAt(id uint64) uint64 {
	n.mu.Lock()
	defer n.mu.Unlock()
	return n.indexed[id]
}

type executor struct {
	st    *store.ImmuStore
	ks    *keyspace
	nt    *notes
	base  uint64 // committed id at round start + 2 (reference of ReadBetween bounds)
	round int

	onPanic func(sig, text string, tl *txLog, ol *opLog)
}

func (ex *executor) txOptions(p *txProg) *store.TxOptions {
	o := &store.TxOptions{Mode: store.ReadWriteTx}
	if p.Mode == "ro" {
		o.Mode = store.ReadOnlyTx
	}
	switch p.Must {
	case "zero":
		o.SnapshotMustIncludeTxID = func(uint64) uint64 { return 0 }
	case "half":
		o.SnapshotMustIncludeTxID = func(last uint64) uint64 { return last / 2 }
	case "last":
		o.SnapshotMustIncludeTxID = func(last uint64) uint64 { return last }
	case "one":
		o.SnapshotMustIncludeTxID = func(last uint64) uint64 { return min(last, 1) }
	}
	switch p.Renew {
	case "1h":
		o.SnapshotRenewalPeriod = time.Hour
	case "1ns":
		o.SnapshotRenewalPeriod = time.Nanosecond
	}
	return o
}

func (ex *executor) between(st scanStep) (i, f uint64) {
	f = 1
	if ex.base > uint64(st.Back)+1 {
		f = ex.base - uint64(st.Back)
	}
	if st.Width >= 0 && uint64(st.Width) < f {
		i = f - uint64(st.Width)
	}
	return
}

// run executes one transaction program and returns what was observed at the API boundary.
func (ex *executor) run(ctx context.Context, p *txProg) *txLog {
	tl := &txLog{Prog: p, Round: ex.round, Begin: ex.nt.tick()}
	var tx *store.OngoingTx
	var err error
	if p.Mode == "wo" {
		tx, err = ex.st.NewWriteOnlyTx(ctx)
	} else {
		tx, err = ex.st.NewTx(ctx, ex.txOptions(p))
	}
	if err != nil {
		tl.Outcome, tl.ErrText = "error:newtx", err.Error()
		return tl
	}
	abort := false
	touched := func(idx int, errc string) {
		// the snapshot of an index exists once an operation it serves got past tx.snap()
		if tl.SnapT[idx] == 0 && !strings.HasPrefix(errc, "other:") {
			tl.SnapT[idx] = ex.nt.tick()
		}
	}
	for _, op := range p.Ops {
		ol := opLog{Op: op, T0: ex.nt.tick()}
		switch op.K {
		case "get", "getf":
			var v store.ValueRef
			if op.K == "get" {
				v, err = tx.Get(ctx, []byte(op.Key))
			} else {
				v, err = tx.GetWithFilters(ctx, []byte(op.Key), mkFilters(op.Filters)...)
			}
			ol.Err = errClass(err)
			if err == nil {
				ol.Ref = mkRef(v)
			}
			touched(ex.ks.indexOf(op.Key), ol.Err)
		case "prefix":
			var k []byte
			var v store.ValueRef
			var neq []byte
			if op.Neq != "" {
				neq = []byte(op.Neq)
			}
			if op.Filters == fExpired|fDeleted {
				k, v, err = tx.GetWithPrefix(ctx, []byte(op.Prefix), neq)
			} else {
				k, v, err = tx.GetWithPrefixAndFilters(ctx, []byte(op.Prefix), neq, mkFilters(op.Filters)...)
			}
			ol.Err = errClass(err)
			if err == nil {
				ol.Key, ol.Ref = string(k), mkRef(v)
			}
			touched(ex.ks.indexOf(op.Prefix), ol.Err)
		case "mark":
			err = tx.MarkPrefixScanned(ctx, ex.spec(op))
			ol.Err = errClass(err)
			touched(ex.ks.indexOf(op.Prefix), ol.Err)
		case "scan":
			// a panic in the calling goroutine is recovered so that the case goes on (other goroutines'
			// panics kill the child and are reported by the framework as crash/...)
			if panicked, sig, text := fw.Guard(func() { ex.scan(ctx, tx, &ol, tl) }); panicked {
				ol.Err = "other:panic " + sig
				if ex.onPanic != nil {
					ex.onPanic(sig, text, tl, &ol)
				}
			}
		case "set":
			err = tx.Set([]byte(op.Key), mkMD(op.MD), []byte(op.Val))
			ol.Err = errClass(err)
			if p.Mode == "rw" {
				touched(ex.ks.indexOf(op.Key), ol.Err)
			}
		case "tset":
			err = tx.SetTransient([]byte(op.Key), nil, []byte(op.Val))
			ol.Err = errClass(err)
			touched(ex.ks.indexOf(op.Key), ol.Err)
		case "del":
			err = tx.Delete(ctx, []byte(op.Key))
			ol.Err = errClass(err)
			touched(ex.ks.indexOf(op.Key), ol.Err)
		}
		ol.T1 = ex.nt.tick()
		tl.Ops = append(tl.Ops, ol)
		if strings.HasPrefix(ol.Err, "other:") {
			abort = true
			tl.ErrText = ol.Err
			break
		}
	}
	tl.CommitCall = ex.nt.tick()
	switch {
	case abort:
		tx.Cancel()
		tl.Outcome = "error:op"
	case p.End == "cancel":
		if err := tx.Cancel(); err != nil {
			tl.ErrText = err.Error()
		}
		tl.Outcome = "cancelled"
	default:
		var hdr *store.TxHeader
		if p.End == "async" {
			hdr, err = tx.AsyncCommit(ctx)
		} else {
			hdr, err = tx.Commit(ctx)
		}
		switch {
		case hdr != nil:
			tl.Outcome, tl.ID = "committed", hdr.ID
			if err != nil {
				tl.ErrText = err.Error()
			}
		case errors.Is(err, store.ErrTxReadConflict):
			tl.Outcome, tl.ErrText = "conflict", err.Error()
		case errors.Is(err, store.ErrNoEntriesProvided):
			tl.Outcome = "empty"
		default:
			tl.Outcome, tl.ErrText = "error:commit", fmt.Sprint(err)
		}
	}
	tl.CommitRet = ex.nt.tick()
	return tl
}

func (ex *executor) spec(op opSpec) store.KeyReaderSpec {
	sp := store.KeyReaderSpec{Prefix: []byte(op.Prefix), InclusiveSeek: op.IncSeek, InclusiveEnd: op.IncEnd, DescOrder: op.Desc,
		Offset: op.Offset, Filters: mkFilters(op.Filters)}
	if op.Seek != "" {
		sp.SeekKey = []byte(op.Seek)
	}
	if op.End != "" {
		sp.EndKey = []byte(op.End)
	}
	return sp
}

func (ex *executor) scan(ctx context.Context, tx *store.OngoingTx, ol *opLog, tl *txLog) {
	op := ol.Op
	idx := ex.ks.indexOf(op.Prefix)
	rd, err := tx.NewKeyReader(ex.spec(op))
	ol.Err = errClass(err)
	if err != nil {
		return
	}
	if tl.SnapT[idx] == 0 {
		tl.SnapT[idx] = ex.nt.tick()
	}
	defer rd.Close()
	ended := false
	for _, st := range op.Steps {
		row := rowLog{Step: st.K}
		switch st.K {
		case "reset":
			row.Err = errClass(rd.Reset())
			ended = false
		case "wset":
			row.Key = st.Key
			row.Err = errClass(tx.Set([]byte(st.Key), nil, []byte(st.Val)))
			if row.Err == "" && tl.SnapT[ex.ks.indexOf(st.Key)] == 0 {
				tl.SnapT[ex.ks.indexOf(st.Key)] = ex.nt.tick()
			}
		default:
			if ended {
				continue // the pass is over; reading on only repeats "no more entries"
			}
			var k []byte
			var v store.ValueRef
			if st.K == "between" {
				row.I, row.F = ex.between(st)
				k, v, err = rd.ReadBetween(ctx, row.I, row.F)
			} else {
				k, v, err = rd.Read(ctx)
			}
			row.Err = errClass(err)
			if err == nil {
				row.Key, row.Ref = string(k), mkRef(v)
			}
			ended = row.Err == "end"
		}
		row.T = ex.nt.tick()
		ol.Rows = append(ol.Rows, row)
		if row.Err != "" && row.Err != "end" {
			if strings.HasPrefix(row.Err, "other:") {
				ol.Err = row.Err
			}
			return
		}
	}
}
