package c05

import (
	"fmt"
	"math/rand/v2"
	"sort"
)

// kinds of key-value metadata used by the workload (expiry only with the two fixed instants)
type mdKind byte

const (
	mdNone    mdKind = iota
	mdDeleted        // written by Delete
	mdLive           // expires 2100-01-01: never expired
	mdExpired        // expires 2001-01-01: always expired
)

// filter bit mask; the filters are always passed in the order IgnoreExpired, IgnoreDeleted
const (
	fExpired = 1
	fDeleted = 2
)

type scanStep struct {
	K     string // read | between | reset | wset
	Back  int    `json:",omitempty"` // between: finalTxID = max(1, base-Back) where base = committed id at round start + 2
	Width int    `json:",omitempty"` // between: initialTxID = finalTxID-Width (0 when Width < 0 or larger than finalTxID)
	Key   string `json:",omitempty"` // wset: key written while the reader is open
	Val   string `json:",omitempty"`
}

type opSpec struct {
	K       string     // get | getf | prefix | scan | mark | set | del | tset
	Key     string     `json:",omitempty"`
	Filters int        `json:",omitempty"`
	Prefix  string     `json:",omitempty"`
	Neq     string     `json:",omitempty"`
	Seek    string     `json:",omitempty"`
	End     string     `json:",omitempty"`
	IncSeek bool       `json:",omitempty"`
	IncEnd  bool       `json:",omitempty"`
	Desc    bool       `json:",omitempty"`
	Offset  uint64     `json:",omitempty"`
	Steps   []scanStep `json:",omitempty"`
	MD      mdKind     `json:",omitempty"`
	Val     string     `json:",omitempty"`
}

type txProg struct {
	Name  string
	Mode  string // rw | wo | ro
	Must  string // nil | zero | half | last | one   (TxOptions.SnapshotMustIncludeTxID)
	Renew string // 0 | 1h | 1ns                      (TxOptions.SnapshotRenewalPeriod)
	Ops   []opSpec
	End   string // commit | async | cancel
}

type keyspace struct {
	nIdx  int
	round int      // current round (set before the programs of a round are generated)
	keys  []string // keys written non-transiently
	tkeys []string // keys only ever written with SetTransient
	miss  []string // keys never written
}

func idxPrefix(i int) string { return string(rune('a'+i)) + ":" }

func newKeyspace(nKeys, nIdx int) *keyspace {
	ks := &keyspace{nIdx: nIdx}
	for i := 0; i < nKeys; i++ {
		p := idxPrefix(0)
		if i%2 == 1 {
			p = idxPrefix(1) // always two key families; with one index both live in the same tree
		}
		ks.keys = append(ks.keys, fmt.Sprintf("%sk%02d", p, i/2))
	}
	sort.Strings(ks.keys)
	for i := 0; i < 2; i++ {
		ks.tkeys = append(ks.tkeys, fmt.Sprintf("%sk%02dt", idxPrefix(i), 1+i))
		ks.miss = append(ks.miss, idxPrefix(i)+"k99", idxPrefix(i)+"j")
	}
	return ks
}

// indexOf tells which index (snapshot) serves a key or prefix.
func (ks *keyspace) indexOf(k string) int {
	if ks.nIdx == 2 && len(k) > 0 && k[0] == 'b' {
		return 1
	}
	return 0
}

// freshPrefix is a key family nobody has written before round ks.round: the i-th transactions of all
// goroutines of the round share it, so that keys under it are being inserted while others read it.
func (ks *keyspace) freshPrefix(idx, i int) string {
	return fmt.Sprintf("%sn%02d_%d", idxPrefix(idx), ks.round, i)
}

// ownPrefixProg: the transaction writes a key nobody else writes and then reads it back ONLY through prefix
// gets (and, in a minority, short reader passes) that its own pending entry answers; whether that answer is
// the one of its commit point depends on nothing but the absence of a smaller key with the prefix, which
// write-only committers and the sibling transactions insert meanwhile. Most of these programs contain no
// other read at all.
func (ks *keyspace) ownPrefixProg(r *rand.Rand, vg valGen, n int) *txProg {
	p := &txProg{Name: fmt.Sprintf("%s#%d", vg.name, n), Mode: "rw", Must: mustKinds[r.IntN(len(mustKinds))], Renew: renewKinds[r.IntN(len(renewKinds))]}
	fp := ks.freshPrefix(r.IntN(2), n)
	own := fp + "m" + vg.name // committers insert fp+"c…": smaller
	p.Ops = append(p.Ops, opSpec{K: "set", Key: own, Val: vg.next()})
	if r.IntN(4) == 0 {
		p.Ops = append(p.Ops, opSpec{K: "set", Key: fp + "p" + vg.name, Val: vg.next()})
	}
	pure := r.IntN(10) < 7
	for i, k := 0, 1+r.IntN(3); i < k; i++ {
		op := opSpec{K: "prefix", Prefix: []string{fp, fp, fp + "m", fp[:len(fp)-1]}[r.IntN(4)], Filters: fExpired | fDeleted}
		switch r.IntN(4) {
		case 0:
			op.Neq = fp + "a" // below everything written under the prefix
		case 1:
			op.Neq = fp + "d" // above the committers' keys: the answer does not depend on them
		}
		if r.IntN(3) == 0 {
			op.Filters = filters(r)
		}
		if !pure && r.IntN(3) == 0 {
			// reader pass ending at the own key (early termination)
			op = opSpec{K: "scan", Prefix: fp, Desc: r.IntN(4) == 0, IncSeek: true, Steps: []scanStep{{K: "read"}}}
		}
		p.Ops = append(p.Ops, op)
	}
	if !pure {
		if r.IntN(2) == 0 {
			p.Ops = append(p.Ops, ks.readOp(r, true, false, vg))
		} else {
			p.Ops = append(p.Ops, ks.writeOp(r, vg))
		}
	}
	p.End = []string{"commit", "commit", "commit", "async", "async", "commit", "async", "commit", "commit", "cancel"}[r.IntN(10)]
	return p
}

func (ks *keyspace) key(r *rand.Rand) string {
	switch x := r.IntN(100); {
	case x < 6:
		return ks.miss[r.IntN(len(ks.miss))]
	case x < 10:
		return ks.tkeys[r.IntN(len(ks.tkeys))]
	}
	return ks.keys[r.IntN(len(ks.keys))]
}

func (ks *keyspace) prefix(r *rand.Rand) string {
	p := idxPrefix(r.IntN(2))
	switch r.IntN(7) {
	case 0, 1:
		return p
	case 2:
		return p + "k"
	case 3:
		return p + "k0"
	case 4:
		return p + fmt.Sprintf("k%02d", r.IntN(12))
	case 5:
		return p + fmt.Sprintf("k%d", r.IntN(2))
	}
	return p + "x" // nothing carries it
}

func filters(r *rand.Rand) int {
	return []int{0, fDeleted, fExpired, fExpired | fDeleted, fExpired | fDeleted}[r.IntN(5)]
}

func (ks *keyspace) bound(r *rand.Rand, p string) string {
	switch r.IntN(4) {
	case 0:
		return ""
	case 1:
		return p + fmt.Sprintf("k%02d", r.IntN(12)) + "0" // between two keys
	}
	return p + fmt.Sprintf("k%02d", r.IntN(12))
}

type valGen struct {
	name string
	seq  *int
}

func (g valGen) next() string { *g.seq++; return fmt.Sprintf("%s-%d", g.name, *g.seq) }

func (ks *keyspace) scan(r *rand.Rand, wrote, ro bool, vg valGen) opSpec {
	op := opSpec{K: "scan", Prefix: ks.prefix(r), Desc: r.IntN(2) == 0, IncSeek: r.IntN(2) == 0, IncEnd: r.IntN(2) == 0}
	ip := op.Prefix[:2]
	if r.IntN(5) < 3 {
		op.Seek = ks.bound(r, ip)
	}
	if r.IntN(5) < 2 {
		op.End = ks.bound(r, ip)
	}
	if r.IntN(10) < 3 {
		op.Offset = 1 + r.Uint64N(3)
	}
	op.Filters = []int{0, 0, fDeleted, fExpired | fDeleted}[r.IntN(4)]
	wset := !ro && op.Offset == 0 && op.Filters == 0 && r.IntN(8) == 0
	between := !wrote && !wset && r.IntN(4) == 0
	pass := func() {
		n := 64 // until the end
		if r.IntN(5) < 2 {
			n = 1 + r.IntN(4) // early termination
		}
		for i := 0; i < n; i++ {
			st := scanStep{K: "read"}
			if between && r.IntN(2) == 0 {
				st = scanStep{K: "between", Back: r.IntN(12), Width: r.IntN(14) - 2}
			}
			op.Steps = append(op.Steps, st)
			if wset && i == r.IntN(3) {
				op.Steps = append(op.Steps, scanStep{K: "wset", Key: ks.keys[r.IntN(len(ks.keys))], Val: vg.next()})
			}
		}
	}
	pass()
	if r.IntN(4) == 0 {
		op.Steps = append(op.Steps, scanStep{K: "reset"})
		pass()
	}
	return op
}

func (ks *keyspace) readOp(r *rand.Rand, wrote, ro bool, vg valGen) opSpec {
	switch x := r.IntN(100); {
	case x < 38:
		return opSpec{K: "get", Key: ks.key(r), Filters: fExpired | fDeleted}
	case x < 48:
		return opSpec{K: "getf", Key: ks.key(r), Filters: filters(r)}
	case x < 64:
		op := opSpec{K: "prefix", Prefix: ks.prefix(r), Filters: fExpired | fDeleted}
		if r.IntN(2) == 0 {
			op.Neq = op.Prefix[:2] + fmt.Sprintf("k%02d", r.IntN(6))
		}
		if r.IntN(4) == 0 {
			op.Filters = filters(r)
		}
		return op
	case x < 92 || ro:
		return ks.scan(r, wrote, ro, vg)
	}
	op := ks.scan(r, true, true, vg) // bounds of the fingerprinted range; steps unused
	op.K, op.Steps, op.Offset, op.Filters = "mark", nil, 0, 0
	return op
}

func (ks *keyspace) writeOp(r *rand.Rand, vg valGen) opSpec {
	switch x := r.IntN(100); {
	case x < 68:
		md := mdNone
		switch r.IntN(10) {
		case 0:
			md = mdLive
		case 1:
			md = mdExpired
		}
		return opSpec{K: "set", Key: ks.keys[r.IntN(len(ks.keys))], Val: vg.next(), MD: md}
	case x < 88:
		return opSpec{K: "del", Key: ks.keys[r.IntN(len(ks.keys))]}
	}
	return opSpec{K: "tset", Key: ks.tkeys[r.IntN(len(ks.tkeys))], Val: vg.next()}
}

var mustKinds = []string{"nil", "zero", "zero", "half", "last", "one"}
var renewKinds = []string{"0", "0", "1h", "1ns"}

func (ks *keyspace) rwProg(r *rand.Rand, vg valGen, n int) *txProg {
	if r.IntN(100) < 22 {
		return ks.ownPrefixProg(r, vg, n)
	}
	p := &txProg{Name: fmt.Sprintf("%s#%d", vg.name, n), Mode: "rw", Must: mustKinds[r.IntN(len(mustKinds))], Renew: renewKinds[r.IntN(len(renewKinds))]}
	nops := 2 + r.IntN(6)
	wrote := false
	for i := 0; i < nops; i++ {
		if r.IntN(100) < 62 {
			op := ks.readOp(r, wrote, false, vg)
			for _, st := range op.Steps {
				wrote = wrote || st.K == "wset"
			}
			p.Ops = append(p.Ops, op)
		} else {
			p.Ops = append(p.Ops, ks.writeOp(r, vg))
			wrote = true
		}
	}
	switch x := r.IntN(10); {
	case x < 6:
		p.End = "commit"
	case x < 8:
		p.End = "async"
	default:
		p.End = "cancel"
	}
	if p.End != "cancel" && !wrote {
		p.Ops = append(p.Ops, opSpec{K: "set", Key: ks.keys[r.IntN(len(ks.keys))], Val: vg.next()})
	}
	return p
}

func (ks *keyspace) woProg(r *rand.Rand, vg valGen, n int) *txProg {
	p := &txProg{Name: fmt.Sprintf("%s#%d", vg.name, n), Mode: "wo", End: []string{"commit", "async", "async"}[r.IntN(3)]}
	seen := map[string]bool{}
	for i, k := 0, 1+r.IntN(4); i < k; i++ {
		key := ks.keys[r.IntN(len(ks.keys))]
		if seen[key] && r.IntN(2) == 0 {
			continue
		}
		seen[key] = true
		md := mdNone
		if x := r.IntN(12); x == 0 {
			md = mdExpired
		} else if x == 1 {
			md = mdLive
		}
		p.Ops = append(p.Ops, opSpec{K: "set", Key: key, Val: vg.next(), MD: md})
	}
	if r.IntN(10) < 6 {
		// a key below the ones the own-prefix programs of this step write
		p.Ops = append(p.Ops, opSpec{K: "set", Key: ks.freshPrefix(r.IntN(2), n) + "c" + vg.name, Val: vg.next()})
	}
	if len(p.Ops) == 0 {
		p.Ops = append(p.Ops, opSpec{K: "set", Key: ks.keys[r.IntN(len(ks.keys))], Val: vg.next()})
	}
	return p
}

func (ks *keyspace) roProg(r *rand.Rand, vg valGen, n int) *txProg {
	p := &txProg{Name: fmt.Sprintf("%s#%d", vg.name, n), Mode: "ro", Must: mustKinds[r.IntN(len(mustKinds))], Renew: renewKinds[r.IntN(len(renewKinds))], End: "cancel"}
	for i, k := 0, 2+r.IntN(5); i < k; i++ {
		p.Ops = append(p.Ops, ks.readOp(r, false, true, vg))
	}
	return p
}
