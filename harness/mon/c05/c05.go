// Package c05: monitor for property C05 (see DESIGN.md section 2).
package c05
