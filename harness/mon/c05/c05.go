// Package c05: read-write transactions are serializable in commit order (MVCC).
//
// Goroutines run PRNG transaction programs (point reads, filtered reads, prefix reads,
// range scans, prefix fingerprints, sets, deletes, transient sets) against one store with
// arbitrarily stale snapshots, next to write-only committers, read-only readers, index
// maintenance and schedule perturbation at the verifhook points. Everything observed at the
// API boundary is logged; after every round the oracle replays the committed transactions in
// header-id order on a multi-version reference map and compares every logged read.
package c05

import (
	"bytes"
	"context"
	"crypto/sha256"
	"encoding/json"
	"errors"
	"fmt"
	"math/rand/v2"
	"os"
	"sort"
	"strings"
	"sync"
	"time"

	"github.com/codenotary/immudb/embedded/store"

	"verifharness/internal/fw"
	"verifharness/internal/hook"
	"verifharness/internal/kvmodel"
	"verifharness/internal/sth"
)

func init() {
	fw.RegisterMonitor("C05", "exploration", Run)
	fw.RegisterIsolated("c05-case", runCase)
}

type caseSpec struct {
	Name         string
	NIdx         int
	NKeys        int
	Rounds       int
	NodeSize     int
	FlushThld    int
	ReadSetLimit int
	Embedded     bool
	Perturb      float64
	MaxSleepUs   int
	MaintPct     int // share of rounds with index maintenance in the background
}

func genCase(r *rand.Rand, i, rounds int) caseSpec {
	cs := caseSpec{
		Name:         fmt.Sprintf("case%d", i),
		NIdx:         1 + i%2,
		NKeys:        8 + r.IntN(17),
		Rounds:       rounds,
		NodeSize:     []int{512, 512, 4096}[r.IntN(3)],
		FlushThld:    []int{8, 40, 100000}[r.IntN(3)],
		ReadSetLimit: []int{24, 100000, 100000}[r.IntN(3)],
		Embedded:     r.IntN(3) == 0,
		Perturb:      []float64{0.15, 0.35, 0.6}[r.IntN(3)],
		MaxSleepUs:   []int{200, 1000, 3000}[r.IntN(3)],
		MaintPct:     []int{0, 30, 60}[i%3],
	}
	return cs
}

func (cs caseSpec) String() string {
	b, _ := json.Marshal(cs)
	return string(b)
}

func (cs caseSpec) options() *store.Options {
	o := sth.SmallOpts().
		WithMaxConcurrency(40).WithMaxTxEntries(40).WithMaxKeyLen(32).WithMaxValueLen(64).
		WithMultiIndexing(cs.NIdx == 2).WithMVCCReadSetLimit(cs.ReadSetLimit).
		WithEmbeddedValues(cs.Embedded).WithMaxActiveTransactions(1000)
	o.WithIndexOptions(o.IndexOpts.WithMaxNodeSize(cs.NodeSize).WithFlushThld(cs.FlushThld).WithSyncThld(max(cs.FlushThld, 200)).
		WithCompactionThld(1).WithMaxActiveSnapshots(200))
	return o
}

type maintEvent struct {
	T0, T1 uint64
	Op     string
	Err    string `json:",omitempty"`
}

type runner struct {
	c         *fw.Ctx
	cs        caseSpec
	st        *store.ImmuStore
	ks        *keyspace
	nt        *notes
	model     *kvmodel.Model
	done      uint64            // ids replayed so far
	compacted int               // successful CompactIndexes calls so far
	byID      map[uint64]*txLog // committed transactions of all rounds
	abort     bool
}

func (rn *runner) viol(sig, detail string, round int, logs []*txLog, maint []maintEvent) {
	b, _ := json.MarshalIndent(map[string]any{"case": rn.cs, "round": round, "transactions": logs, "maintenance": maint}, "", " ")
	rn.c.Violation(sig, fmt.Sprintf("[%s round %d] %s", rn.cs.Name, round, detail), map[string][]byte{"round.json": b})
}

func runCase(c *fw.Ctx, data []byte) {
	var cs caseSpec
	if err := json.Unmarshal(data, &cs); err != nil {
		c.Inconclusive("bad case: " + err.Error())
		return
	}
	if err := kvmodel.SelfCheck(); err != nil {
		c.Inconclusive(err.Error())
		return
	}
	hcMismatch.Store(0)
	nt := newNotes(cs.NIdx)
	sites := map[string]bool{"store.precommit.beforeLock": true, "store.checkPreconditions": true,
		"indexer.indexSince.afterReadTx": true, "indexer.indexSince.beforeInsert": true}
	h := hook.Install(&hook.Config{Seed: c.Seed*1000 + int64(len(cs.Name)) + int64(cs.NKeys), Perturb: cs.Perturb,
		MaxSleep: time.Duration(cs.MaxSleepUs) * time.Microsecond, Sites: sites, OnNote: nt.onNote})
	defer hook.Uninstall()

	dir := c.Dir("c05-" + cs.Name)
	defer os.RemoveAll(dir)
	st, err := store.Open(dir, cs.options())
	if err != nil {
		c.Inconclusive("open: " + err.Error())
		return
	}
	defer st.Close()
	if cs.NIdx == 2 {
		for i := 0; i < 2; i++ {
			p := []byte(idxPrefix(i))
			if err := st.InitIndexing(&store.IndexSpec{SourcePrefix: p, TargetPrefix: p}); err != nil {
				c.Inconclusive("init indexing: " + err.Error())
				return
			}
		}
	}
	rn := &runner{c: c, cs: cs, st: st, ks: newKeyspace(cs.NKeys, cs.NIdx), nt: nt, model: kvmodel.New(), byID: map[uint64]*txLog{}}
	for round := 0; round < cs.Rounds && !rn.abort; round++ {
		rn.round(round)
	}
	c.Count("comparisons_with_right_version_but_other_revision_count", hcMismatch.Load())
	hits := h.Hits()
	hm := map[string]uint64{}
	for k, v := range hits {
		hm[k] = v
	}
	c.Set("hook_site_hits", hm)
	if hits["store.precommit.beforeLock"] == 0 || hits["note:store.issued"] == 0 || hits["store.checkPreconditions"] == 0 {
		c.Inconclusive("hook sites never reached: was the harness built with -tags verif?")
	}
}

func (rn *runner) round(round int) {
	c, cs := rn.c, rn.cs
	r := fw.NewRand(c.Seed, fmt.Sprintf("c05/%s/round%d", cs.Name, round))
	nRW, nWO, nRO, txPer := 4+r.IntN(5), 1+r.IntN(2), 1+r.IntN(2), 3+r.IntN(3)
	maint := r.IntN(100) < cs.MaintPct
	if os.Getenv("VERIF_C05_NO_MAINT") != "" {
		maint = false // development aid (mutant validation on a tree whose index restart is still defective)
	}

	// programs: a pure function of (seed, case, round, goroutine)
	type worker struct {
		name  string
		progs []*txProg
	}
	var workers []worker
	add := func(role string, n int, gen func(r *rand.Rand, vg valGen, i int) *txProg) {
		for g := 0; g < n; g++ {
			name := fmt.Sprintf("r%d%s%d", round, role, g)
			pr := fw.NewRand(c.Seed, fmt.Sprintf("c05/%s/%s", cs.Name, name))
			seq := 0
			w := worker{name: name}
			for i := 0; i < txPer; i++ {
				w.progs = append(w.progs, gen(pr, valGen{name, &seq}, i))
			}
			workers = append(workers, w)
		}
	}
	rn.ks.round = round
	add("g", nRW, rn.ks.rwProg)
	add("w", nWO, rn.ks.woProg)
	add("q", nRO, rn.ks.roProg)

	ex := &executor{st: rn.st, ks: rn.ks, nt: rn.nt, base: rn.st.LastCommittedTxID() + 2, round: round}
	ex.onPanic = func(sig, text string, tl *txLog, ol *opLog) {
		class := "reader"
		for _, st := range ol.Op.Steps {
			if st.K == "wset" {
				class = "reader-open-during-set"
			}
		}
		b, _ := json.MarshalIndent(map[string]any{"case": cs, "round": round, "program": tl.Prog, "rows_before_the_panic": ol.Rows}, "", " ")
		c.Violation(class+"/panic/"+sig, fmt.Sprintf("[%s round %d] %s: scan %s panicked after %d steps: %s", cs.Name, round, tl.Prog.Name, scanName(&ol.Op), len(ol.Rows), firstLine(text)),
			map[string][]byte{"program.json": b, "panic.txt": []byte(text)})
	}
	var mu sync.Mutex
	var logs []*txLog
	timedOut := false
	var wg sync.WaitGroup
	for _, w := range workers {
		wg.Add(1)
		go func(w worker) {
			defer wg.Done()
			for _, p := range w.progs {
				// generous limit per transaction: its firing decides nothing, it lets the case end
				ctx, cancel := context.WithTimeout(context.Background(), 30*time.Second)
				tl := ex.run(ctx, p)
				to := ctx.Err() != nil
				cancel()
				mu.Lock()
				logs = append(logs, tl)
				timedOut = timedOut || to
				mu.Unlock()
				if to {
					return
				}
			}
		}(w)
	}
	var mlog []maintEvent
	stop := make(chan struct{})
	var bg sync.WaitGroup
	if maint {
		bg.Add(1)
		go func() {
			defer bg.Done()
			mr := fw.NewRand(c.Seed, fmt.Sprintf("c05/%s/round%d/maint", cs.Name, round))
			for {
				select {
				case <-stop:
					return
				default:
				}
				ev := maintEvent{T0: rn.nt.tick()}
				var err error
				switch mr.IntN(3) {
				case 0:
					ev.Op = "compact"
					err = rn.st.CompactIndexes()
				case 1:
					ev.Op = "flush"
					err = rn.st.FlushIndexes(float32(mr.IntN(101)), mr.IntN(2) == 0)
				default:
					ev.Op = "flush0"
					err = rn.st.FlushIndexes(0, false)
				}
				ev.T1 = rn.nt.tick()
				if err != nil {
					ev.Err = err.Error()
				}
				mlog = append(mlog, ev)
				time.Sleep(time.Duration(mr.IntN(1500)) * time.Microsecond)
			}
		}()
	}
	t0 := time.Now()
	wg.Wait()
	close(stop)
	bg.Wait()
	if os.Getenv("VERIF_C05_DEBUG") != "" {
		fmt.Fprintf(os.Stderr, "%s round %d: %d workers x %d txs, maint=%v: %v\n", cs.Name, round, len(workers), txPer, maint, time.Since(t0))
	}
	if timedOut {
		c.Inconclusive(fmt.Sprintf("[%s round %d] a transaction did not finish within 30 s", cs.Name, round))
		rn.abort = true
		return
	}
	sort.Slice(logs, func(i, j int) bool { return logs[i].Begin < logs[j].Begin })
	c.Count("rounds", 1)
	if maint {
		c.Count("rounds_with_maintenance", 1)
	}
	for _, ev := range mlog {
		if ev.Err == "" {
			c.Count("maint_"+ev.Op+"_ok", 1)
		} else {
			c.Count("maint_"+ev.Op+"_refused", 1)
		}
	}
	rn.check(round, logs, mlog)
}

// valuesOf lists the unique values a program may write.
func valuesOf(p *txProg) []string {
	var out []string
	for _, op := range p.Ops {
		if op.Val != "" {
			out = append(out, op.Val)
		}
		for _, st := range op.Steps {
			if st.Val != "" {
				out = append(out, st.Val)
			}
		}
	}
	return out
}

func isCtxErr(s string) bool {
	return strings.Contains(s, context.DeadlineExceeded.Error()) || strings.Contains(s, context.Canceled.Error())
}

func isRead(k string) bool {
	return k == "get" || k == "getf" || k == "prefix" || k == "scan" || k == "del"
}

func (rn *runner) check(round int, logs []*txLog, mlog []maintEvent) {
	c := rn.c
	st := rn.st
	n := st.LastCommittedTxID()
	if p := st.LastPrecommittedTxID(); p != n {
		c.Inconclusive(fmt.Sprintf("[%s round %d] precommitted %d != committed %d at a quiescent point", rn.cs.Name, round, p, n))
		rn.abort = true
		return
	}
	// read reports are held back until the index itself was compared with the log: reads served by an index
	// that lost or mislabelled entries are consequences of that, not failures of the MVCC validation
	type report struct{ sig, detail string }
	var pending []report
	fail := func(sig, detail string) {
		if strings.HasPrefix(sig, "rw-committed/") || strings.HasPrefix(sig, "snapshot-read/") {
			pending = append(pending, report{sig, detail})
			return
		}
		rn.viol(sig, detail, round, logs, mlog)
	}
	for _, ev := range mlog {
		if ev.Op == "compact" && ev.Err == "" {
			rn.compacted++
		}
	}

	owner := map[string]*txLog{}
	for _, tl := range logs {
		for _, v := range valuesOf(tl.Prog) {
			owner[v] = tl
		}
		c.Count("tx_"+tl.Prog.Mode+"_"+strings.SplitN(tl.Outcome, ":", 2)[0], 1)
		if strings.HasPrefix(tl.Outcome, "error") {
			c.Count("err_"+errKind(tl.ErrText), 1)
		}
	}
	// 1. who committed what: ids are claimed by acknowledgements
	for _, tl := range logs {
		if tl.Outcome != "committed" {
			continue
		}
		if prev, dup := rn.byID[tl.ID]; dup {
			fail("commit/id-acknowledged-twice", fmt.Sprintf("tx id %d acknowledged to %s and to %s", tl.ID, prev.Prog.Name, tl.Prog.Name))
			continue
		}
		if tl.ID <= rn.done || tl.ID > n {
			fail("commit/id-outside-committed-range", fmt.Sprintf("%s acknowledged with id %d; ids of this round are %d..%d", tl.Prog.Name, tl.ID, rn.done+1, n))
			continue
		}
		rn.byID[tl.ID] = tl
	}
	holder := store.NewTx(48, 40)
	readEntries := func(id uint64) ([]*store.TxEntry, error) {
		if err := st.ReadTx(id, false, holder); err != nil {
			return nil, err
		}
		return holder.Entries(), nil
	}
	for id := rn.done + 1; id <= n; id++ {
		if rn.byID[id] != nil {
			continue
		}
		// nobody was told that this transaction committed: find its author through the unique values
		es, err := readEntries(id)
		if err != nil {
			c.Inconclusive(fmt.Sprintf("[%s round %d] ReadTx(%d): %v", rn.cs.Name, round, id, err))
			rn.abort = true
			return
		}
		var author *txLog
		for _, tl := range logs {
			if tl.Outcome == "committed" {
				continue
			}
			ws := txWrites(tl)
			if len(ws) == len(es) && len(ws) > 0 {
				same := true
				for i, w := range ws {
					same = same && string(es[i].Key()) == w.key && es[i].HVal() == sha256.Sum256([]byte(w.val))
				}
				if same && (author == nil || author.Outcome == "conflict" || author.Outcome == "cancelled") {
					author = tl // several candidates (delete-only txs): prefer the one whose outcome explains the commit
				}
			}
		}
		switch {
		case author == nil:
			c.Inconclusive(fmt.Sprintf("[%s round %d] committed tx %d cannot be attributed to a logged transaction", rn.cs.Name, round, id))
			rn.abort = true
			return
		case author.Outcome == "conflict" || author.Outcome == "cancelled":
			fail("rejected-tx-left-trace/"+author.Outcome, fmt.Sprintf("%s ended with %s (%s) but its entries are committed as tx %d", author.Prog.Name, author.Outcome, author.ErrText, id))
			author.ID = id // replay goes on with what the log holds
			rn.byID[id] = author
		default:
			// a commit that failed with another error (e.g. an expired context) may have happened: the statement
			// does not speak about it; it is adopted as committed and replayed like the others
			c.Count("commit_error_but_committed", 1)
			c.Note(fmt.Sprintf("%s: commit returned %q but the tx is committed as %d", author.Prog.Name, author.ErrText, id))
			author.ID = id
			author.Outcome = "committed"
			rn.byID[id] = author
		}
	}

	compactions := []maintEvent{}
	for _, ev := range mlog {
		if ev.Op == "compact" && ev.Err == "" {
			compactions = append(compactions, ev)
		}
	}

	// 2. replay in commit order
	seenH := map[[32]byte]uint64{}
	for id := rn.done + 1; id <= n; id++ {
		tl := rn.byID[id]
		view := rn.model.At(id - 1)
		if tl.Prog.Mode == "rw" {
			own := map[string]ownEntry{}
			for i := range tl.Ops {
				ol := &tl.Ops[i]
				if isRead(ol.Op.K) {
					c.Eval(1)
					if d := readDiff(view, own, ol); d != "" {
						rn.reportRead(tl, i, d, own, compactions, fail)
					}
				} else if ol.Op.K == "mark" && ol.Err == "" {
					c.Eval(1)
					rn.checkMark(tl, ol, fail)
				}
				applyWrite(own, ol)
			}
		}
		// the transaction log holds exactly what the transaction wrote
		ws := txWrites(tl)
		es, err := readEntries(id)
		if err != nil {
			c.Inconclusive(fmt.Sprintf("[%s round %d] ReadTx(%d): %v", rn.cs.Name, round, id, err))
			rn.abort = true
			return
		}
		c.Eval(1)
		ok := len(es) == len(ws)
		for i := 0; ok && i < len(ws); i++ {
			ok = string(es[i].Key()) == ws[i].key && es[i].HVal() == sha256.Sum256([]byte(ws[i].val)) && mdOf(es[i].Metadata()) == ws[i].md
		}
		if !ok {
			fail("committed-tx/entries-differ-from-writes", fmt.Sprintf("tx %d (%s) holds %d entries %s; the transaction wrote %v", id, tl.Prog.Name, len(es), entryKeys(es), ws))
		}
		for _, e := range es {
			seenH[e.HVal()] = id
		}
		for _, w := range ws {
			if _, err := rn.model.Set([]byte(w.key), encVal(w.md, w.val), id); err != nil {
				c.Inconclusive("model: " + err.Error())
				rn.abort = true
				return
			}
		}
		rn.model.AdvanceTs(id)
	}
	first := rn.done + 1
	rn.done = n

	// 3. transactions that did not commit left no trace; snapshot reads are consistent
	for _, tl := range logs {
		if tl.Outcome == "committed" {
			continue
		}
		if tl.Prog.Mode != "ro" {
			c.Eval(1)
			for _, v := range valuesOf(tl.Prog) {
				if id, found := seenH[sha256.Sum256([]byte(v))]; found {
					fail("rejected-tx-left-trace/"+strings.SplitN(tl.Outcome, ":", 2)[0], fmt.Sprintf("value %q of %s (%s) is stored in committed tx %d", v, tl.Prog.Name, tl.Outcome, id))
				}
			}
		}
		if tl.Outcome == "conflict" {
			rn.classifyConflict(tl, first, n)
		}
		rn.checkSnapshotReads(tl, n, fail)
	}
	rn.fingerprints(logs)
	why, inconclusive := rn.indexDiverged(n)
	switch {
	case inconclusive:
		c.Inconclusive(fmt.Sprintf("[%s round %d] %s", rn.cs.Name, round, why))
		rn.abort = true
	case why != "":
		ctx := "no-maintenance"
		if rn.compacted > 0 {
			ctx = "after-index-compaction"
		}
		rn.viol("index-diverged-from-log/"+ctx, fmt.Sprintf("with every index reporting tx %d as indexed: %s (%d read reports of this round are consequences and not listed)", n, why, len(pending)), round, logs, mlog)
		c.Count("reads_from_diverged_index", int64(len(pending)))
		rn.abort = true // everything read from this store from now on is a consequence
	default:
		for _, p := range pending {
			rn.viol(p.sig, p.detail, round, logs, mlog)
		}
	}
	if round == 0 {
		for _, tl := range logs {
			if tl.Prog.Mode == "rw" && tl.Outcome == "committed" && len(tl.Ops) > 2 {
				c.Sample(map[string]any{"case": rn.cs.Name, "tx": tl.Prog.Name, "id": tl.ID, "ops": len(tl.Ops), "first_op": shape(&tl.Ops[0]), "snapshot_option": tl.Prog.Must + "/" + tl.Prog.Renew})
				break
			}
		}
	}
}

func firstLine(s string) string {
	if i := strings.IndexByte(s, '\n'); i > 0 {
		return s[:i]
	}
	return s
}

func entryKeys(es []*store.TxEntry) string {
	var b bytes.Buffer
	for _, e := range es {
		fmt.Fprintf(&b, "%s ", e.Key())
	}
	return b.String()
}

// reportRead classifies a read of a committed transaction that differs from the state of its commit point.
func (rn *runner) reportRead(tl *txLog, i int, d string, own map[string]ownEntry, compactions []maintEvent, fail func(sig, detail string)) {
	ol := &tl.Ops[i]
	kind := shape(ol)
	class := "read-matches-no-state"
	at := ""
	if strings.Contains(d, "own write") {
		class = "own-write-not-seen"
	} else {
		for t := tl.ID - 1; t > 0; t-- {
			if readDiff(rn.model.At(t-1), own, ol) == "" {
				class, at = "stale-read", fmt.Sprintf(" (the answer is the one of the state after tx %d)", t-1)
				break
			}
		}
	}
	sig := "rw-committed/" + class + "/" + coarse(ol)
	if class == "stale-read" {
		// two situations are recognised from what was recorded, so that each has one signature whatever the read shape
		idx := rn.opIndex(ol)
		if first, wrote := rn.firstSnapshot(tl, i); rn.cs.NIdx == 2 && first != idx && wrote {
			sig = "rw-committed/stale-read/other-index-not-validated"
		}
		for _, ev := range compactions {
			if ev.T1 < tl.CommitRet {
				sig = "rw-committed/stale-read/after-index-compaction"
			}
		}
		if rn.nt.reindexedAfter(tl.CommitCall, tl.ID-1) {
			sig = "rw-committed/stale-read/after-index-compaction"
		}
		if ol.Op.K == "prefix" && ol.Ref != nil && ol.Ref.Tx == 0 {
			sig = "rw-committed/stale-read/getwithprefix-answered-by-own-write"
		}
		if ol.Op.K == "scan" && strings.Contains(d, "reader returned key") && strings.Contains(d, " {tx=0 ") {
			sig = "rw-committed/stale-read/reader-row-answered-by-own-write"
		}
	}
	if ol.Op.K == "scan" && class != "own-write-not-seen" {
		// rows read after a Set made while this reader was open (same index): the Set rewrites the leaf
		// the reader stands on (known defect, one signature whatever the symptom)
		var ri int
		if at := strings.Index(d, "row "); at < 0 {
		} else if _, err := fmt.Sscanf(d[at:], "row %d", &ri); err == nil {
			for j := 0; j < ri && j < len(ol.Rows); j++ {
				if r := ol.Rows[j]; r.Step == "wset" && r.Err == "" && rn.ks.indexOf(r.Key) == rn.opIndex(ol) {
					sig = "reader-open-during-set/rows-after-the-set-differ"
				}
			}
		}
	}
	_ = kind
	fail(sig, fmt.Sprintf("tx %d (%s, snapshot option %s/%s) committed although operation %d differs from the state produced by txs 1..%d%s: %s",
		tl.ID, tl.Prog.Name, tl.Prog.Must, tl.Prog.Renew, i, tl.ID-1, at, d))
}

func (rn *runner) opIndex(ol *opLog) int {
	k := ol.Op.Key
	if k == "" {
		k = ol.Op.Prefix
	}
	return rn.ks.indexOf(k)
}

// firstSnapshot tells which index served the transaction's first snapshot and whether the transaction
// wrote into that index before operation upto.
func (rn *runner) firstSnapshot(tl *txLog, upto int) (idx int, wrote bool) {
	idx = 0
	if tl.SnapT[1] != 0 && (tl.SnapT[0] == 0 || tl.SnapT[1] < tl.SnapT[0]) {
		idx = 1
	}
	for i := range tl.Ops {
		for _, w := range opWrites(&tl.Ops[i]) {
			wrote = wrote || rn.ks.indexOf(w.key) == idx
		}
	}
	return
}

// coarse names the class of a read for signatures: few classes, so that one defect has few signatures.
func coarse(ol *opLog) string {
	switch ol.Op.K {
	case "get", "getf", "del":
		if ol.Err != "" {
			return "point-read-miss"
		}
		return "point-read-hit"
	case "prefix":
		if ol.Err != "" {
			return "prefix-read-miss"
		}
		return "prefix-read-hit"
	}
	for _, r := range ol.Rows {
		if r.Step == "between" {
			return "range-scan-readbetween"
		}
	}
	return "range-scan"
}

// indexDiverged compares, once every index reports n as indexed, the full history of every key in the
// index with the reference (what the committed transactions wrote). "" = equal.
func (rn *runner) indexDiverged(n uint64) (why string, inconclusive bool) {
	for idx := 0; idx < rn.cs.NIdx; idx++ {
		var prefix []byte
		if rn.cs.NIdx == 2 {
			prefix = []byte(idxPrefix(idx))
		}
		var snap *store.Snapshot
		var err error
		for try := 0; ; try++ {
			ctx, cancel := context.WithTimeout(context.Background(), 30*time.Second)
			snap, err = rn.st.SnapshotMustIncludeTxID(ctx, prefix, n)
			cancel()
			if err == nil {
				break
			}
			// the index may be re-indexing after a compaction (its waiting hub reports more than it holds)
			if try > 15000 || !strings.Contains(err.Error(), "ts is greater than current ts") {
				return fmt.Sprintf("no snapshot including tx %d of index %d: %v", n, idx, err), true
			}
			time.Sleep(2 * time.Millisecond)
		}
		var keys []string
		all := append(append(append([]string{}, rn.ks.keys...), rn.ks.tkeys...), rn.ks.miss...)
		for _, k := range rn.model.Now().Keys() {
			if strings.Contains(string(k), "n") { // keys of the fresh families (a:nRR_i…)
				all = append(all, string(k))
			}
		}
		for _, k := range all {
			if rn.ks.indexOf(k) == idx {
				keys = append(keys, k)
			}
		}
		for _, k := range keys {
			want, _, _ := rn.model.Now().History([]byte(k), 0, false, -1)
			refs, _, err := snap.History([]byte(k), 0, false, 1<<16)
			if err != nil && !errors.Is(err, store.ErrKeyNotFound) {
				snap.Close()
				return fmt.Sprintf("History(%s): %v", k, err), true
			}
			ok := len(refs) == len(want)
			for i := 0; ok && i < len(want); i++ {
				ok = refs[i].Tx() == want[i].Ts && mdOf(refs[i].KVMetadata()) == mdKind(want[i].Value[0]) && refs[i].HVal() == sha256.Sum256(want[i].Value[1:])
			}
			if !ok {
				var got, exp []string
				at := 0
				for at < len(refs) && at < len(want) && refs[at].Tx() == want[at].Ts {
					at++
				}
				if at == len(refs) && at == len(want) {
					snap.Close()
					return fmt.Sprintf("index %d holds %d versions of key %s with the right tx ids but another value or metadata", idx, len(refs), k), false
				}
				refs, want = refs[max(0, at-3):], want[max(0, at-3):]
				for _, r := range refs {
					got = append(got, fmt.Sprint(r.Tx()))
				}
				for _, w := range want {
					exp = append(exp, fmt.Sprint(w.Ts))
				}
				snap.Close()
				return fmt.Sprintf("index %d holds versions of key %s from txs [%s]; the committed transactions wrote it in txs [%s]", idx, k, tail(got), tail(exp)), false
			}
		}
		snap.Close()
	}
	return "", false
}

func tail(xs []string) string {
	if len(xs) > 12 {
		return "… " + strings.Join(xs[len(xs)-12:], " ")
	}
	return strings.Join(xs, " ")
}

// checkMark: a prefix fingerprint taken on a snapshot that cannot contain a later-issued tx which changed
// the fingerprinted range, in a transaction that nevertheless committed after that tx.
func (rn *runner) checkMark(tl *txLog, ol *opLog, fail func(sig, detail string)) {
	snapT := tl.SnapT[rn.ks.indexOf(ol.Op.Prefix)]
	if snapT == 0 || snapT > ol.T1 {
		snapT = ol.T1
	}
	for id := tl.ID - 1; id > 0; id-- {
		it := rn.nt.issuedAt(id)
		if it == 0 || it < snapT {
			break // issued before the snapshot was certainly taken: may be part of it
		}
		other := rn.byID[id]
		if other == nil {
			continue
		}
		for _, w := range txWrites(other) {
			if footprint(&ol.Op, w.key) {
				fail("rw-committed/prefix-fingerprint-stale", fmt.Sprintf("tx %d (%s) marked %s as scanned on a snapshot taken before tx %d was issued; tx %d wrote %s inside that range and committed first, yet tx %d was accepted",
					tl.ID, tl.Prog.Name, scanName(&ol.Op), id, id, w.key, tl.ID))
				return
			}
		}
	}
}

// classifyConflict counts (never judges) whether a read conflict was needed.
func (rn *runner) classifyConflict(tl *txLog, first, n uint64) {
	lo, hi := uint64(0), uint64(0)
	for id := n; id >= first && id > 0; id-- {
		it := rn.nt.issuedAt(id)
		if hi == 0 && it != 0 && it < tl.CommitRet {
			hi = id
		}
		if it != 0 && it < tl.CommitCall {
			lo = id
			break
		}
	}
	if lo == 0 {
		lo = first - 1
	}
	if hi < lo {
		hi = lo
	}
	valid := func(t uint64) bool {
		own := map[string]ownEntry{}
		for i := range tl.Ops {
			ol := &tl.Ops[i]
			if isRead(ol.Op.K) && readDiff(rn.model.At(t), own, ol) != "" {
				return false
			}
			applyWrite(own, ol)
		}
		return true
	}
	a, b := valid(lo), valid(hi)
	switch {
	case a && b:
		rn.c.Count("conflicts_spurious", 1)
	case !a && !b:
		rn.c.Count("conflicts_justified", 1)
	default:
		rn.c.Count("conflicts_borderline", 1)
	}
}

// checkSnapshotReads: what a transaction read from one index before writing anything must be the
// content of one committed state (no torn visibility).
func (rn *runner) checkSnapshotReads(tl *txLog, n uint64, fail func(sig, detail string)) {
	if tl.Prog.Mode == "wo" {
		return
	}
	for idx := 0; idx < rn.cs.NIdx; idx++ {
		var ops []*opLog
		lo := uint64(0)
		note := func(r *refLog) {
			if r != nil && r.Tx > lo {
				lo = r.Tx
			}
		}
	collect:
		for i := range tl.Ops {
			ol := &tl.Ops[i]
			switch ol.Op.K {
			case "set", "tset", "del":
				break collect
			case "mark":
				continue
			}
			for _, r := range ol.Rows {
				if r.Step == "wset" {
					break collect
				}
			}
			k := ol.Op.Key
			if k == "" {
				k = ol.Op.Prefix
			}
			if rn.ks.indexOf(k) != idx || strings.HasPrefix(ol.Err, "other:") {
				continue
			}
			ops = append(ops, ol)
			note(ol.Ref)
			for _, r := range ol.Rows {
				note(r.Ref)
			}
		}
		if len(ops) == 0 {
			continue
		}
		rn.c.Eval(1)
		found := false
		for t := lo; t <= n && !found; t++ {
			found = true
			for _, ol := range ops {
				if readDiff(rn.model.At(t), nil, ol) != "" {
					found = false
					break
				}
			}
		}
		if found {
			continue
		}
		// torn: an entry of tx T next to an older version of a key that T also wrote
		sig := "snapshot-read/matches-no-committed-state"
		for _, ol := range ops {
			if coarse(ol) == "range-scan-readbetween" && readDiff(rn.model.At(lo), nil, ol) != "" {
				sig = "snapshot-read/readbetween-differs"
			}
		}
		if other := rn.byID[lo]; other != nil {
			for _, w := range txWrites(other) {
				for _, ol := range ops {
					refs := []*refLog{ol.Ref}
					keys := []string{ol.Op.Key + ol.Key}
					for _, r := range ol.Rows {
						refs, keys = append(refs, r.Ref), append(keys, r.Key)
					}
					for j, r := range refs {
						if r != nil && keys[j] == w.key && r.Tx < lo && sig != "snapshot-read/readbetween-differs" {
							sig = "snapshot-read/torn-visibility"
						}
					}
				}
			}
		}
		var ds []string
		for _, ol := range ops {
			if d := readDiff(rn.model.At(lo), nil, ol); d != "" {
				ds = append(ds, d)
			}
		}
		fail(sig, fmt.Sprintf("%s (%s, %s): its reads of index %d equal no committed state %d..%d; against the state after tx %d: %s", tl.Prog.Name, tl.Prog.Mode, tl.Outcome, idx, lo, n, lo, strings.Join(ds, "; ")))
	}
}

// fingerprints records distinct (read shape x relative order of snapshot / competing commit / its indexing / own commit x outcome).
func (rn *runner) fingerprints(logs []*txLog) {
	type comp struct {
		id, issued uint64
		keys       []string
	}
	var comps []comp
	for _, tl := range logs {
		if tl.Outcome == "committed" {
			var ks []string
			for _, w := range txWrites(tl) {
				ks = append(ks, w.key)
			}
			comps = append(comps, comp{tl.ID, rn.nt.issuedAt(tl.ID), ks})
		}
	}
	sort.Slice(comps, func(i, j int) bool { return comps[i].issued > comps[j].issued })
	for _, tl := range logs {
		if tl.Prog.Mode == "wo" {
			continue
		}
		outcome := tl.Prog.Mode + "-" + strings.SplitN(tl.Outcome, ":", 2)[0]
		for i := range tl.Ops {
			ol := &tl.Ops[i]
			if !isRead(ol.Op.K) && ol.Op.K != "mark" {
				continue
			}
			k := ol.Op.Key
			if k == "" {
				k = ol.Op.Prefix
			}
			order := "nocomp"
			for _, cp := range comps {
				if cp.id == tl.ID || cp.issued == 0 || cp.issued > tl.CommitRet {
					continue
				}
				hit := false
				for _, key := range cp.keys {
					hit = hit || footprint(&ol.Op, key)
				}
				if !hit {
					continue
				}
				type ev struct {
					n string
					t uint64
				}
				evs := []ev{{"snap", tl.SnapT[rn.ks.indexOf(k)]}, {"comp", cp.issued}, {"own", tl.CommitCall}}
				if it := rn.nt.indexedAt(cp.id); it != 0 {
					evs = append(evs, ev{"idx", it})
				}
				sort.Slice(evs, func(a, b int) bool { return evs[a].t < evs[b].t })
				var names []string
				for _, e := range evs {
					names = append(names, e.n)
				}
				order = strings.Join(names, "<")
				break
			}
			rn.c.Distinct(shape(ol) + "|" + order + "|" + outcome)
		}
	}
}

func Run(c *fw.Ctx) {
	c.Rule = "PRNG transaction programs (get/filtered get/prefix get/range scans with bounds, offsets, resets, early termination and ReadBetween/prefix fingerprints/set/delete/transient set) run by 4-8 goroutines per round next to write-only committers, read-only readers, index flush/compaction and hook-point perturbation, snapshots arbitrarily stale; an evaluation is one logged read of a committed RW tx re-executed on the reference state of ids 1..id-1 plus its own writes (or one tx-log comparison, one no-trace check of a rejected tx, one snapshot-consistency check); distinct = (observed read shape x order of {snapshot taken, competing commit issued, its indexing, own commit} by tickets and hook notes x outcome)"
	c.Assume("commit order is the header id; a transaction acknowledged with a header is committed")
	c.Assume("Reset of a reader may or may not re-arm its offset (both accepted); keys written while a reader is open may or may not show up in that pass")
	c.Assume("reads of two different indexes by one read-only transaction need not come from the same instant")
	r := c.Rand("c05/cases")
	ncases := c.N(16, 400)
	rounds := c.N(19, 20)
	var cases [][]byte
	for i := 0; i < ncases; i++ {
		b, _ := json.Marshal(genCase(r, i, rounds))
		cases = append(cases, b)
	}
	c.RunIsolated("c05-case", cases, fw.CasesOpts{Workers: 16, CaseTimout: 10 * time.Minute})
}

var _ = errors.Is
