package c08

// Minimal standalone reproductions of the genuine defects the C08 monitor found on
// the unchanged tree. Each test FAILS while its defect is present and passes once
// it is repaired (see /verif/proposed/C08-*.patch, C08-findings.json):
//
//	. /verif/bin/env.sh; cd /verif/harness && VERIF_C08_REPRO=1 go test -count=1 -tags verif -run TestRepro -v ./mon/c08/
//
// Without VERIF_C08_REPRO=1 they are skipped, so that `go test ./...` of the harness stays green.

import (
	"crypto/sha256"
	"fmt"
	"os"
	"testing"

	"github.com/codenotary/immudb/embedded/ahtree"
	"github.com/codenotary/immudb/embedded/htree"
)

func reproOnly(t *testing.T) {
	if os.Getenv("VERIF_C08_REPRO") == "" {
		t.Skip("set VERIF_C08_REPRO=1 to run the defect reproductions")
	}
}

func fill(t *testing.T, tr *ahtree.AHtree, prefix string, n int) {
	for k := 0; k < n; k++ {
		if _, _, err := tr.Append([]byte(fmt.Sprintf("%s-%d", prefix, k))); err != nil {
			t.Fatal(err)
		}
	}
}

// signatures ahtree.VerifyInclusion/wrong-index, /wrong-size, ahtree.VerifyLastInclusion/wrong-index,
// ahtree.VerifyConsistency/wrong-size: the number of proof terms is not bound to the claimed (i, j).
func TestReproVerifiersIgnoreProofLength(t *testing.T) {
	reproOnly(t)
	tr, err := ahtree.Open(t.TempDir(), ahtree.DefaultOptions())
	if err != nil {
		t.Fatal(err)
	}
	defer tr.Close()
	fill(t, tr, "leaf", 9)
	leaf9 := sha256.Sum256(append([]byte{ahtree.LeafPrefix}, "leaf-8"...))
	root9, _ := tr.RootAt(9)
	p99, _ := tr.InclusionProof(9, 9) // one term: the root of leaves 1..8
	for _, i := range []uint64{2, 4, 6, 8} {
		if ahtree.VerifyInclusion(p99, i, 9, leaf9, root9) {
			t.Errorf("VerifyInclusion accepts the proof of leaf 9 in tree 9 for claimed leaf index %d", i)
		}
	}
	for _, i := range []uint64{2, 3, 100} {
		if ahtree.VerifyLastInclusion(p99, i, leaf9, root9) {
			t.Errorf("VerifyLastInclusion accepts the last-inclusion proof of size 9 for claimed size %d", i)
		}
	}
	leaf1 := sha256.Sum256(append([]byte{ahtree.LeafPrefix}, "leaf-0"...))
	root4, _ := tr.RootAt(4)
	p14, _ := tr.InclusionProof(1, 4)
	if ahtree.VerifyInclusion(p14, 1, 7, leaf1, root4) {
		t.Errorf("VerifyInclusion accepts the proof of leaf 1 in tree 4 (and root 4) for claimed tree size 7")
	}
	root1, _ := tr.RootAt(1)
	root2, _ := tr.RootAt(2)
	c12, _ := tr.ConsistencyProof(1, 2)
	if ahtree.VerifyConsistency(c12, 1, 3, root1, root2) {
		t.Errorf("VerifyConsistency accepts the proof for sizes (1,2) with the root of size 2 for claimed second size 3")
	}
}

// signatures htree.VerifyInclusion/wrong-index, /wrong-size.
func TestReproHTreeVerifierIgnoresProofLength(t *testing.T) {
	reproOnly(t)
	ds := make([][sha256.Size]byte, 5)
	for k := range ds {
		ds[k] = sha256.Sum256([]byte{byte(k)})
	}
	tr, _ := htree.New(5)
	if err := tr.BuildWith(ds); err != nil {
		t.Fatal(err)
	}
	p, _ := tr.InclusionProof(4) // leaf 4 of width 5: one term
	if htree.VerifyInclusion(&htree.InclusionProof{Leaf: 5, Width: 6, Terms: p.Terms}, ds[4], tr.Root()) {
		t.Errorf("htree.VerifyInclusion accepts the proof of leaf 4 / width 5 for claimed leaf 5 / width 6")
	}
	if htree.VerifyInclusion(&htree.InclusionProof{Leaf: 5, Width: 5, Terms: p.Terms}, ds[4], tr.Root()) {
		t.Errorf("htree.VerifyInclusion accepts a claimed leaf index outside the claimed width (Leaf=5, Width=5)")
	}
}

// signature ahtree.DataAt/empty-payload-error.
func TestReproDataAtEmptyPayload(t *testing.T) {
	reproOnly(t)
	tr, err := ahtree.Open(t.TempDir(), ahtree.DefaultOptions().WithDataCacheSlots(1))
	if err != nil {
		t.Fatal(err)
	}
	defer tr.Close()
	tr.Append([]byte{})
	tr.Append([]byte("evicts the first entry from the 1-slot data cache"))
	if d, err := tr.DataAt(1); err != nil || len(d) != 0 {
		t.Errorf("DataAt(1) of an appended empty payload after cache eviction: %v", err)
	}
}

// signatures ahtree.Append/returned-root-differs-from-reference/after-rollback,record-splitting-buffers and
// ahtree.RootAt/differs-from-reference/after-rollback,record-splitting-buffers
// (root cause: singleapp.readAt reads beyond fileOffset from the file, which still holds the cut-off tail).
func TestReproRollbackReappendStaleRead(t *testing.T) {
	reproOnly(t)
	run := func(wbuf int) (wrong int) {
		tr, err := ahtree.Open(t.TempDir(), ahtree.DefaultOptions().WithWriteBufferSize(wbuf).WithDigestsCacheSlots(1))
		if err != nil {
			t.Fatal(err)
		}
		defer tr.Close()
		fill(t, tr, "old", 40)
		tr.Sync()
		if err := tr.ResetSize(3); err != nil {
			t.Fatal(err)
		}
		fill(t, tr, "new-entry", 20)
		// the same 23 payloads appended to a fresh tree with default options
		fresh, _ := ahtree.Open(t.TempDir(), ahtree.DefaultOptions())
		defer fresh.Close()
		fill(t, fresh, "old", 3)
		fill(t, fresh, "new-entry", 20)
		for n := uint64(1); n <= 23; n++ {
			a, _ := tr.RootAt(n)
			b, _ := fresh.RootAt(n)
			if a != b {
				wrong++
			}
		}
		return
	}
	for _, wbuf := range []int{40, 100} {
		if w := run(wbuf); w > 0 {
			t.Errorf("write buffer %d, 1-slot digest cache: after ResetSize(3) and 20 re-appends %d of 23 roots differ from those of a fresh tree with the same payloads", wbuf, w)
		}
	}
}

// signature ahtree.ResetSize+reopen/stale-tail-resurrected.
func TestReproResetSizeNotDurable(t *testing.T) {
	reproOnly(t)
	dir := t.TempDir()
	tr, err := ahtree.Open(dir, ahtree.DefaultOptions())
	if err != nil {
		t.Fatal(err)
	}
	fill(t, tr, "leaf", 20)
	tr.ResetSize(5)
	tr.Append([]byte("new-6"))
	if tr.Size() != 6 {
		t.Fatal("size")
	}
	tr.Close()
	tr, err = ahtree.Open(dir, ahtree.DefaultOptions())
	if err != nil {
		t.Fatal(err)
	}
	defer tr.Close()
	if tr.Size() != 6 {
		d6, _ := tr.DataAt(6)
		d7, _ := tr.DataAt(7)
		t.Errorf("size was 6 before Close, %d after Open; DataAt(6)=%q DataAt(7)=%q", tr.Size(), d6, d7)
	}
}
