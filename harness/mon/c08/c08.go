// Package c08: monitor for property C08 (see DESIGN.md section 2).
package c08
