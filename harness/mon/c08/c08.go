// Package c08: hash trees equal the reference Merkle construction (DESIGN.md, C08).
//
// Three parts, all differential against internal/refmerkle (RFC 6962 definition,
// RFC 9162 strict verifiers):
//
//	(a) ahseq.go   ahtree driven by PRNG sequences of Append / ResetSize / Sync /
//	               Close+Open under tiny caches, files and sync thresholds;
//	(b) htreechk.go htree for every width and leaf;
//	(c) verdiff.go the four verifiers on honest and altered tuples.
//
// Index mapping (read from the code under test, not assumed):
//   - ahtree leaf n (1-based) is SHA-256(0x00 || payload): reference leaf n-1 over
//     the raw payload. InclusionProof(i, j) is PATH(i-1, D[0:j]) in RFC order.
//   - ahtree.ConsistencyProof(i, j), i < j, is PROOF(i, D[0:j]) except that the
//     seed node is always explicit: when i is a power of two the proof starts with
//     MTH(D[0:i]) (RFC 9162 2.1.4.2 step 2 re-inserts exactly that term).
//     For i == j the RFC proof is empty; immudb emits the two children of the
//     root instead. Both establish only "iRoot == jRoot", which is all that
//     consistency of a tree with itself means, so for i == j the reference
//     decision is root equality.
//   - htree leaf k (0-based) is SHA-256(0x00 || digest): reference leaf k over the
//     32 digest bytes as payload. InclusionProof.Terms is PATH(k, D[0:width]).
package c08

import (
	"crypto/sha256"
	"fmt"
	"math/bits"
	"os"
	"runtime"
	"runtime/debug"
	"strings"
	"sync"

	"github.com/codenotary/immudb/embedded/ahtree"
	"github.com/codenotary/immudb/embedded/htree"

	"verifharness/internal/fw"
	"verifharness/internal/refmerkle"
)

func init() { fw.RegisterMonitor("C08", "exploration", Run) }

type H = [sha256.Size]byte

func Run(c *fw.Ctx) {
	c.Rule = "differential against the RFC 6962 definition and the RFC 9162 strict verifiers: (a) ahtree after every step of PRNG sequences " +
		"append/reset-size/sync/reopen under tiny caches and files: Size, Root, RootAt, DataAt for all n, inclusion and consistency proofs for all 1<=i<=j<=n; " +
		"(b) htree root and every leaf's proof for every width; (c) verifier decisions on honest and altered tuples. " +
		"An evaluation is one comparison with the reference or one verifier decision; distinct = structure (tree/verifier, shape class of (i,j), cache/after-op class) " +
		"x operation x mutation class x observed outcome pair (reference, implementation)"
	c.Assume("refmerkle implements RFC 6962 2.1 / RFC 9162 2.1.3.2, 2.1.4.2 (self-tested against the certificate-transparency known answers and by cross-checking its proofs against its verifiers)")
	c.Assume("SHA-256 collisions do not occur among the generated values")
	c.Assume("for i == j a consistency claim means root equality; immudb's non-RFC two-term proof for that case is not held against it")

	// VERIF_C08_PARTS (development aid only; registered commands never set it) restricts the run to some parts.
	parts := os.Getenv("VERIF_C08_PARTS")
	if parts == "" {
		parts = "abc"
	} else {
		c.Note("restricted to parts " + parts)
	}
	c.Set("exhaustive_pairs_upto_n", c.N(64, 200))
	c.Set("htree_widths", len(htreeWidths(c)))
	if strings.Contains(parts, "a") {
		ahtreeSequences(c)
	}
	if strings.Contains(parts, "b") {
		htreeDifferential(c)
	}
	if strings.Contains(parts, "c") {
		verifierDifferential(c)
	}
}

// parallel runs f(0..n-1) on a bounded pool; a panic of the monitor itself is re-raised in the caller.
func parallel(n int, f func(k int)) {
	workers := runtime.NumCPU()
	if workers > 32 {
		workers = 32
	}
	if workers > n {
		workers = n
	}
	var wg sync.WaitGroup
	var mu sync.Mutex
	var perr any
	next := 0
	for w := 0; w < workers; w++ {
		wg.Add(1)
		go func() {
			defer wg.Done()
			defer func() {
				if r := recover(); r != nil {
					mu.Lock()
					if perr == nil {
						perr = r
					}
					mu.Unlock()
				}
			}()
			for {
				mu.Lock()
				k := next
				next++
				mu.Unlock()
				if k >= n {
					return
				}
				f(k)
			}
		}()
	}
	wg.Wait()
	if perr != nil {
		panic(perr)
	}
}

func isPow2(x uint64) bool { return x != 0 && x&(x-1) == 0 }

// ---- reference decisions in immudb's coordinates -------------------------------------------

// refAhInclusion: ahtree.VerifyInclusion(proof, i, j, leaf, root), i and j 1-based.
func refAhInclusion(p []H, i, j uint64, leaf, root H) bool {
	if i == 0 || i > j {
		return false
	}
	return refmerkle.VerifyInclusionStrict(p, i-1, j, leaf, root)
}

// refAhLast: ahtree.VerifyLastInclusion(proof, i, leaf, root): leaf i is the last of a tree of size i.
func refAhLast(p []H, i uint64, leaf, root H) bool {
	if i == 0 {
		return false
	}
	return refmerkle.VerifyInclusionStrict(p, i-1, i, leaf, root)
}

// refAhConsistency: ahtree.VerifyConsistency(proof, i, j, iRoot, jRoot) with the explicit-seed format.
func refAhConsistency(p []H, i, j uint64, iRoot, jRoot H) bool {
	if i == 0 || i > j {
		return false
	}
	if i == j {
		return iRoot == jRoot
	}
	if isPow2(i) {
		if len(p) == 0 || p[0] != iRoot {
			return false
		}
		p = p[1:]
	}
	return refmerkle.VerifyConsistencyStrict(p, i, j, iRoot, jRoot)
}

// refHtInclusion: htree.VerifyInclusion(&{Leaf, Width, Terms}, digest, root).
func refHtInclusion(leaf, width int, terms []H, digest, root H) bool {
	if leaf < 0 || width <= 0 || leaf >= width {
		return false
	}
	return refmerkle.VerifyInclusionStrict(terms, uint64(leaf), uint64(width), refmerkle.LeafHash(digest[:]), root)
}

// expected ahtree.ConsistencyProof(i, j) for i < j.
func refAhConsistencyProof(t *refmerkle.Tree, i, j int) []H {
	p := t.Consistency(i, j)
	if isPow2(uint64(i)) {
		p = append([]H{t.RootAt(i)}, p...)
	}
	return p
}

// ---- guarded calls into the code under test ---------------------------------------------

type guarded struct {
	c *fw.Ctx
}

func (g guarded) boolCall(site string, f func() bool) (res bool) {
	defer func() {
		if r := recover(); r != nil {
			text := fmt.Sprintf("panic: %v\n%s", r, debug.Stack())
			g.c.Violation(fw.PanicSignature(text), fmt.Sprintf("%s panicked: %v", site, r), map[string][]byte{"panic.txt": []byte(text)})
			res = false
		}
	}()
	return f()
}

func implAhInclusion(g guarded, p []H, i, j uint64, leaf, root H) bool {
	return g.boolCall("ahtree.VerifyInclusion", func() bool { return ahtree.VerifyInclusion(p, i, j, leaf, root) })
}
func implAhLast(g guarded, p []H, i uint64, leaf, root H) bool {
	return g.boolCall("ahtree.VerifyLastInclusion", func() bool { return ahtree.VerifyLastInclusion(p, i, leaf, root) })
}
func implAhConsistency(g guarded, p []H, i, j uint64, iRoot, jRoot H) bool {
	return g.boolCall("ahtree.VerifyConsistency", func() bool { return ahtree.VerifyConsistency(p, i, j, iRoot, jRoot) })
}
func implHtInclusion(g guarded, leaf, width int, terms []H, digest, root H) bool {
	return g.boolCall("htree.VerifyInclusion", func() bool {
		return htree.VerifyInclusion(&htree.InclusionProof{Leaf: leaf, Width: width, Terms: terms}, digest, root)
	})
}

// ---- small helpers --------------------------------------------------------------------------

func eqProof(a, b []H) bool {
	if len(a) != len(b) {
		return false
	}
	for i := range a {
		if a[i] != b[i] {
			return false
		}
	}
	return true
}

func proofBytes(p []H) []byte {
	b := make([]byte, 0, len(p)*sha256.Size)
	for _, h := range p {
		b = append(b, h[:]...)
	}
	return b
}

// sizeClass names the shape of a tree size: what matters to the node arithmetic.
func sizeClass(n uint64) string {
	switch {
	case n == 0:
		return "0"
	case n == 1:
		return "1"
	case isPow2(n):
		return "2^k"
	case isPow2(n - 1):
		return "2^k+1"
	case isPow2(n + 1):
		return "2^k-1"
	}
	if bits.OnesCount64(n) == 2 {
		return "2bits"
	}
	return "other"
}

// pairClass names the shape of (i, j) (1-based, i <= j expected; anything else is "bad").
func pairClass(i, j uint64) string {
	switch {
	case i == 0 || i > j:
		return "bad"
	case i == j:
		return "i=j," + sizeClass(j)
	case isPow2(i):
		return "i=2^k," + sizeClass(j)
	}
	return "i<j," + sizeClass(j)
}

func ar(b bool) string {
	if b {
		return "A"
	}
	return "R"
}
