package c08

import (
	"bytes"
	"errors"
	"fmt"
	"math/rand/v2"
	"os"
	"strings"
	"syscall"

	"github.com/codenotary/immudb/embedded/ahtree"

	"verifharness/internal/fw"
	"verifharness/internal/refmerkle"
)

// Part (a): ahtree under PRNG sequences of Append / ResetSize(+re-append) / Sync / Close+Open.
// The model is the list of payloads; after every step everything observable is
// compared with the reference over that list.

type ahCfg struct {
	fileSize, syncThld, dCache, pCache, wbuf, rbuf int
}

func (o ahCfg) String() string {
	return fmt.Sprintf("fileSize=%d syncThld=%d digestsCache=%d dataCache=%d wbuf=%d rbuf=%d", o.fileSize, o.syncThld, o.dCache, o.pCache, o.wbuf, o.rbuf)
}

func (o ahCfg) opts() *ahtree.Options {
	return ahtree.DefaultOptions().
		WithFileSize(o.fileSize).WithSyncThld(o.syncThld).
		WithDigestsCacheSlots(o.dCache).WithDataCacheSlots(o.pCache).
		WithWriteBufferSize(o.wbuf).WithReadBufferSize(o.rbuf)
}

func (o ahCfg) cacheClass() string {
	switch {
	case o.dCache == 1:
		return "cache=1"
	case o.dCache <= 8:
		return "cache<=8"
	case o.dCache < 1000:
		return "cache<1000"
	}
	return "cache=default"
}

func pick(r *rand.Rand, xs ...int) int { return xs[r.IntN(len(xs))] }

// volatile options: may change at every reopen. fileSize is fixed per tree (it is stored in the files' metadata).
func (o *ahCfg) reroll(r *rand.Rand) {
	o.syncThld = pick(r, 1, 1, 2, 3, 5, 16, 64, ahtree.DefaultSyncThld)
	o.dCache = pick(r, 1, 1, 1, 2, 3, 4, 8, 32, 200, ahtree.DefaultDigestsCacheSlots)
	o.pCache = pick(r, 1, 1, 2, 3, 8, 64, ahtree.DefaultDataCacheSlots)
	o.wbuf = pick(r, 64, 128, 333, 1024, 4096, 1<<16)
	o.rbuf = pick(r, 32, 64, 100, 1024, 4096)
}

type ahSeq struct {
	c     *fw.Ctx
	g     guarded
	id    int
	r     *rand.Rand
	dir   string
	cfg   ahCfg
	tr    *ahtree.AHtree
	model [][]byte
	lh    []H
	cap   int // max tree size
	full  int // exhaustive pair checks up to this size, sampled above
	log   []string
	dead  bool

	evals int
	dist  map[string]struct{}

	lastOp      string
	everReset   bool
	everReopen  bool
	staleOnDisk bool // a ResetSize happened whose cut-off tail may still be in the files
	splitting   bool // some configuration of this sequence had a write buffer or file size that is not a multiple of 32
}

// history names the shape of the sequence so far: what a mismatch can be blamed on.
func (s *ahSeq) history() string {
	switch {
	case s.everReset:
		return "after-rollback"
	case s.everReopen:
		return "after-reopen"
	}
	return "append-only"
}

// hashHistory additionally says whether buffer and file sizes can split a 32-byte digest
// record between two flushes or two files (an input class of its own for everything read
// back from the digest log).
func (s *ahSeq) hashHistory() string {
	h := s.history()
	if s.splitting {
		h += ",record-splitting-buffers"
	}
	return h
}

func (s *ahSeq) logf(f string, a ...any) { s.log = append(s.log, fmt.Sprintf(f, a...)) }

func (s *ahSeq) files(extra map[string][]byte) map[string][]byte {
	m := map[string][]byte{"sequence.txt": []byte(fmt.Sprintf("sequence %d\n%s\n", s.id, strings.Join(s.log, "\n")))}
	for k, v := range extra {
		m[k] = v
	}
	return m
}

func (s *ahSeq) bad(sig, f string, a ...any) {
	s.c.Violation(sig, fmt.Sprintf("seq %d step %d after %s [%s]: ", s.id, len(s.log), s.lastOp, s.cfg)+fmt.Sprintf(f, a...), s.files(nil))
}

// abort handles an error from an operation that the property quantifies over (append, reset-size,
// sync, reopen of a healthy tree with legal arguments). An error of the operating system
// (no space, too many open files, ...) says nothing about the tree: inconclusive. An error
// produced by immudb itself means the operation did not do what the statement says it does.
func (s *ahSeq) abort(op string, err error) {
	s.dead = true
	var pe *os.PathError
	var le *os.LinkError
	var se *os.SyscallError
	var en syscall.Errno
	if errors.As(err, &pe) || errors.As(err, &le) || errors.As(err, &se) || errors.As(err, &en) {
		s.c.Inconclusive(fmt.Sprintf("ahtree seq %d step %d: %s returned %v [%s]; sequence abandoned\n%s", s.id, len(s.log), op, err, s.cfg, strings.Join(s.log, "\n")))
		s.c.Count("ahtree_sequences_abandoned", 1)
		return
	}
	name := op
	if i := strings.IndexByte(name, '('); i >= 0 {
		name = name[:i]
	}
	s.bad("ahtree."+name+"/error/"+s.history(), "%s returned %v", op, err)
}

func ahtreeSequences(c *fw.Ctx) {
	nSeq := c.N(64, 160)
	only := -1 // VERIF_C08_SEQ: development aid (re-run one sequence); registered commands never set it
	if v := os.Getenv("VERIF_C08_SEQ"); v != "" {
		fmt.Sscan(v, &only)
		c.Note("restricted to ahtree sequence " + v)
	}
	parallel(nSeq, func(k int) {
		if only >= 0 && k != only {
			return
		}
		s := &ahSeq{c: c, g: guarded{c}, id: k, r: c.Rand(fmt.Sprintf("c08/ahtree/seq/%d", k)), dist: map[string]struct{}{}}
		s.cap = c.N(64, []int{64, 100, 150, 200}[k%4]) // the check after a step costs O(cap^2) proofs
		s.full = s.cap
		steps := c.N(40, 60)
		if k%8 == 7 {
			// a few longer trees: proofs sampled above the exhaustive bound
			s.cap = c.N(300, 1200)
			s.full = c.N(48, 64)
		}
		s.cfg.fileSize = pick(s.r, 37, 64, 100, 256, 1000, 4096, 1<<20)
		s.cfg.reroll(s.r)
		s.dir = c.Dir(fmt.Sprintf("aht-%d", k))
		panicked, sig, text := fw.Guard(func() { s.run(steps) })
		if panicked {
			c.Violation(sig, fmt.Sprintf("ahtree sequence %d panicked at step %d after %s [%s]", k, len(s.log), s.lastOp, s.cfg), s.files(map[string][]byte{"panic.txt": []byte(text)}))
		}
		if s.tr != nil {
			fw.Guard(func() { s.tr.Close() })
		}
		c.Eval(s.evals)
		for d := range s.dist {
			c.Distinct(d)
		}
		c.Count("ahtree_sequences", 1)
		c.Count("ahtree_steps", int64(len(s.log)))
		if k < 2 {
			c.Sample(map[string]any{"part": "ahtree-sequence", "sequence": k, "steps": s.log, "final_size": len(s.model), "comparisons": s.evals, "ended_by_mismatch": s.dead})
		}
	})
}

func (s *ahSeq) open() bool {
	if s.cfg.wbuf%32 != 0 || s.cfg.fileSize%32 != 0 {
		s.splitting = true
	}
	tr, err := ahtree.Open(s.dir, s.cfg.opts())
	if err != nil {
		s.abort("Open", err)
		return false
	}
	s.tr = tr
	return true
}

func (s *ahSeq) payload() []byte {
	r := s.r
	if len(s.model) > 0 && r.IntN(10) == 0 {
		return s.model[r.IntN(len(s.model))] // repeated payload: equal leaf hashes
	}
	var n int
	switch x := r.IntN(10); {
	case x == 0:
		n = 0
	case x <= 6:
		n = 1 + r.IntN(40)
	case x == 7:
		n = pick(r, 31, 32, 33, 64, 65)
	default:
		n = 41 + r.IntN(260)
	}
	b := make([]byte, n)
	for k := range b {
		b[k] = byte(r.UintN(256))
	}
	return b
}

func (s *ahSeq) appendN(n int) {
	for k := 0; k < n && !s.dead; k++ {
		if len(s.model) >= s.cap {
			return
		}
		d := s.payload()
		num, h, err := s.tr.Append(d)
		if err != nil {
			s.abort(fmt.Sprintf("Append(len %d)", len(d)), err)
			return
		}
		s.model = append(s.model, d)
		s.lh = append(s.lh, refmerkle.LeafHash(d))
		s.evals += 2
		if num != uint64(len(s.model)) {
			s.bad("ahtree.Append/wrong-index-returned", "Append returned n=%d, expected %d", num, len(s.model))
		}
		if want := refmerkle.RootFromLeafHashes(s.lh); h != want {
			s.dead = true
			s.bad("ahtree.Append/returned-root-differs-from-reference/"+s.hashHistory(), "Append #%d returned %x, RFC 6962 root of the %d payloads is %x", num, h, len(s.model), want)
		}
	}
}

func (s *ahSeq) run(steps int) {
	if !s.open() {
		return
	}
	s.lastOp = "open"
	s.logf("open %s", s.cfg)
	s.check(true)
	for step := 0; step < steps && !s.dead; step++ {
		r := s.r
		size := len(s.model)
		x := r.IntN(100)
		if size >= s.cap && x < 55 {
			x = 55 + r.IntN(45) // full: do something else
		}
		switch {
		case x < 55:
			n := 1 + r.IntN(5)
			switch r.IntN(10) {
			case 0:
				n = 6 + r.IntN(20)
			case 1:
				if s.cap > 64 {
					n = 20 + r.IntN(s.cap/4)
				}
			}
			s.lastOp = "append"
			s.logf("append x%d", n)
			s.appendN(n)
		case x < 75:
			var k int
			switch y := r.IntN(20); {
			case size == 0 || y == 0:
				k = 0
			case y == 1:
				k = size
			case y < 8:
				k = size - 1 - r.IntN(min(size, 3))
			case y < 12:
				p := 1
				for p*2 <= size {
					p *= 2
				}
				k = p + r.IntN(3) - 1
			default:
				k = r.IntN(size + 1)
			}
			k = max(0, min(k, size))
			re := r.IntN(4)
			s.lastOp = "reset"
			s.logf("ResetSize(%d) from %d, then append x%d", k, size, re)
			if err := s.tr.ResetSize(uint64(k)); err != nil {
				s.abort(fmt.Sprintf("ResetSize(%d) at size %d", k, size), err)
				return
			}
			if k < size {
				s.everReset = true
				s.staleOnDisk = true
			}
			s.model = s.model[:k:k]
			s.lh = s.lh[:k:k]
			s.appendN(re)
		case x < 85:
			s.lastOp = "sync"
			s.logf("Sync")
			if err := s.tr.Sync(); err != nil {
				s.abort("Sync", err)
				return
			}
		default:
			s.lastOp = "reopen"
			if err := s.tr.Close(); err != nil {
				s.tr = nil
				s.abort("Close", err)
				return
			}
			s.tr = nil
			s.cfg.reroll(r)
			s.logf("Close; Open %s", s.cfg)
			if !s.open() {
				return
			}
			s.everReopen = true
			s.afterReopen()
		}
		if !s.dead {
			// DataAt of a not yet synced entry makes the tree sync: reading the data back after every
			// step would mean ResetSize, Sync and Close never see pending entries. Half of the checks
			// therefore leave DataAt out (roots and proofs do not sync); the last one reads everything.
			s.check(step == steps-1 || r.IntN(2) == 0)
		}
	}
}

// afterReopen compares the size found on disk with the model. A larger size
// after an earlier ResetSize is reported once per signature and the tree is
// brought back with ResetSize (what embedded/store does at every open), so the
// rest of the sequence still observes the implementation.
func (s *ahSeq) afterReopen() {
	got := s.tr.Size()
	want := uint64(len(s.model))
	s.evals++
	switch {
	case got == want:
		s.dist["ahtree|reopen|size-kept|"+sizeClass(want)] = struct{}{}
		return
	case got > want && s.staleOnDisk:
		s.dist["ahtree|reopen|stale-tail-resurrected"] = struct{}{}
		// does the resurrected tree at least agree with itself? (diagnosis only)
		diag := ""
		if r, err := s.tr.RootAt(got); err == nil {
			var lhs []H
			ok := true
			for n := uint64(1); n <= got; n++ {
				d, err := s.tr.DataAt(n)
				if err != nil {
					ok = false
					break
				}
				lhs = append(lhs, refmerkle.LeafHash(d))
			}
			if ok {
				if refmerkle.RootFromLeafHashes(lhs) == r {
					diag = "; the resurrected tree is the old tree (root matches its own DataAt)"
				} else {
					diag = fmt.Sprintf("; RootAt(%d) is NOT the RFC 6962 root of DataAt(1..%d): new leaves under old inner nodes", got, got)
				}
			}
		}
		s.bad("ahtree.ResetSize+reopen/stale-tail-resurrected",
			"tree was reset to a smaller size and re-appended to size %d; after Close/Open Size()=%d: the cut-off tail is back%s", want, got, diag)
		if err := s.tr.ResetSize(want); err != nil {
			s.abort(fmt.Sprintf("ResetSize(%d) [after reopen found size %d]", want, got), err)
		}
	case got > want:
		s.bad("ahtree.Open/size-grew-across-reopen", "Size()=%d after Close/Open, %d entries were appended", got, want)
		s.dead = true
	default:
		s.bad("ahtree.Open/size-shrank-across-reopen", "Size()=%d after Close/Open, %d entries were appended (Close syncs)", got, want)
		s.dead = true
	}
}

// check compares everything observable with the reference over the model.
//
// Signatures: <API>/<what>/<history>. Consequences are not reported on their own:
// once a root differs the proofs over it are not judged, once a proof differs from the
// reference proof the verifiers' opinion of it is not judged, and the sequence ends
// after the first step with a mismatch (everything later would repeat it).
func (s *ahSeq) check(withData bool) {
	tr := s.tr
	n := len(s.model)
	N := uint64(n)
	rt := refmerkle.New(s.lh)
	state := s.lastOp
	if s.everReset && s.lastOp != "reset" {
		state += "+post-reset"
	}
	if s.everReopen && s.lastOp != "reopen" {
		state += "+post-reopen"
	}
	key := "ahtree|" + state + "|size=" + sizeClass(N) + "|" + s.cfg.cacheClass()
	if !withData {
		key += "|no-data-read"
	}
	outcome := "ok"
	fail := func(sig, f string, a ...any) {
		outcome = "mismatch"
		s.dead = true
		s.bad(sig, f, a...)
	}
	hh := s.hashHistory()

	s.evals++
	if got := tr.Size(); got != N {
		fail("ahtree.Size/differs-from-model/"+s.history(), "Size()=%d, model has %d entries", got, n)
		s.dist[key+"|size-mismatch"] = struct{}{}
		return
	}
	rootsOK := true
	s.evals++
	rn, rr, err := tr.Root()
	switch {
	case n == 0:
		// RFC 6962 defines MTH({}) = SHA-256(""); immudb reports ErrEmptyTree instead, which claims nothing.
		if err == nil && rr != rt.RootAt(0) {
			fail("ahtree.Root/empty-tree-root/"+hh, "Root() of the empty tree returned (%d, %x) without error", rn, rr)
		}
	case err != nil:
		fail("ahtree.Root/error/"+s.history(), "Root(): %v", err)
		rootsOK = false
	case rn != N || rr != rt.RootAt(n):
		fail("ahtree.Root/differs-from-reference/"+hh, "Root()=(%d, %x), reference (%d, %x)", rn, rr, n, rt.RootAt(n))
		rootsOK = false
	}

	roots := make([]H, n+1)
	for k := 1; k <= n; k++ {
		s.evals++
		roots[k] = rt.RootAt(k)
		r, err := tr.RootAt(uint64(k))
		if err != nil {
			fail("ahtree.RootAt/error/"+s.history(), "RootAt(%d) at size %d: %v", k, n, err)
			rootsOK = false
		} else if r != roots[k] {
			fail("ahtree.RootAt/differs-from-reference/"+hh, "RootAt(%d)=%x at size %d, RFC 6962 root %x", k, r, n, roots[k])
			rootsOK = false
		}
		if !withData {
			continue
		}
		s.evals++
		d, err := tr.DataAt(uint64(k))
		switch {
		case err != nil && len(s.model[k-1]) == 0:
			// reported without ending the sequence: hashes do not depend on it
			s.bad("ahtree.DataAt/empty-payload-error", "DataAt(%d) at size %d, where an empty payload was appended: %v", k, n, err)
			outcome = "empty-payload-error"
		case err != nil:
			fail("ahtree.DataAt/error/"+s.history(), "DataAt(%d) at size %d: %v", k, n, err)
		case !bytes.Equal(d, s.model[k-1]):
			fail("ahtree.DataAt/differs-from-appended/"+s.history(), "DataAt(%d) returned %d bytes %x, appended %d bytes %x", k, len(d), trunc(d), len(s.model[k-1]), trunc(s.model[k-1]))
		}
	}
	// beyond the current size nothing exists (matters after ResetSize); counted, not judged
	if _, err := tr.RootAt(N + 1); err == nil {
		s.c.Count("ahtree_rootat_beyond_size_answered", 1)
	}
	if !rootsOK {
		s.dist[key+"|roots-differ"] = struct{}{}
		return
	}

	pair := func(i, j int) {
		I, J := uint64(i), uint64(j)
		leaf := s.lh[i-1]
		s.evals += 3
		p, err := tr.InclusionProof(I, J)
		switch {
		case err != nil:
			fail("ahtree.InclusionProof/error/"+s.history(), "InclusionProof(%d,%d) at size %d: %v", i, j, n, err)
		case !eqProof(p, rt.Inclusion(i-1, j)):
			fail("ahtree.InclusionProof/differs-from-reference/"+hh, "InclusionProof(%d,%d) at size %d: %d terms, PATH has %d terms or other hashes", i, j, n, len(p), len(rt.Inclusion(i-1, j)))
		default:
			// the proof IS the reference proof: now the verifiers
			if !refAhInclusion(p, I, J, leaf, roots[j]) {
				panic(fmt.Sprintf("C08 harness bug: strict verifier rejects PATH(%d, D[%d])", i-1, j))
			}
			if !implAhInclusion(s.g, p, I, J, leaf, roots[j]) {
				fail("ahtree.VerifyInclusion/honest-rejected", "InclusionProof(%d,%d) (= reference proof) not accepted with the reference leaf hash and root", i, j)
			}
			if i == j {
				s.evals++
				if !implAhLast(s.g, p, J, leaf, roots[j]) {
					fail("ahtree.VerifyLastInclusion/honest-rejected", "InclusionProof(%d,%d) (= reference proof) not accepted as last-inclusion proof", i, j)
				}
			}
		}
		s.evals += 3
		cp, err := tr.ConsistencyProof(I, J)
		switch {
		case err != nil:
			fail("ahtree.ConsistencyProof/error/"+s.history(), "ConsistencyProof(%d,%d) at size %d: %v", i, j, n, err)
		case i < j && !eqProof(cp, refAhConsistencyProof(rt, i, j)):
			fail("ahtree.ConsistencyProof/differs-from-reference/"+hh, "ConsistencyProof(%d,%d) at size %d: %d terms, PROOF (+seed) has %d terms or other hashes", i, j, n, len(cp), len(refAhConsistencyProof(rt, i, j)))
		default:
			if i < j && !refAhConsistency(cp, I, J, roots[i], roots[j]) {
				panic(fmt.Sprintf("C08 harness bug: strict verifier rejects PROOF(%d, D[%d])", i, j))
			}
			// i == j: immudb's own format; it must convince immudb's verifier for the reference root and only for it
			if !implAhConsistency(s.g, cp, I, J, roots[i], roots[j]) {
				if i < j {
					fail("ahtree.VerifyConsistency/honest-rejected", "ConsistencyProof(%d,%d) (= reference proof) not accepted with the reference roots", i, j)
				} else {
					fail("ahtree.ConsistencyProof/same-size-proof-does-not-verify/"+hh, "ConsistencyProof(%d,%d) (%d terms) not accepted with the reference root on both sides", i, j, len(cp))
				}
			} else if i == j && j > 1 {
				s.evals++
				if implAhConsistency(s.g, cp, I, J, roots[i], roots[j-1]) {
					fail("ahtree.VerifyConsistency/swapped-roots", "ConsistencyProof(%d,%d) accepted with the root of size %d as second root", i, j, j-1)
				}
			}
		}
	}
	if n <= s.full {
		for j := 1; j <= n; j++ {
			for i := 1; i <= j; i++ {
				pair(i, j)
			}
		}
		key += "|pairs=all"
	} else {
		// sampled: the edges plus PRNG pairs
		pr := fw.NewRand(s.c.Seed, fmt.Sprintf("c08/ahtree/pairs/%d/%d", s.id, len(s.log)))
		for k := 0; k < 400; k++ {
			j := 1 + pr.IntN(n)
			if k%4 == 0 {
				j = n - pr.IntN(min(n, 4))
			}
			i := 1 + pr.IntN(j)
			switch k % 5 {
			case 0:
				i = j
			case 1:
				p := 1
				for p*2 <= j {
					p *= 2
				}
				i = max(1, min(j, p+pr.IntN(3)-1))
			}
			pair(i, j)
		}
		key += "|pairs=sampled"
	}
	s.dist[key+"|"+outcome] = struct{}{}
}

func trunc(b []byte) []byte {
	if len(b) > 24 {
		return b[:24]
	}
	return b
}
