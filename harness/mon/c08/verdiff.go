package c08

import (
	"fmt"
	"math/rand/v2"
	"runtime/debug"
	"strings"
	"sync"

	"github.com/codenotary/immudb/embedded/htree"

	"verifharness/internal/fw"
	"verifharness/internal/refmerkle"
)

// Part (c): the four verifiers against the strict reference on honest and altered tuples.
//
// Tuples are built from reference trees (part (a)/(b) establish separately that
// the implementation's generators return exactly these proofs). An altered
// tuple keeps the original roots, or ("refolded") gets the roots an attacker
// would pick: the ones a naive fold of the altered proof produces. The naive
// folds below are input generators, never oracles.

type vd struct {
	c *fw.Ctx
	g guarded
	// per work item, flushed once (keeps the shared mutex out of the hot loop)
	evals  int
	counts map[string]int64
	dist   map[string]struct{}
}

func newVD(c *fw.Ctx) *vd {
	return &vd{c: c, g: guarded{c}, counts: map[string]int64{}, dist: map[string]struct{}{}}
}

func (v *vd) flush() {
	v.c.Eval(v.evals)
	for k, n := range v.counts {
		v.c.Count(k, n)
	}
	for k := range v.dist {
		v.c.Distinct(k)
	}
}

// decide takes one differential decision.
func (v *vd) decide(fn, class, variant, shape string, ref, impl bool, detail func() (string, map[string][]byte)) {
	v.evals++
	v.dist["verify|"+fn+"|"+shape+"|"+class+variant+"|ref="+ar(ref)+"|impl="+ar(impl)] = struct{}{}
	v.counts["decisions_"+fn]++
	if want, ok := sampleWanted[fn]; ok && want == class {
		if _, done := sampled.LoadOrStore(fn, true); !done {
			d, _ := detail()
			if i := strings.Index(d, "proof built"); i >= 0 {
				d = d[i:]
			}
			v.c.Sample(map[string]any{"part": "verifier-differential", "verifier": fn, "tuple": d, "reference_accepts": ref, "implementation_accepts": impl})
		}
	}
	switch {
	case class == "honest":
		if !ref {
			panic("C08 harness bug: the reference rejected an honest proof: " + fn + " " + shape)
		}
		if !impl {
			d, files := detail()
			d = strings.Replace(d, "accepted a tuple the strict RFC 9162 verifier rejects", "rejected an honest proof (reference proof, reference roots) that the strict RFC 9162 verifier accepts", 1)
			v.c.Violation(fn+"/honest-rejected", d, files)
		}
	case impl && !ref:
		d, files := detail()
		v.c.Violation(fn+"/"+class, d, files)
		v.counts["impl_accepts_ref_rejects"]++
	case ref && !impl:
		v.counts["stricter_than_reference"]++
	case ref && impl:
		v.counts["altered_but_valid_for_claim"]++
	default:
		v.counts["altered_rejected_by_both"]++
	}
}

// naive folds (generators of attacker-chosen roots).
func foldInclusion(p []H, i0, last uint64, leaf H) H { // 0-based index and last index
	r := leaf
	for _, h := range p {
		if i0%2 == 0 && i0 != last {
			r = refmerkle.NodeHash(r, h)
		} else {
			r = refmerkle.NodeHash(h, r)
		}
		i0 >>= 1
		last >>= 1
	}
	return r
}

func foldConsistency(p []H, i, j uint64) (H, H) { // 1-based sizes, explicit seed, no length checks
	fn, sn := i-1, j-1
	for fn%2 == 1 {
		fn >>= 1
		sn >>= 1
	}
	fr, sr := p[0], p[0]
	for _, c := range p[1:] {
		if fn%2 == 1 || fn == sn {
			fr = refmerkle.NodeHash(c, fr)
			sr = refmerkle.NodeHash(c, sr)
			for fn%2 == 0 && fn != 0 {
				fn >>= 1
				sn >>= 1
			}
		} else {
			sr = refmerkle.NodeHash(sr, c)
		}
		fn >>= 1
		sn >>= 1
	}
	return fr, sr
}

// one concrete observed decision per verifier goes to the evidence samples
var sampleWanted = map[string]string{
	"ahtree.VerifyInclusion": "wrong-index", "ahtree.VerifyConsistency": "wrong-size", "htree.VerifyInclusion": "honest",
}
var sampled sync.Map

type pmut struct {
	class string
	p     []H
}

func randHash(r *rand.Rand) (h H) {
	for k := 0; k < len(h); k += 8 {
		x := r.Uint64()
		for b := 0; b < 8; b++ {
			h[k+b] = byte(x >> (8 * b))
		}
	}
	return
}

func without(p []H, k int) []H {
	q := make([]H, 0, len(p)-1)
	q = append(q, p[:k]...)
	return append(q, p[k+1:]...)
}

func with(p []H, k int, h H) []H {
	q := make([]H, 0, len(p)+1)
	q = append(q, p[:k]...)
	q = append(q, h)
	return append(q, p[k:]...)
}

// proofMutants: dropped / extra / duplicated / flipped / reordered terms.
func proofMutants(r *rand.Rand, p []H) []pmut {
	var out []pmut
	n := len(p)
	if n > 0 {
		ks := []int{0, n - 1, r.IntN(n)}
		if n <= 8 {
			ks = ks[:0]
			for k := 0; k < n; k++ {
				ks = append(ks, k)
			}
		}
		for _, k := range ks {
			out = append(out, pmut{"dropped-term", without(p, k)})
		}
		for _, k := range []int{0, n - 1, r.IntN(n)} {
			out = append(out, pmut{"duplicated-term", with(p, k, p[k])})
		}
		k := r.IntN(n)
		q := append([]H(nil), p...)
		q[k][r.IntN(32)] ^= 1 << uint(r.IntN(8))
		out = append(out, pmut{"flipped-term", q})
		if n > 1 {
			k := r.IntN(n - 1)
			if p[k] != p[k+1] {
				q := append([]H(nil), p...)
				q[k], q[k+1] = q[k+1], q[k]
				out = append(out, pmut{"reordered-terms", q})
			}
		}
	}
	for _, k := range []int{0, n, r.IntN(n + 1)} {
		out = append(out, pmut{"extra-term", with(p, k, randHash(r))})
	}
	return out
}

// claim lists: every value when the range is small, otherwise the neighbours and power-of-two relatives.
func claims(r *rand.Rand, lo, hi, around uint64, exhaustive bool, extra ...uint64) []uint64 {
	var out []uint64
	if exhaustive {
		for x := lo; x <= hi; x++ {
			out = append(out, x)
		}
		return out
	}
	seen := map[uint64]bool{}
	add := func(x uint64) {
		if x >= lo && x <= hi && !seen[x] {
			seen[x] = true
			out = append(out, x)
		}
	}
	for d := uint64(0); d <= 3; d++ {
		add(around + d)
		add(around - d)
	}
	for s := uint(0); s < 12; s++ {
		add(around ^ (1 << s))
		add(around + (1 << s))
		add(around - (1 << s))
		add(1 << s)
	}
	add(lo)
	add(hi)
	add(2 * around)
	add(around / 2)
	for _, x := range extra {
		add(x)
	}
	for k := 0; k < 8; k++ {
		add(lo + r.Uint64N(hi-lo+1))
	}
	return out
}

type vtree struct {
	id      int
	n       int // leaves
	leaves  [][]byte
	lh      []H
	exh     bool // enumerate all (i, j) and all claims
	samples int  // sampled pairs per j otherwise
}

func (t *vtree) ref() *refmerkle.Tree { return refmerkle.New(t.lh) }

func makeVTree(c *fw.Ctx, id, n int, exh bool, samples int, htreeLeaves bool) *vtree {
	r := c.Rand(fmt.Sprintf("c08/verify/tree/%d", id))
	t := &vtree{id: id, n: n, exh: exh, samples: samples}
	for k := 0; k < n; k++ {
		ln := 32
		if !htreeLeaves {
			switch r.IntN(10) {
			case 0:
				ln = 0
			case 1, 2, 3:
				ln = 1 + r.IntN(8)
			case 4:
				ln = 65 // the length of a node preimage: a leaf payload that looks like two hashes
			default:
				ln = 32
			}
		}
		d := make([]byte, ln)
		for b := range d {
			d[b] = byte(r.UintN(256))
		}
		if !htreeLeaves && k > 0 && r.IntN(12) == 0 {
			d = t.leaves[r.IntN(k)] // repeated payloads: equal leaf hashes at different positions
		}
		t.leaves = append(t.leaves, d)
	}
	t.lh = refmerkle.LeafHashes(t.leaves)
	return t
}

func verifierDifferential(c *fw.Ctx) {
	type item struct {
		t  *vtree
		j  int
		ht bool
	}
	var items []item
	addTree := func(t *vtree, ht bool) {
		for j := 1; j <= t.n; j++ {
			items = append(items, item{t, j, ht})
		}
	}
	nExh := c.N(64, 200)
	id := 0
	for rep := 0; rep < c.N(1, 2); rep++ {
		addTree(makeVTree(c, id, nExh, true, 0, false), false)
		id++
		addTree(makeVTree(c, id, nExh, true, 0, true), true)
		id++
	}
	for _, n := range []int{c.N(150, 300), c.N(1030, 4100)} {
		addTree(makeVTree(c, id, n, false, c.N(3, 6), false), false)
		id++
		addTree(makeVTree(c, id, n, false, c.N(3, 6), true), true)
		id++
	}
	parallel(len(items), func(k int) {
		it := items[k]
		defer func() {
			if r := recover(); r != nil {
				panic(fmt.Sprintf("%v\n%s", r, debug.Stack()))
			}
		}()
		// a private reference: Tree is not safe for concurrent use
		rt := it.t.ref()
		v := newVD(c)
		defer v.flush()
		r := c.Rand(fmt.Sprintf("c08/verify/%d/%d/%v", it.t.id, it.j, it.ht))
		if it.ht {
			v.htreeItem(r, it.t, rt, it.j)
		} else {
			v.ahtreeItem(r, it.t, rt, it.j)
		}
	})
}

func (v *vd) pickIs(r *rand.Rand, t *vtree, j int) []int {
	if t.exh {
		is := make([]int, j)
		for k := range is {
			is[k] = k + 1
		}
		return is
	}
	seen := map[int]bool{}
	var is []int
	add := func(i int) {
		if i >= 1 && i <= j && !seen[i] {
			seen[i] = true
			is = append(is, i)
		}
	}
	add(j)
	add(1)
	for k := 0; k < t.samples; k++ {
		add(1 + r.IntN(j))
	}
	p := 1
	for p*2 <= j {
		p *= 2
	}
	add(p)
	add(p + 1)
	add(p - 1)
	return is
}

func tupleFiles(p []H, args string, hashes ...H) map[string][]byte {
	var hb []byte
	for _, h := range hashes {
		hb = append(hb, h[:]...)
	}
	return map[string][]byte{"proof.bin": proofBytes(p), "hashes.bin": hb, "args.txt": []byte(args)}
}

func (v *vd) ahtreeItem(r *rand.Rand, t *vtree, rt *refmerkle.Tree, j int) {
	J := uint64(j)
	N := uint64(t.n)
	rootJ := rt.RootAt(j)
	otherRoots := func(i int) []H {
		out := []H{rt.RootAt(i), t.lh[i-1], randHash(r), rt.RootAt(0)}
		if j > 1 {
			out = append(out, rt.RootAt(j-1))
		}
		if j < t.n {
			out = append(out, rt.RootAt(j+1))
		}
		return out
	}

	// ---- inclusion ----
	for _, i := range v.pickIs(r, t, j) {
		I := uint64(i)
		leaf := t.lh[i-1]
		p := rt.Inclusion(i-1, j)
		shape := pairClass(I, J)
		incl := func(class, variant string, q []H, ci, cj uint64, lf, root H) {
			ref := refAhInclusion(q, ci, cj, lf, root)
			impl := implAhInclusion(v.g, q, ci, cj, lf, root)
			v.decide("ahtree.VerifyInclusion", class, variant, shape, ref, impl, func() (string, map[string][]byte) {
				args := fmt.Sprintf("proof built for leaf i=%d in tree size j=%d (%d terms); claimed i=%d j=%d, %d terms; class %s%s", i, j, len(p), ci, cj, len(q), class, variant)
				return "ahtree.VerifyInclusion accepted a tuple the strict RFC 9162 verifier rejects: " + args, tupleFiles(q, args, lf, root)
			})
		}
		incl("honest", "", p, I, J, leaf, rootJ)
		for _, ci := range claims(r, 0, J+2, I, t.exh, J, J+1) {
			if ci != I {
				incl("wrong-index", "", p, ci, J, leaf, rootJ)
			}
		}
		lo := uint64(0)
		if I > 1 {
			lo = I - 1
		}
		for _, cj := range claims(r, lo, N+8, J, t.exh, I) {
			if cj != J {
				incl("wrong-size", "", p, I, cj, leaf, rootJ)
			}
		}
		for _, d := range []int64{-2, -1, 1, 2, 4, 16, 64} {
			ci, cj := int64(I)+d, int64(J)+d
			if ci >= 0 {
				incl("shifted-both", "", p, uint64(ci), uint64(cj), leaf, rootJ)
			}
		}
		for _, m := range proofMutants(r, p) {
			incl(m.class, "", m.p, I, J, leaf, rootJ)
			incl(m.class, "+refolded-root", m.p, I, J, leaf, foldInclusion(m.p, I-1, J-1, leaf))
		}
		for _, root := range otherRoots(i) {
			if root != rootJ {
				incl("swapped-roots", "", p, I, J, leaf, root)
			}
		}
		for _, lf := range []H{t.lh[(i)%t.n], t.lh[(i+t.n-2)%t.n], randHash(r), rootJ, refmerkle.LeafHash(leaf[:])} {
			if lf != leaf {
				incl("other-leaf", "", p, I, J, lf, rootJ)
			}
		}
	}

	// ---- consistency ----
	for _, i := range v.pickIs(r, t, j) {
		I := uint64(i)
		rootI := rt.RootAt(i)
		var p []H
		if i < j {
			p = refAhConsistencyProof(rt, i, j)
		} else if j > 1 {
			// immudb's own format for i == j: the two children of the root, right child first
			k := 1
			for k*2 < j {
				k *= 2
			}
			p = []H{rt.MTH(k, j), rt.MTH(0, k)}
		}
		shape := pairClass(I, J)
		cons := func(class, variant string, q []H, ci, cj uint64, r1, r2 H) {
			ref := refAhConsistency(q, ci, cj, r1, r2)
			impl := implAhConsistency(v.g, q, ci, cj, r1, r2)
			v.decide("ahtree.VerifyConsistency", class, variant, shape, ref, impl, func() (string, map[string][]byte) {
				args := fmt.Sprintf("proof built for sizes i=%d j=%d (%d terms); claimed i=%d j=%d, %d terms; class %s%s", i, j, len(p), ci, cj, len(q), class, variant)
				return "ahtree.VerifyConsistency accepted a tuple the strict RFC 9162 verifier rejects: " + args, tupleFiles(q, args, r1, r2)
			})
		}
		cons("honest", "", p, I, J, rootI, rootJ)
		if i == j {
			cons("honest", "+empty-proof", nil, I, J, rootI, rootJ)
		}
		for _, ci := range claims(r, 0, J+2, I, t.exh, J, J+1) {
			if ci != I {
				cons("wrong-index", "", p, ci, J, rootI, rootJ)
			}
		}
		lo := uint64(0)
		if I > 1 {
			lo = I - 1
		}
		for _, cj := range claims(r, lo, N+8, J, t.exh, I) {
			if cj != J {
				cons("wrong-size", "", p, I, cj, rootI, rootJ)
			}
		}
		for _, d := range []int64{-2, -1, 1, 2, 4, 16, 64} {
			ci, cj := int64(I)+d, int64(J)+d
			if ci >= 0 {
				cons("shifted-both", "", p, uint64(ci), uint64(cj), rootI, rootJ)
			}
		}
		for _, m := range proofMutants(r, p) {
			cons(m.class, "", m.p, I, J, rootI, rootJ)
			if len(m.p) > 0 {
				f1, f2 := foldConsistency(m.p, I, J)
				cons(m.class, "+refolded-roots", m.p, I, J, f1, f2)
				cons(m.class, "+refolded-second-root", m.p, I, J, rootI, f2)
			}
		}
		cons("swapped-roots", "+exchanged", p, I, J, rootJ, rootI)
		for _, root := range otherRoots(i) {
			if root != rootJ {
				cons("swapped-roots", "+second", p, I, J, rootI, root)
			}
			if root != rootI {
				cons("swapped-roots", "+first", p, I, J, root, rootJ)
			}
		}
	}

	// ---- last inclusion: leaf j is the last leaf of the tree of size j ----
	{
		leaf := t.lh[j-1]
		p := rt.Inclusion(j-1, j)
		shape := pairClass(J, J)
		last := func(class, variant string, q []H, ci uint64, lf, root H) {
			ref := refAhLast(q, ci, lf, root)
			impl := implAhLast(v.g, q, ci, lf, root)
			v.decide("ahtree.VerifyLastInclusion", class, variant, shape, ref, impl, func() (string, map[string][]byte) {
				args := fmt.Sprintf("proof built for the last leaf of tree size %d (%d terms); claimed size %d, %d terms; class %s%s", j, len(p), ci, len(q), class, variant)
				return "ahtree.VerifyLastInclusion accepted a tuple the strict RFC 9162 verifier rejects: " + args, tupleFiles(q, args, lf, root)
			})
		}
		last("honest", "", p, J, leaf, rootJ)
		for _, ci := range claims(r, 0, N+8, J, t.exh || t.n <= 400) {
			if ci != J {
				last("wrong-index", "", p, ci, leaf, rootJ)
			}
		}
		for _, m := range proofMutants(r, p) {
			last(m.class, "", m.p, J, leaf, rootJ)
			last(m.class, "+refolded-root", m.p, J, leaf, foldInclusion(m.p, J-1, J-1, leaf))
		}
		for _, root := range otherRoots(j) {
			if root != rootJ {
				last("swapped-roots", "", p, J, leaf, root)
			}
		}
		for _, lf := range []H{t.lh[j%t.n], randHash(r), rootJ} {
			if lf != leaf {
				last("other-leaf", "", p, J, lf, rootJ)
			}
		}
		// a proof of a non-last leaf presented as last-inclusion proof of size j
		for _, i := range v.pickIs(r, t, j) {
			if i < j {
				q := rt.Inclusion(i-1, j)
				last("not-the-last-leaf", "", q, J, t.lh[i-1], rootJ)
				last("not-the-last-leaf", "+claimed-as-its-index", q, uint64(i), t.lh[i-1], rootJ)
			}
		}
	}
}

func (v *vd) htreeItem(r *rand.Rand, t *vtree, rt *refmerkle.Tree, width int) {
	root := rt.RootAt(width)
	N := t.n
	digest := func(k int) (d H) { copy(d[:], t.leaves[k]); return }
	for _, i1 := range v.pickIs(r, t, width) {
		leafIdx := i1 - 1
		dg := digest(leafIdx)
		p := rt.Inclusion(leafIdx, width)
		shape := pairClass(uint64(i1), uint64(width))
		ht := func(class, variant string, q []H, cl, cw int, d, rootc H) {
			ref := refHtInclusion(cl, cw, q, d, rootc)
			impl := implHtInclusion(v.g, cl, cw, q, d, rootc)
			v.decide("htree.VerifyInclusion", class, variant, shape, ref, impl, func() (string, map[string][]byte) {
				args := fmt.Sprintf("proof built for leaf %d of width %d (%d terms); claimed Leaf=%d Width=%d, %d terms; class %s%s", leafIdx, width, len(p), cl, cw, len(q), class, variant)
				return "htree.VerifyInclusion accepted a tuple the strict RFC 9162 verifier rejects: " + args, tupleFiles(q, args, d, rootc)
			})
		}
		ht("honest", "", p, leafIdx, width, dg, root)
		for _, cl := range claims(r, 0, uint64(width)+2, uint64(leafIdx), t.exh, uint64(width), uint64(width)-1) {
			if int(cl) != leafIdx {
				ht("wrong-index", "", p, int(cl), width, dg, root)
			}
		}
		ht("wrong-index", "+negative", p, -1, width, dg, root)
		ht("wrong-index", "+negative", p, -leafIdx-2, width, dg, root)
		lo := uint64(0)
		if leafIdx > 0 {
			lo = uint64(leafIdx)
		}
		for _, cw := range claims(r, lo, uint64(N)+8, uint64(width), t.exh, uint64(leafIdx)+1) {
			if int(cw) != width {
				ht("wrong-size", "", p, leafIdx, int(cw), dg, root)
			}
		}
		ht("wrong-size", "+negative", p, leafIdx, -width, dg, root)
		for _, d := range []int{-2, -1, 1, 2, 4, 16, 64} {
			if leafIdx+d >= 0 {
				ht("shifted-both", "", p, leafIdx+d, width+d, dg, root)
			}
		}
		lh := refmerkle.LeafHash(dg[:])
		for _, m := range proofMutants(r, p) {
			ht(m.class, "", m.p, leafIdx, width, dg, root)
			ht(m.class, "+refolded-root", m.p, leafIdx, width, dg, foldInclusion(m.p, uint64(leafIdx), uint64(width-1), lh))
		}
		others := []H{lh, randHash(r), rt.RootAt(0)}
		if width > 1 {
			others = append(others, rt.RootAt(width-1))
		}
		if width < N {
			others = append(others, rt.RootAt(width+1))
		}
		for _, rc := range others {
			if rc != root {
				ht("swapped-roots", "", p, leafIdx, width, dg, rc)
			}
		}
		for _, d := range []H{digest((leafIdx + 1) % N), randHash(r), lh, root} {
			if d != dg {
				ht("other-leaf", "", p, leafIdx, width, d, root)
			}
		}
	}
	// nil proof must be rejected (and must not panic)
	v.evals++
	if v.g.boolCall("htree.VerifyInclusion", func() bool { return htree.VerifyInclusion(nil, H{}, root) }) {
		v.c.Violation("htree.VerifyInclusion/nil-proof", "htree.VerifyInclusion(nil, …) returned true", nil)
	}
}
