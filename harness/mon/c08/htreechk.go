package c08

import (
	"fmt"
	"math/rand/v2"

	"github.com/codenotary/immudb/embedded/htree"

	"verifharness/internal/fw"
	"verifharness/internal/refmerkle"
)

// Part (b): htree.BuildWith / Root / InclusionProof / VerifyInclusion for every width and every leaf,
// on fresh trees and on trees reused after a wider or narrower build (stale levels must not leak).

func htreeWidths(c *fw.Ctx) []int {
	var ws []int
	if c.Quick() {
		for w := 0; w <= 130; w++ {
			ws = append(ws, w)
		}
		return append(ws, 255, 256, 257, 511, 512, 513)
	}
	for w := 0; w <= 300; w++ {
		ws = append(ws, w)
	}
	seen := map[int]bool{}
	r := c.Rand("c08/htree/widths")
	add := func(w int) {
		if w > 300 && w <= 1100 && !seen[w] {
			seen[w] = true
			ws = append(ws, w)
		}
	}
	for _, p := range []int{512, 1024} {
		for d := -2; d <= 2; d++ {
			add(p + d)
		}
	}
	add(1100)
	add(768)
	add(769)
	for len(seen) < 60 {
		add(301 + r.IntN(800))
	}
	return ws
}

func randDigests(r *rand.Rand, n int) []H {
	ds := make([]H, n)
	for k := range ds {
		ds[k] = randHash(r)
		if k > 0 && r.IntN(16) == 0 {
			ds[k] = ds[r.IntN(k)]
		}
	}
	return ds
}

func htreeDifferential(c *fw.Ctx) {
	ws := htreeWidths(c)
	g := guarded{c}
	parallel(len(ws), func(k int) {
		w := ws[k]
		r := c.Rand(fmt.Sprintf("c08/htree/%d", w))
		for _, mode := range []string{"fresh-exact", "fresh-larger", "reused-after-wider", "reused-after-narrower"} {
			maxW := w
			switch mode {
			case "fresh-larger":
				maxW = w + 1 + r.IntN(40)
			case "reused-after-wider", "reused-after-narrower":
				maxW = 2*w + 3
			}
			var tr *htree.HTree
			var err error
			panicked, sig, text := fw.Guard(func() {
				tr, err = htree.New(maxW)
				if err != nil {
					return
				}
				switch mode {
				case "reused-after-wider":
					err = tr.BuildWith(randDigests(r, w+1+r.IntN(w+2)))
				case "reused-after-narrower":
					err = tr.BuildWith(randDigests(r, r.IntN(w+1)))
				}
			})
			if panicked {
				c.Violation(sig, fmt.Sprintf("htree.New(%d)/BuildWith panicked (%s)", maxW, mode), map[string][]byte{"panic.txt": []byte(text)})
				continue
			}
			if err != nil {
				c.Inconclusive(fmt.Sprintf("htree setup width %d maxWidth %d mode %s: %v", w, maxW, mode, err))
				continue
			}
			checkHTree(c, g, r, tr, w, mode)
		}
	})
}

func checkHTree(c *fw.Ctx, g guarded, r *rand.Rand, tr *htree.HTree, w int, mode string) {
	ds := randDigests(r, w)
	leaves := make([][]byte, w)
	for k := range ds {
		leaves[k] = ds[k][:]
	}
	rt := refmerkle.New(refmerkle.LeafHashes(leaves))
	want := rt.RootAt(w)
	bad := func(sig, detail string) {
		c.Violation(sig, fmt.Sprintf("%s (width %d, %s)", detail, w, mode), map[string][]byte{"digests.bin": proofBytes(ds)})
	}
	var root H
	var err error
	if panicked, sig, text := fw.Guard(func() {
		err = tr.BuildWith(ds)
		root = tr.Root()
	}); panicked {
		c.Violation(sig, fmt.Sprintf("htree.BuildWith panicked, width %d (%s)", w, mode), map[string][]byte{"panic.txt": []byte(text)})
		return
	}
	if err != nil {
		c.Inconclusive(fmt.Sprintf("htree.BuildWith width %d %s: %v", w, mode, err))
		return
	}
	evals := 1
	outcome := "ok"
	if root != want {
		bad("htree.Root/differs-from-reference", fmt.Sprintf("htree.Root()=%x, RFC 6962 MTH=%x", root, want))
		outcome = "root-differs"
	}
	c.Distinct("htree|build|width=" + sizeClass(uint64(w)) + "|" + mode + "|" + outcome)
	dist := map[string]struct{}{}
	for leaf := 0; leaf < w; leaf++ {
		var p *htree.InclusionProof
		var perr error
		if panicked, sig, text := fw.Guard(func() { p, perr = tr.InclusionProof(leaf) }); panicked {
			c.Violation(sig, fmt.Sprintf("htree.InclusionProof(%d) panicked, width %d (%s)", leaf, w, mode), map[string][]byte{"panic.txt": []byte(text)})
			continue
		}
		evals += 4
		oc := "ok"
		switch {
		case perr != nil || p == nil:
			bad("htree.InclusionProof/error-for-valid-leaf", fmt.Sprintf("InclusionProof(%d): %v", leaf, perr))
			oc = "error"
		default:
			if p.Leaf != leaf || p.Width != w {
				bad("htree.InclusionProof/wrong-position-fields", fmt.Sprintf("InclusionProof(%d) returned Leaf=%d Width=%d", leaf, p.Leaf, p.Width))
				oc = "fields"
			}
			if !eqProof(p.Terms, rt.Inclusion(leaf, w)) {
				bad("htree.InclusionProof/differs-from-reference", fmt.Sprintf("InclusionProof(%d): %d terms, PATH has %d or other hashes", leaf, len(p.Terms), len(rt.Inclusion(leaf, w))))
				oc = "differs"
			}
			if !implHtInclusion(g, p.Leaf, p.Width, p.Terms, ds[leaf], root) {
				bad("htree.VerifyInclusion/honest-rejected", fmt.Sprintf("own proof of leaf %d not accepted against own root", leaf))
				oc = "impl-rejects"
			}
			if !refHtInclusion(p.Leaf, p.Width, p.Terms, ds[leaf], want) {
				bad("htree.InclusionProof/rejected-by-strict-verifier", fmt.Sprintf("proof of leaf %d does not verify against the reference root under RFC 9162", leaf))
				oc = "strict-rejects"
			}
		}
		dist["htree|proof|"+pairClass(uint64(leaf)+1, uint64(w))+"|"+oc] = struct{}{}
	}
	// a leaf outside the tree has no proof
	if panicked, _, _ := fw.Guard(func() { _, err = tr.InclusionProof(w) }); !panicked {
		evals++
		if err == nil {
			c.Count("htree_proof_for_leaf_outside_tree", 1) // not part of the statement: counted only
		}
	}
	if w == 13 && mode == "reused-after-wider" {
		c.Sample(map[string]any{"part": "htree", "width": w, "mode": mode, "root": fmt.Sprintf("%x", root), "reference_root": fmt.Sprintf("%x", want), "leaves_checked": w})
	}
	c.Eval(evals)
	for k := range dist {
		c.Distinct(k)
	}
}
