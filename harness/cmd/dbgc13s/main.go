// dbgc13s: development binary for mon/c13s (front-end tier of property C13): registers a monitor named
// "C13" whose Run is c13s.RunFrontends, so that `dbgc13s C13 [--tier thorough]` runs only that tier.
package main

import (
	"verifharness/internal/fw"
	"verifharness/mon/c13s"
)

func main() {
	fw.RegisterMonitor("C13", "exploration", c13s.RunFrontends)
	fw.Main()
}
