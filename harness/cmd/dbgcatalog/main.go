//go:build verif

// dbgcatalog: deterministic reproduction of "a RW SQL tx uses a cached catalog older than its snapshot":
// session A commits CREATE UNIQUE INDEX and is held between the store commit and the catalog cache
// invalidation; session B then opens a tx, inserts a duplicate of the unique column and commits.
package main

import (
	"context"
	"fmt"
	"os"
	"sync"

	"github.com/codenotary/immudb/embedded/sql"
	"github.com/codenotary/immudb/embedded/store"
	"verifharness/internal/hook"
	"verifharness/internal/sth"
)

func main() {
	dir := "/var/tmp/dbgcatalog"
	os.RemoveAll(dir)
	defer os.RemoveAll(dir)
	st, err := store.Open(dir, store.DefaultOptions().WithMultiIndexing(true).WithLogger(sth.QuietLogger()))
	if err != nil {
		panic(err)
	}
	defer st.Close()
	eng, _ := sql.NewEngine(st, sql.DefaultOptions().WithPrefix([]byte{2}))
	ctx := context.Background()
	exec := func(q string) error { _, _, err := eng.Exec(ctx, nil, q, nil); return err }
	must := func(err error) {
		if err != nil {
			panic(err)
		}
	}
	must(exec("CREATE TABLE t (id INTEGER, w INTEGER, PRIMARY KEY id)"))
	must(exec("CREATE TABLE other (id INTEGER, PRIMARY KEY id)"))
	must(exec("INSERT INTO other(id) VALUES (1)")) // warms the catalog cache (non-DDL RW commit)
	held := make(chan struct{})
	release := make(chan struct{})
	var once sync.Once
	arm := false
	hook.Install(&hook.Config{Seed: 1, OnPoint: func(site string) {
		if site == "sql.commit.afterStoreCommit" && arm {
			once.Do(func() { close(held); <-release })
		}
	}})
	arm = true
	done := make(chan error, 1)
	go func() { done <- exec("CREATE UNIQUE INDEX ON t(w)") }()
	<-held // DDL is committed in the store, cache not yet invalidated
	arm = false
	errB := exec("BEGIN TRANSACTION; INSERT INTO t(id, w) VALUES (1, 4); INSERT INTO t(id, w) VALUES (2, 4); COMMIT;")
	close(release)
	must(<-done)
	fmt.Println("session B (two rows with the same w) returned:", errB)
	r, err := eng.Query(ctx, nil, "SELECT COUNT(*) FROM t WHERE w = 4", nil)
	must(err)
	row, _ := r.Read(ctx)
	r.Close()
	n := row.ValuesByPosition[0].RawValue().(int64)
	fmt.Println("rows with w=4 under the committed unique index:", n)
	if n > 1 {
		fmt.Println("DEFECT REPRODUCED")
		os.Exit(1)
	}
}
