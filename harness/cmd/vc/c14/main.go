// vcheck binary for property C14 only (so that a monitor under construction cannot break the others).
package main

import (
	"verifharness/internal/fw"
	_ "verifharness/mon/c14"
)

func main() { fw.Main() }
