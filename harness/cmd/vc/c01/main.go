// vcheck binary for property C01 only (so that a monitor under construction cannot break the others).
package main

import (
	"verifharness/internal/fw"
	_ "verifharness/mon/c01"
)

func main() { fw.Main() }
