// vcheck binary for property C02 only (so that a monitor under construction cannot break the others).
package main

import (
	"verifharness/internal/fw"
	_ "verifharness/mon/c02"
)

func main() { fw.Main() }
