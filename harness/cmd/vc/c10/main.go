// vcheck binary for property C10 only (so that a monitor under construction cannot break the others).
package main

import (
	"verifharness/internal/fw"
	_ "verifharness/mon/c10"
)

func main() { fw.Main() }
