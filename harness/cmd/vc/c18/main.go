// vcheck binary for property C18 only (so that a monitor under construction cannot break the others).
package main

import (
	"verifharness/internal/fw"
	_ "verifharness/mon/c18"
)

func main() { fw.Main() }
