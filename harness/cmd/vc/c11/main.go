// vcheck binary for property C11 only (so that a monitor under construction cannot break the others).
package main

import (
	"verifharness/internal/fw"
	_ "verifharness/mon/c11"
)

func main() { fw.Main() }
