// vcheck binary for property C09 only (so that a monitor under construction cannot break the others).
package main

import (
	"verifharness/internal/fw"
	_ "verifharness/mon/c09"
)

func main() { fw.Main() }
