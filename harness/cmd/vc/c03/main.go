// vcheck binary for property C03 only (so that a monitor under construction cannot break the others).
package main

import (
	"verifharness/internal/fw"
	_ "verifharness/mon/c03"
)

func main() { fw.Main() }
