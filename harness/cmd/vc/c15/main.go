// vcheck binary for property C15 only (so that a monitor under construction cannot break the others).
package main

import (
	"verifharness/internal/fw"
	_ "verifharness/mon/c15"
)

func main() { fw.Main() }
