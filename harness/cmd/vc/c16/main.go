// vcheck binary for property C16 only (so that a monitor under construction cannot break the others).
package main

import (
	"verifharness/internal/fw"
	_ "verifharness/mon/c16"
)

func main() { fw.Main() }
