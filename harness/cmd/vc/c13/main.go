// vcheck binary for property C13 only (so that a monitor under construction cannot break the others).
package main

import (
	"verifharness/internal/fw"
	_ "verifharness/mon/c13"
)

func main() { fw.Main() }
