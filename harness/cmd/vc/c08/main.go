// vcheck binary for property C08 only (so that a monitor under construction cannot break the others).
package main

import (
	"verifharness/internal/fw"
	_ "verifharness/mon/c08"
)

func main() { fw.Main() }
