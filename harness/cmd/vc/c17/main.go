// vcheck binary for property C17 only (so that a monitor under construction cannot break the others).
package main

import (
	"verifharness/internal/fw"
	_ "verifharness/mon/c17"
)

func main() { fw.Main() }
