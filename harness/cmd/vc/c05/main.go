// vcheck binary for property C05 only (so that a monitor under construction cannot break the others).
package main

import (
	"verifharness/internal/fw"
	_ "verifharness/mon/c05"
)

func main() { fw.Main() }
