// vcheck binary for property C07 only (so that a monitor under construction cannot break the others).
package main

import (
	"verifharness/internal/fw"
	_ "verifharness/mon/c07"
)

func main() { fw.Main() }
