// vcheck binary for property C04 only (so that a monitor under construction cannot break the others).
package main

import (
	"verifharness/internal/fw"
	_ "verifharness/mon/c04"
)

func main() { fw.Main() }
