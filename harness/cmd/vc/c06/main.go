// vcheck binary for property C06 only (so that a monitor under construction cannot break the others).
package main

import (
	"verifharness/internal/fw"
	_ "verifharness/mon/c06"
)

func main() { fw.Main() }
