// vcheck binary for property C12 only (so that a monitor under construction cannot break the others).
package main

import (
	"verifharness/internal/fw"
	_ "verifharness/mon/c12"
)

func main() { fw.Main() }
