// vcheck binary for property C19 only (so that a monitor under construction cannot break the others).
package main

import (
	"verifharness/internal/fw"
	_ "verifharness/mon/c19"
)

func main() { fw.Main() }
