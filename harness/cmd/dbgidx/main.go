// dbgidx: development probe — list the keys of a tbtree directory.
package main

import (
	"fmt"
	"os"

	"github.com/codenotary/immudb/embedded/tbtree"
)

func main() {
	t, err := tbtree.Open(os.Args[1], tbtree.DefaultOptions().WithMaxNodeSize(512).WithMaxKeySize(32+1).WithMaxValueSize(400))
	if err != nil {
		panic(err)
	}
	fmt.Println("ts", t.Ts())
	s, err := t.Snapshot()
	if err != nil {
		panic(err)
	}
	r, err := s.NewReader(tbtree.ReaderSpec{})
	if err != nil {
		panic(err)
	}
	for {
		k, _, ts, hc, err := r.Read()
		if err != nil {
			break
		}
		fmt.Printf("%q ts=%d hc=%d\n", k, ts, hc)
	}
}
