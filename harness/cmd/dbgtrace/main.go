//go:build verif

// dbgtrace prints a recorded C03 trace (development aid).
package main

import (
	"math/rand/v2"
	"fmt"
	"os"

	"verifharness/internal/fsjournal"
	"verifharness/internal/hook"
)

func main() {
	tr, err := fsjournal.Load(os.Args[1])
	if err != nil {
		panic(err)
	}
	for i, e := range tr.Events {
		if e.Op == hook.OpMark {
			if e.Kind == "issued" && len(os.Args) < 3 {
				continue
			}
			fmt.Printf("%5d mark %s id=%d\n", i, e.Kind, e.ID)
			continue
		}
		fmt.Printf("%5d %-8s %s off=%d len=%d %s\n", i, e.Op, e.Path, e.Off, len(e.Data), e.Path2)
	}
}

func init() {
	if len(os.Args) > 3 && os.Args[2] == "mat" {
		tr, _ := fsjournal.Load(os.Args[1])
		var p, m int
		fmt.Sscan(os.Args[3], &p)
		fmt.Sscan(os.Args[4], &m)
		info, err := fsjournal.Materialize(tr, p, fsjournal.Model(m), rand.New(rand.NewPCG(1, 2)), os.Args[5])
		fmt.Printf("%+v %v\n", info, err)
		os.Exit(0)
	}
}
