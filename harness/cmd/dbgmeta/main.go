package main

import (
	"fmt"
	"os"
	"path/filepath"

	"github.com/codenotary/immudb/embedded/appendable/singleapp"
)

func main() {
	for _, n := range []int{100, 4000, 4000, 100, 4060, 4000, 8096} {
		dir, _ := os.MkdirTemp("/var/tmp", "dbgmeta")
		fn := filepath.Join(dir, "f.aof")
		md := make([]byte, n)
		for i := range md {
			md[i] = byte(i * 7)
		}
		a, err := singleapp.Open(fn, singleapp.DefaultOptions().WithMetadata(md).WithWriteBuffer(make([]byte, 8192)))
		if err != nil {
			fmt.Println(n, "open:", err)
			continue
		}
		a.Append(make([]byte, 635))
		if os.Getenv("RO") != "" {
			a.SwitchToReadOnlyMode()
			a.SwitchToReadOnlyMode()
		}
		if os.Getenv("NODISCARD") == "" {
			a.DiscardUpto(601)
		}
		buf := make([]byte, 7579)
		if os.Getenv("NOREAD") == "" {
			n1, e1 := a.ReadAt(buf, 614)
			n2, e2 := a.ReadAt(buf[:3943], 4250)
			n3, e3 := a.ReadAt(buf[:1404], 163)
			fmt.Println("reads", n1, e1, n2, e2, n3, e3)
		}
		a.Flush()
		err = a.Copy(filepath.Join(dir, "copy.aof"))
		a.Close()
		_, err2 := singleapp.Open(fn, singleapp.DefaultOptions())
		_, err3 := singleapp.Open(filepath.Join(dir, "copy.aof"), singleapp.DefaultOptions())
		fmt.Println(n, "copy:", err, "reopen:", err2, "open copy:", err3)
		os.RemoveAll(dir)
	}
}
