//go:build verif

// dbgcompact: development probe — compaction racing with the indexer (hook delay before the bulk insert).
package main

import (
	"context"
	"fmt"
	"os"
	"sync/atomic"
	"time"

	"github.com/codenotary/immudb/embedded/store"
	"verifharness/internal/hook"
	"verifharness/internal/sth"
)

var cnt atomic.Int64

func main() {
	dir := "/var/tmp/dbgcompact"
	os.RemoveAll(dir)
	hook.Install(&hook.Config{Seed: 1, OnPoint: func(site string) {
		if site == "indexer.indexSince.beforeInsert" {
			if cnt.Add(1)%7 == 0 {
				time.Sleep(150 * time.Millisecond)
			}
		}
	}})
	o := sth.SmallOpts().WithSynced(false)
	o.WithIndexOptions(o.IndexOpts.WithCompactionThld(1).WithFlushThld(20))
	st, err := store.Open(dir, o)
	if err != nil {
		panic(err)
	}
	ctx := context.Background()
	n := 0
	commit := func(k int) {
		for i := 0; i < k; i++ {
			n++
			tx, _ := st.NewWriteOnlyTx(ctx)
			tx.Set([]byte(fmt.Sprintf("key%03d", n)), nil, []byte("v"))
			if _, err := tx.AsyncCommit(ctx); err != nil {
				panic(err)
			}
		}
	}
	check := func(label string) int {
		wctx, cancel := context.WithTimeout(ctx, 20*time.Second)
		defer cancel()
		if err := st.WaitForIndexingUpto(wctx, uint64(n)); err != nil {
			fmt.Println(label, "indexing:", err)
		}
		miss := 0
		for i := 1; i <= n; i++ {
			if _, err := st.Get(ctx, []byte(fmt.Sprintf("key%03d", i))); err != nil {
				miss++
			}
		}
		fmt.Printf("%s: n=%d missing=%d\n", label, n, miss)
		return miss
	}
	total := 0
	for round := 0; round < 12; round++ {
		commit(30) // the indexer lags behind because of the injected delay
		done := make(chan error, 1)
		go func() { st.FlushIndexes(0, false); done <- st.CompactIndexes() }()
		commit(10)
		<-done
		total += check(fmt.Sprintf("round %d", round))
	}
	st.Close()
	fmt.Println("TOTAL MISSING", total)
}
