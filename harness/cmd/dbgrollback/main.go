// dbgrollback: does a refused BulkInsert (same key twice with decreasing timestamps) erase earlier accepted inserts?
package main

import (
	"fmt"
	"os"

	"github.com/codenotary/immudb/embedded/tbtree"
)

func main() {
	dir, _ := os.MkdirTemp("/var/tmp", "dbgrollback")
	defer os.RemoveAll(dir)
	t, err := tbtree.Open(dir, tbtree.DefaultOptions().WithFlushThld(1000))
	if err != nil {
		panic(err)
	}
	must := func(err error) {
		if err != nil {
			panic(err)
		}
	}
	must(t.Insert([]byte("a"), []byte("v1")))
	_, _, err = t.Flush()
	must(err)
	if os.Getenv("REOPEN") != "" {
		must(t.Close())
		t, err = tbtree.Open(dir, tbtree.DefaultOptions().WithFlushThld(1000))
		must(err)
	}
	if os.Getenv("SNAP") != "" {
		s, err := t.Snapshot()
		must(err)
		s.Close()
	}
	must(t.Insert([]byte("b"), []byte("v2"))) // accepted, not flushed
	ts := t.Ts()
	err = t.BulkInsert([]*tbtree.KVT{{K: []byte("c"), V: []byte("x"), T: ts + 5}, {K: []byte("c"), V: []byte("y"), T: ts + 4}})
	fmt.Println("refused bulk:", err)
	for _, k := range []string{"a", "b", "c"} {
		v, ts, hc, err := t.Get([]byte(k))
		fmt.Printf("Get(%s) = %q ts=%d hc=%d err=%v\n", k, v, ts, hc, err)
	}
	fmt.Println("Ts:", t.Ts())
	t.Close()
}
