// vcheck runs one property monitor against the immudb working tree it was built with.
package main

import (
	"verifharness/internal/fw"
	_ "verifharness/mon"
)

func main() { fw.Main() }
