// Minimal reproductions of the C09 defects (corrupted stored data must be detected, never served).
// Copy into a scratch module that imports github.com/codenotary/immudb (or into /repo/embedded/store
// as an external test, package store_test) and run `go test -run C09`.
// On the unchanged tree: TestC09VLogID panics, TestC09VLenZero and TestC09RecordSplice fail.
// With C09-fetchvlog-unknown-vlog-id.patch and C09-readtx-id-check.patch the first and the third pass;
// TestC09VLenZero stays (open finding, see C09-findings.json).
package c09repro

import (
	"context"
	"encoding/binary"
	"os"
	"path/filepath"
	"testing"

	"github.com/codenotary/immudb/embedded/store"
)

func opts(ioc int) *store.Options {
	return store.DefaultOptions().WithMaxTxEntries(8).WithMaxKeyLen(32).WithMaxConcurrency(2).WithMaxIOConcurrency(ioc).WithSynced(false)
}

func commit(t *testing.T, st *store.ImmuStore, k, v string) {
	tx, err := st.NewWriteOnlyTx(context.Background())
	if err != nil {
		t.Fatal(err)
	}
	tx.Set([]byte(k), nil, []byte(v))
	if _, err := tx.Commit(context.Background()); err != nil {
		t.Fatal(err)
	}
}

// record returns file path and position (inside tx/00000000.tx) of the record of tx id, from the commit log.
func record(t *testing.T, dir string, id int) (string, int64, int) {
	base := func(p string) int64 {
		b, err := os.ReadFile(p)
		if err != nil {
			t.Fatal(err)
		}
		return 4 + int64(binary.BigEndian.Uint32(b))
	}
	cp := filepath.Join(dir, "commit", "00000000.txi")
	cb, _ := os.ReadFile(cp)
	e := cb[base(cp)+int64(id-1)*44:]
	tp := filepath.Join(dir, "tx", "00000000.tx")
	return tp, base(tp) + int64(binary.BigEndian.Uint64(e)), int(binary.BigEndian.Uint32(e[8:]))
}

func patch(t *testing.T, p string, pos int64, b []byte) {
	f, err := os.OpenFile(p, os.O_RDWR, 0)
	if err != nil {
		t.Fatal(err)
	}
	defer f.Close()
	if _, err := f.WriteAt(b, pos); err != nil {
		t.Fatal(err)
	}
}

// entry field offsets inside a header-version-1 record without metadata holding one entry with a 1-byte key:
// id 8, ts 8, blTxID 8, blRoot 32, prevAlh 32, version 2, txmdLen 2, nentries 4 = 96; kvmdLen 2, kLen 2, key 1 = 101
const vLenAt, vOffAt = 101, 105

// store.(*ImmuStore).fetchVLog/nil-deref
func TestC09VLogID(t *testing.T) {
	dir := t.TempDir()
	st, _ := store.Open(dir, opts(2))
	commit(t, st, "a", "value-1")
	st.Close()
	p, pos, _ := record(t, dir, 1)
	patch(t, p, pos+vOffAt, []byte{7}) // value-log id 1 -> 7
	st, err := store.Open(dir, opts(2))
	if err != nil {
		return // detected at open: fine
	}
	defer st.Close()
	tx := store.NewTx(8, 32)
	if err := st.ReadTx(1, false, tx); err != nil {
		return
	}
	if _, err := st.ReadValue(tx.Entries()[0]); err == nil { // panics on the unchanged tree
		t.Fatal("expected an error")
	}
}

// readvalue/vlen-zero-served-empty
func TestC09VLenZero(t *testing.T) {
	dir := t.TempDir()
	st, _ := store.Open(dir, opts(1))
	commit(t, st, "a", "value-1")
	st.Close()
	p, pos, _ := record(t, dir, 1)
	patch(t, p, pos+vLenAt, []byte{0, 0, 0, 0}) // vLen 7 -> 0
	st, err := store.Open(dir, opts(1))
	if err != nil {
		return
	}
	defer st.Close()
	tx := store.NewTx(8, 32)
	if err := st.ReadTx(1, false, tx); err != nil {
		return
	}
	v, err := st.ReadValue(tx.Entries()[0])
	if err == nil {
		t.Fatalf("ReadValue served %q for the committed value %q without error", v, "value-1")
	}
}

// readtx/id-mismatch-after-splice
func TestC09RecordSplice(t *testing.T) {
	dir := t.TempDir()
	st, _ := store.Open(dir, opts(1))
	commit(t, st, "a", "value-1")
	commit(t, st, "b", "value-2")
	commit(t, st, "c", "value-3")
	st.Close()
	p, pos1, n1 := record(t, dir, 1)
	_, pos2, n2 := record(t, dir, 2)
	if n1 != n2 {
		t.Skip("records of different sizes")
	}
	b, _ := os.ReadFile(p)
	patch(t, p, pos2, b[pos1:pos1+int64(n1)]) // record of tx 1 over record of tx 2
	st, err := store.Open(dir, opts(1))
	if err != nil {
		return
	}
	defer st.Close()
	tx := store.NewTx(8, 32)
	if err := st.ReadTx(2, false, tx); err == nil {
		t.Fatalf("ReadTx(2) returned tx %d (key %q) without error", tx.Header().ID, tx.Entries()[0].Key())
	}
}
