// Standalone reproductions of two more C13 findings in the PostgreSQL wire front-end (found by mon/c13s after
// 89c861e): statements that make the pgsql session lose its transaction inside a BEGIN block.
//
// Copy into /repo/pkg/pgsql/server/ as c13s_repro2_test.go and run (tag off):
//
//	go test -vet=off -count=1 -run TestC13s2 ./pkg/pgsql/server/
//
// On the unpatched tree (393de4c) the three tests FAIL; with proposed/C13s-pgwire-use-and-copy-inside-block.patch they pass.
package server_test

import (
	"context"
	"fmt"
	"strings"
	"testing"

	"github.com/codenotary/immudb/pkg/server"
	"github.com/jackc/pgx/v5/pgconn"
	"github.com/stretchr/testify/require"
)

func c13s2Server(t *testing.T) (c, other *pgconn.PgConn) {
	options := server.DefaultOptions().WithDir(t.TempDir()).WithAddress("127.0.0.1").WithPort(0).
		WithPgsqlServer(true).WithPgsqlServerPort(0).WithMetricsServer(false).WithWebServer(false)
	srv := server.DefaultServer().WithOptions(options).(*server.ImmuServer)
	require.NoError(t, srv.Initialize())
	go srv.Start()
	t.Cleanup(func() { srv.Stop() })
	dsn := fmt.Sprintf("host=127.0.0.1 port=%d sslmode=disable user=immudb dbname=defaultdb password=immudb", srv.PgsqlSrv.GetPort())
	var err error
	c, err = pgconn.Connect(context.Background(), dsn)
	require.NoError(t, err)
	other, err = pgconn.Connect(context.Background(), dsn)
	require.NoError(t, err)
	t.Cleanup(func() { c.Close(context.Background()); other.Close(context.Background()) })
	_, err = c.Exec(context.Background(), "CREATE TABLE c13s2(id INTEGER, v INTEGER, PRIMARY KEY id)").ReadAll()
	require.NoError(t, err)
	_, err = c.Exec(context.Background(), "INSERT INTO c13s2(id, v) VALUES (1, 10)").ReadAll()
	require.NoError(t, err)
	return c, other
}

func c13s2Count(t *testing.T, c *pgconn.PgConn, where string) int {
	rs, err := c.Exec(context.Background(), "SELECT id FROM c13s2 WHERE "+where).ReadAll()
	require.NoError(t, err)
	return len(rs[0].Rows)
}

// signature pgwire/statement-in-aborted-block-applied/after-use: USE inside BEGIN… makes the session cancel and
// forget its transaction (useDatabase) while it keeps reporting status 'T': the statements that follow are committed
// one by one, are visible to other sessions at once and survive the ROLLBACK.
func TestC13s2UseInsideBlock(t *testing.T) {
	c, other := c13s2Server(t)
	ex := func(q string) error { _, err := c.Exec(context.Background(), q).ReadAll(); return err }
	require.NoError(t, ex("BEGIN"))
	require.NoError(t, ex("INSERT INTO c13s2(id, v) VALUES (2, 20)"))
	_ = ex("USE defaultdb") // refusing it is fine
	require.Equal(t, byte('T'), c.TxStatus())
	_ = ex("INSERT INTO c13s2(id, v) VALUES (3, 30)")
	require.Zero(t, c13s2Count(t, other, "id = 3"), "another session sees a statement of a block that is still open")
	_ = ex("ROLLBACK")
	require.Zero(t, c13s2Count(t, other, "id >= 2"), "statements of the block are visible after its ROLLBACK")
}

// signature pgwire/copy-in-block-rows-applied-outside-transaction: a row of COPY … FROM stdin fails inside BEGIN…;
// the engine cancels the transaction, COPY carries on and inserts the remaining rows outside any transaction.
func TestC13s2CopyRowErrorInsideBlock(t *testing.T) {
	c, other := c13s2Server(t)
	ex := func(q string) error { _, err := c.Exec(context.Background(), q).ReadAll(); return err }
	require.NoError(t, ex("BEGIN"))
	_, _ = c.CopyFrom(context.Background(), strings.NewReader("5\t50\n1\t11\n6\t60\n"), "COPY c13s2 (id, v) FROM stdin") // row 2: duplicate key
	require.Zero(t, c13s2Count(t, other, "id = 6"), "another session sees a row of a COPY whose block is still open")
	_ = ex("ROLLBACK")
	require.Zero(t, c13s2Count(t, other, "id >= 5"), "rows of the COPY are visible after the ROLLBACK of its block")
}

// signature pgwire/statement-in-aborted-block-applied/after-error/copy: COPY is not refused inside a block that an
// error aborted (it does not go through the guard added for ordinary statements); its rows are committed one by one.
func TestC13s2CopyInsideAbortedBlock(t *testing.T) {
	c, other := c13s2Server(t)
	ex := func(q string) error { _, err := c.Exec(context.Background(), q).ReadAll(); return err }
	require.NoError(t, ex("BEGIN"))
	require.Error(t, ex("INSERT INTO c13s2(id, v) VALUES (1, 11)")) // duplicate key: the block is aborted
	require.Equal(t, byte('E'), c.TxStatus())
	_, _ = c.CopyFrom(context.Background(), strings.NewReader("7\t70\n"), "COPY c13s2 (id, v) FROM stdin")
	_ = ex("ROLLBACK")
	require.Zero(t, c13s2Count(t, other, "id = 7"), "a COPY sent inside an aborted block was applied")
}
