// Minimal reproductions of the C16 defects (decoders must return an error, not crash).
// Copy next to a scratch module that imports github.com/codenotary/immudb (or into
// /repo/embedded/store as an external test) and run `go test -run C16`.
// Every sub-test panics (or allocates GiBs) on the unchanged tree and passes
// with the /verif/proposed/C16-*.patch files applied.
package c16repro

import (
	"context"
	"encoding/binary"
	"os"
	"path/filepath"
	"testing"

	"github.com/codenotary/immudb/embedded/appendable"
	"github.com/codenotary/immudb/embedded/appendable/singleapp"
	"github.com/codenotary/immudb/embedded/store"
	"github.com/codenotary/immudb/pkg/api/schema"
	fm "github.com/codenotary/immudb/pkg/pgsql/server/fmessages"
)

// embedded/store.(*TxMetadata).ReadFrom/slice-bounds  -> C16-txmetadata-extra-attr-bounds.patch
func TestC16TxMetadataExtraLen(t *testing.T) {
	err := store.NewTxMetadata().ReadFrom([]byte{1, 0xff, 0xff})
	if err == nil {
		t.Fatal("expected an error")
	}
}

// embedded/store.(*TxHeader).ReadFrom<-encoding/binary.bigEndian.Uint64/index-out-of-range -> C16-txheader-readfrom-v1-length.patch
func TestC16TxHeaderV1Truncated(t *testing.T) {
	md := store.NewTxMetadata()
	md.WithExtra(make([]byte, 40))
	h := &store.TxHeader{ID: 2, Version: 1, Metadata: md, NEntries: 1, BlTxID: 1}
	b, _ := h.Bytes()
	if err := (&store.TxHeader{}).ReadFrom(b[:124]); err == nil { // 124 = minimum accepted length
		t.Fatal("expected an error")
	}
}

// ReplicateTx: three sites -> C16-replicatetx-bounds.patch
func TestC16ReplicateTxTails(t *testing.T) {
	opts := store.DefaultOptions().WithMaxTxEntries(8).WithMaxKeyLen(32).WithMaxConcurrency(2)
	primary, _ := store.Open(filepath.Join(t.TempDir(), "p"), opts)
	defer primary.Close()
	tx, _ := primary.NewWriteOnlyTx(context.Background())
	md := store.NewKVMetadata()
	md.AsDeleted(true)
	tx.Set([]byte("k"), md, []byte("v"))
	tx.Commit(context.Background())
	exp, err := primary.ExportTx(1, false, false, store.NewTx(8, 32))
	if err != nil {
		t.Fatal(err)
	}
	replica, _ := store.Open(filepath.Join(t.TempDir(), "r"), opts)
	defer replica.Close()

	// (a) trailing "truncated" field with length 0: v[0]
	a := append([]byte{}, exp[:len(exp)-3]...)
	a = append(a, 0, 0)
	// (b) a single byte after the entries: Uint16 on 1 byte
	b := append([]byte{}, exp[:len(exp)-2]...)
	// (c) export cut right after the kv-metadata of the entry: Uint32 on < 4 bytes
	c := exp[:len(exp)-3-1-4+2]
	for name, in := range map[string][]byte{"tlen0": a, "1-byte-tail": b, "no-vlen": c} {
		if _, err := replica.ReplicateTx(context.Background(), in, false, false); err == nil {
			t.Fatalf("%s: expected an error", name)
		}
	}
}

// appendable metadata -> C16-appendable-metadata-bounds.patch
func TestC16AppendableMetadata(t *testing.T) {
	appendable.NewMetadata([]byte{0, 0, 0})                                              // ReadFrom: Uint32 on a short count field
	appendable.NewMetadata([]byte{0, 0, 0, 0})                                           // idem (count field of length 0)
	m := appendable.NewMetadata([]byte{0, 0, 0, 4, 0, 0, 0, 1, 0, 0, 0, 1, 'K', 0, 0, 0, 1, 7}) // {"K": [7]}
	m.GetInt("K")                                                                        // Uint64 on 1 byte
	m2 := appendable.NewMetadata([]byte{0, 0, 0, 4, 0, 0, 0, 1, 0, 0, 0, 1, 'K', 0, 0, 0, 0})
	m2.GetBool("K") // v[0] on an empty value
	// 4 GiB allocation for a 4-byte input
	appendable.NewMetadata([]byte{0xff, 0xff, 0xff, 0xff})
}

// singleapp: metadata length trusted (allocation), unknown compression format (nil reader) -> C16-singleapp-open-readat-bounds.patch
func TestC16SingleappHeader(t *testing.T) {
	p := filepath.Join(t.TempDir(), "f.dat")
	app, _ := singleapp.Open(p, singleapp.DefaultOptions())
	app.Append([]byte("data"))
	app.Close()
	b, _ := os.ReadFile(p)
	// compression format is the 8-byte value that follows the key COMPRESSION_FORMAT
	i := indexOf(b, "COMPRESSION_FORMAT") + len("COMPRESSION_FORMAT") + 4
	binary.BigEndian.PutUint64(b[i:], 9)
	os.WriteFile(p, b, 0o644)
	app, err := singleapp.Open(p, singleapp.DefaultOptions())
	if err == nil {
		app.ReadAt(make([]byte, 4), 0) // nil pointer dereference
		app.Close()
	}
	binary.BigEndian.PutUint32(b, 0xffffffff) // metadata length
	os.WriteFile(p, b, 0o644)
	if _, err := singleapp.Open(p, singleapp.DefaultOptions()); err == nil { // make([]byte, 4 GiB)
		t.Fatal("expected an error")
	}
}

func indexOf(b []byte, s string) int {
	for i := 0; i+len(s) <= len(b); i++ {
		if string(b[i:i+len(s)]) == s {
			return i
		}
	}
	return -1
}

// pgsql front-end messages with an empty payload (type byte + length 4 on the wire) -> C16-fmessages-empty-payload.patch
func TestC16PgEmptyPayload(t *testing.T) {
	fm.ParseQueryMsg(nil)
	fm.ParsePasswordMsg(nil) // reachable before authentication: a remote crash of the server process
	fm.ParseDescribeMsg(nil)
	fm.ParseDescribeMsg([]byte{'S'})
}

// absent sub-messages -> C16-protoconv-nil-submessages.patch
func TestC16ProtoNil(t *testing.T) {
	schema.DualProofFromProto(&schema.DualProof{})
	schema.TxHeaderFromProto(nil)
	schema.LinearProofFromProto(nil)
	schema.InclusionProofFromProto(nil)
	schema.LinearAdvanceProofFromProto(&schema.LinearAdvanceProof{InclusionProofs: []*schema.InclusionProof{nil}})
}

// open finding embedded/store.(*TxHeader).innerHash/panic
func TestC16AlhUnknownVersion(t *testing.T) {
	store.VerifyDualProof(&store.DualProof{SourceTxHeader: &store.TxHeader{ID: 1, Version: 2}, TargetTxHeader: &store.TxHeader{ID: 1}}, 1, 1, [32]byte{}, [32]byte{})
}
