// Standalone reproductions of the defects found by the C05 monitor (MVCC serializability).
//
//	cp C05-repro_test.go <repo>/embedded/store/zz_c05_repro_test.go
//	go test -vet=off -count=1 -run TestC05 ./embedded/store/
//
// Every test FAILS on the defective tree and passes once the corresponding fix is applied.
package store

import (
	"context"
	"errors"
	"fmt"
	"io"
	"testing"

	"github.com/codenotary/immudb/embedded/logger"
)

func c05Opts() *Options {
	return DefaultOptions().WithSynced(false).WithLogger(logger.NewSimpleLoggerWithLevel("c05", io.Discard, logger.LogError))
}

func c05ID(hdr *TxHeader) uint64 {
	if hdr == nil {
		return 0
	}
	return hdr.ID
}

func c05Commit(t *testing.T, st *ImmuStore, kvs ...string) *TxHeader {
	t.Helper()
	tx, err := st.NewWriteOnlyTx(context.Background())
	if err != nil {
		t.Fatal(err)
	}
	for i := 0; i < len(kvs); i += 2 {
		if err := tx.Set([]byte(kvs[i]), nil, []byte(kvs[i+1])); err != nil {
			t.Fatal(err)
		}
	}
	hdr, err := tx.Commit(context.Background()) // waits until every index holds the tx
	if err != nil {
		t.Fatal(err)
	}
	return hdr
}

// A read-write tx that first writes into index "a:" (fresh snapshot) and then reads index "b:" from a
// stale snapshot is accepted although a tx committed in between changed what it read:
// checkPreconditions returns at the first snapshot that is up to date instead of going on to the others.
func TestC05StaleReadOfSecondIndexIsNotValidated(t *testing.T) {
	st, err := Open(t.TempDir(), c05Opts().WithMultiIndexing(true))
	if err != nil {
		t.Fatal(err)
	}
	defer st.Close()
	for _, p := range []string{"a:", "b:"} {
		if err := st.InitIndexing(&IndexSpec{SourcePrefix: []byte(p), TargetPrefix: []byte(p)}); err != nil {
			t.Fatal(err)
		}
	}
	ctx := context.Background()
	c05Commit(t, st, "a:k", "a1", "b:k", "b1") // tx 1
	// a snapshot of index b: is dumped at tx 1; later transactions may reuse it (that is what makes snapshots stale)
	snap, err := st.SnapshotMustIncludeTxID(ctx, []byte("b:"), 1)
	if err != nil {
		t.Fatal(err)
	}
	snap.Close()
	c05Commit(t, st, "b:k", "b2") // tx 2

	tx, err := st.NewTx(ctx, &TxOptions{Mode: ReadWriteTx}) // any snapshot may be used
	if err != nil {
		t.Fatal(err)
	}
	if err := tx.Set([]byte("a:x"), nil, []byte("own")); err != nil { // first snapshot: index a:, up to date, locally modified
		t.Fatal(err)
	}
	ref, err := tx.Get(ctx, []byte("b:k")) // second snapshot: index b:, the one dumped at tx 1
	if err != nil {
		t.Fatal(err)
	}
	if ref.Tx() != 1 {
		t.Skipf("the snapshot of b: is not stale (read tx %d): nothing to show", ref.Tx())
	}
	hdr, err := tx.Commit(ctx)
	if !errors.Is(err, ErrTxReadConflict) {
		t.Fatalf("tx read b:k as of tx 1, tx 2 changed it, and the tx was accepted as tx %d (err %v); expected ErrTxReadConflict", c05ID(hdr), err)
	}
}

// GetWithPrefix answered by a key the transaction wrote itself is not recorded in the read-set, although the
// answer also says "no smaller key with this prefix exists": a concurrent insert of a smaller key goes unnoticed.
func TestC05GetWithPrefixAnsweredByOwnWriteIsNotValidated(t *testing.T) {
	st, err := Open(t.TempDir(), c05Opts())
	if err != nil {
		t.Fatal(err)
	}
	defer st.Close()
	ctx := context.Background()
	c05Commit(t, st, "z", "0") // tx 1

	tx, err := st.NewTx(ctx, DefaultTxOptions())
	if err != nil {
		t.Fatal(err)
	}
	if err := tx.Set([]byte("k5"), nil, []byte("own")); err != nil { // snapshot taken here
		t.Fatal(err)
	}
	c05Commit(t, st, "k1", "other") // tx 2, after the snapshot

	key, ref, err := tx.GetWithPrefix(ctx, []byte("k"), nil)
	if err != nil || string(key) != "k5" || ref.Tx() != 0 {
		t.Fatalf("unexpected answer %s %v %v", key, ref, err)
	}
	hdr, err := tx.Commit(ctx)
	if !errors.Is(err, ErrTxReadConflict) {
		t.Fatalf("GetWithPrefix(k) answered k5; at the commit point (after tx 2) the answer is k1, yet the tx was accepted as tx %d (err %v)", c05ID(hdr), err)
	}
}

// Writing into the leaf an open reader of the same transaction stands on makes the next Read panic
// (index out of range in tbtree.(*Reader).Read): the leaf is modified in place and may shrink by a split.
func TestC05SetWhileReaderOpenPanics(t *testing.T) {
	opts := c05Opts().WithMaxKeyLen(32).WithMaxTxEntries(64)
	opts.WithIndexOptions(opts.IndexOpts.WithMaxNodeSize(512))
	st, err := Open(t.TempDir(), opts)
	if err != nil {
		t.Fatal(err)
	}
	defer st.Close()
	ctx := context.Background()
	var kvs []string
	for i := 0; i < 30; i++ {
		kvs = append(kvs, fmt.Sprintf("k%02d", i), "v")
	}
	c05Commit(t, st, kvs...)

	// for several reader positions: walk into the first leaf, then make that leaf split by inserting keys into it
	attempt := func(reads int, desc bool) (panicked any) {
		tx, err := st.NewTx(ctx, DefaultTxOptions())
		if err != nil {
			t.Fatal(err)
		}
		defer tx.Cancel()
		if err := tx.Set([]byte("k00a"), nil, []byte("own")); err != nil { // the first leaf becomes private to the snapshot
			t.Fatal(err)
		}
		spec := KeyReaderSpec{Prefix: []byte("k"), DescOrder: desc}
		if desc {
			spec.SeekKey, spec.InclusiveSeek = []byte("k05"), true
		}
		rd, err := tx.NewKeyReader(spec)
		if err != nil {
			t.Fatal(err)
		}
		defer rd.Close()
		defer func() { panicked = recover() }()
		for i := 0; i < reads; i++ {
			if _, _, err := rd.Read(ctx); err != nil {
				return nil
			}
		}
		for j := 0; j < 12; j++ {
			if err := tx.Set([]byte(fmt.Sprintf("k00b%02d", j)), nil, []byte("own")); err != nil {
				t.Fatal(err)
			}
			if _, _, err := rd.Read(ctx); err != nil {
				return nil
			}
		}
		return nil
	}
	for _, desc := range []bool{false, true} {
		for reads := 1; reads <= 8; reads++ {
			if p := attempt(reads, desc); p != nil {
				t.Fatalf("Read after Set in the same transaction (reader desc=%v, %d entries read before the writes) panicked: %v", desc, reads, p)
			}
		}
	}
}

// A reader row answered by a key the transaction wrote itself is not validated either: a key inserted
// concurrently between the previous row and the own key goes unnoticed when the scan stops there.
func TestC05ReaderRowAnsweredByOwnWriteIsNotValidated(t *testing.T) {
	st, err := Open(t.TempDir(), c05Opts())
	if err != nil {
		t.Fatal(err)
	}
	defer st.Close()
	ctx := context.Background()
	c05Commit(t, st, "k0", "0") // tx 1

	tx, err := st.NewTx(ctx, DefaultTxOptions())
	if err != nil {
		t.Fatal(err)
	}
	if err := tx.Set([]byte("k5"), nil, []byte("own")); err != nil { // snapshot taken here
		t.Fatal(err)
	}
	c05Commit(t, st, "k1", "other") // tx 2, after the snapshot

	rd, err := tx.NewKeyReader(KeyReaderSpec{Prefix: []byte("k")})
	if err != nil {
		t.Fatal(err)
	}
	for _, want := range []string{"k0", "k5"} { // early termination after the own key
		k, _, err := rd.Read(ctx)
		if err != nil || string(k) != want {
			t.Fatalf("unexpected row %s %v", k, err)
		}
	}
	rd.Close()
	hdr, err := tx.Commit(ctx)
	if !errors.Is(err, ErrTxReadConflict) {
		t.Fatalf("the scan returned k0, k5; at the commit point (after tx 2) it returns k0, k1, yet the tx was accepted as tx %d (err %v)", c05ID(hdr), err)
	}
}

// The non-crashing face of the same defect: a Set of a NEW key below the position of an open descending
// reader shifts the entries of the leaf the reader stands on, and the reader silently skips one committed
// key (an ascending reader positioned after the new key returns one key twice). The transaction commits.
func TestC05SetWhileReaderOpenSkipsRow(t *testing.T) {
	st, err := Open(t.TempDir(), c05Opts())
	if err != nil {
		t.Fatal(err)
	}
	defer st.Close()
	ctx := context.Background()
	var kvs []string
	for i := 0; i < 10; i++ {
		kvs = append(kvs, fmt.Sprintf("k%02d", i), "v")
	}
	c05Commit(t, st, kvs...)
	for _, desc := range []bool{true, false} {
		tx, err := st.NewTx(ctx, DefaultTxOptions())
		if err != nil {
			t.Fatal(err)
		}
		if err := tx.Set([]byte("zz"), nil, []byte("own")); err != nil { // the leaf becomes private to the transaction's snapshot
			t.Fatal(err)
		}
		rd, err := tx.NewKeyReader(KeyReaderSpec{Prefix: []byte("k"), DescOrder: desc})
		if err != nil {
			t.Fatal(err)
		}
		var got []string
		for i := 0; i < 4; i++ {
			k, _, err := rd.Read(ctx)
			if err != nil {
				t.Fatal(err)
			}
			got = append(got, string(k))
		}
		newKey := "k01a" // below a descending reader standing at k06, above... an ascending one standing at k03 has passed it
		if err := tx.Set([]byte(newKey), nil, []byte("own")); err != nil {
			t.Fatal(err)
		}
		for {
			k, _, err := rd.Read(ctx)
			if err != nil {
				break
			}
			got = append(got, string(k))
		}
		rd.Close()
		seen := map[string]int{}
		for _, k := range got {
			seen[k]++
		}
		for i := 0; i < 10; i++ {
			k := fmt.Sprintf("k%02d", i)
			if seen[k] != 1 {
				t.Errorf("desc=%v: committed key %s returned %d times by a reader of a transaction that wrote %s meanwhile (rows: %v)", desc, k, seen[k], newKey, got)
			}
		}
		if _, err := tx.Commit(ctx); err != nil {
			t.Logf("desc=%v: commit: %v", desc, err)
		}
	}
}
