// Standalone reproductions of the C18 findings (access control).
//
// Copy into /repo/pkg/server/ as c18_repro_test.go and run (tag off):
//
//	go test -vet=off -count=1 -run TestC18 ./pkg/server/
//
// On the unpatched tree the tests FAIL (they assert what property C18 demands).
package server_test

import (
	"context"
	"net"
	"testing"

	"github.com/codenotary/immudb/pkg/api/protomodel"
	"github.com/codenotary/immudb/pkg/api/schema"
	"github.com/codenotary/immudb/pkg/server"
	"github.com/codenotary/immudb/pkg/server/servertest"
	"github.com/stretchr/testify/require"
	"google.golang.org/grpc"
	"google.golang.org/grpc/credentials/insecure"
	"google.golang.org/grpc/metadata"
	"google.golang.org/protobuf/types/known/emptypb"
)

func c18Server(t *testing.T) (*servertest.BufconnServer, schema.ImmuServiceClient) {
	opts := server.DefaultOptions().WithDir(t.TempDir()).WithMetricsServer(false).WithWebServer(false).WithPgsqlServer(false)
	bs := servertest.NewBufconnServer(opts)
	require.NoError(t, bs.Start())
	t.Cleanup(func() { bs.Stop() })
	conn, err := grpc.Dial("bufnet", grpc.WithContextDialer(func(ctx context.Context, _ string) (net.Conn, error) { return bs.Lis.Dial() }),
		grpc.WithTransportCredentials(insecure.NewCredentials()))
	require.NoError(t, err)
	t.Cleanup(func() { conn.Close() })
	return bs, schema.NewImmuServiceClient(conn)
}

// signature systemdb-written/DocumentService.CreateCollection (and the other document write RPCs):
// a sysadmin session that selected systemdb can create collections / insert documents in it.
func TestC18SystemDBNotWritableThroughDocumentAPI(t *testing.T) {
	bs, ic := c18Server(t)
	bg := context.Background()
	s, err := ic.OpenSession(bg, &schema.OpenSessionRequest{Username: []byte("immudb"), Password: []byte("immudb"), DatabaseName: "systemdb"})
	require.NoError(t, err)
	md := metadata.Pairs("sessionid", s.SessionID)
	out := metadata.NewOutgoingContext(bg, md)
	before, err := ic.CurrentState(out, &emptypb.Empty{})
	require.NoError(t, err)

	// the DocumentService handlers are methods of the same server object (servertest registers ImmuService only)
	in := metadata.NewIncomingContext(bg, md)
	_, cerr := bs.Server.Srv.CreateCollection(in, &protomodel.CreateCollectionRequest{Name: "c18", Fields: []*protomodel.Field{{Name: "name", Type: protomodel.FieldType_STRING}}})

	after, err := ic.CurrentState(out, &emptypb.Empty{})
	require.NoError(t, err)
	require.Equal(t, "systemdb", after.Db)
	require.Equal(t, before.TxId, after.TxId, "systemdb was written through the public document API")
	require.Error(t, cerr)
}

// signature systemdb-written/Commit: an interactive SQL transaction of a session bound to systemdb.
func TestC18SystemDBNotWritableThroughSQLTransaction(t *testing.T) {
	_, ic := c18Server(t)
	bg := context.Background()
	s, err := ic.OpenSession(bg, &schema.OpenSessionRequest{Username: []byte("immudb"), Password: []byte("immudb"), DatabaseName: "systemdb"})
	require.NoError(t, err)
	out := metadata.NewOutgoingContext(bg, metadata.Pairs("sessionid", s.SessionID))
	before, err := ic.CurrentState(out, &emptypb.Empty{})
	require.NoError(t, err)

	tx, err := ic.NewTx(out, &schema.NewTxRequest{Mode: schema.TxMode_ReadWrite})
	if err == nil {
		txc := metadata.NewOutgoingContext(bg, metadata.Pairs("sessionid", s.SessionID, "transactionid", tx.TransactionID))
		ic.TxSQLExec(txc, &schema.SQLExecRequest{Sql: "CREATE TABLE c18t(id INTEGER, PRIMARY KEY id); UPSERT INTO c18t(id) VALUES (1);"})
		ic.Commit(txc, &emptypb.Empty{})
	}
	after, err := ic.CurrentState(out, &emptypb.Empty{})
	require.NoError(t, err)
	require.Equal(t, before.TxId, after.TxId, "systemdb was written through NewTx/TxSQLExec/Commit")
}

// signatures refused-session-served/deactivated-2logins/* and refused-session-served/permchanged-2logins/*:
// SetActiveUser(false) / ChangePermission drop ONE login of the user from the logged-in list; a user who
// logged in twice keeps being served, with the permissions it had at login time.
func TestC18DeactivatedUserWithTwoLoginsIsRefused(t *testing.T) {
	_, ic := c18Server(t)
	bg := context.Background()
	lr, err := ic.Login(bg, &schema.LoginRequest{User: []byte("immudb"), Password: []byte("immudb")})
	require.NoError(t, err)
	sys := metadata.NewOutgoingContext(bg, metadata.Pairs("authorization", "Bearer "+lr.Token))
	_, err = ic.CreateDatabaseV2(sys, &schema.CreateDatabaseRequest{Name: "db1"})
	require.NoError(t, err)
	_, err = ic.CreateUser(sys, &schema.CreateUserRequest{User: []byte("writer"), Password: []byte("C18-Passw0rd!"), Permission: 2, Database: "db1"})
	require.NoError(t, err)

	var tok string
	for i := 0; i < 2; i++ { // two logins of the same user
		l, err := ic.Login(bg, &schema.LoginRequest{User: []byte("writer"), Password: []byte("C18-Passw0rd!")})
		require.NoError(t, err)
		tok = l.Token
	}
	u, err := ic.UseDatabase(metadata.NewOutgoingContext(bg, metadata.Pairs("authorization", "Bearer "+tok)), &schema.Database{DatabaseName: "db1"})
	require.NoError(t, err)
	w := metadata.NewOutgoingContext(bg, metadata.Pairs("authorization", "Bearer "+u.Token))
	_, err = ic.Set(w, &schema.SetRequest{KVs: []*schema.KeyValue{{Key: []byte("k"), Value: []byte("v1")}}})
	require.NoError(t, err)

	_, err = ic.SetActiveUser(sys, &schema.SetActiveUserRequest{Username: "writer", Active: false})
	require.NoError(t, err)

	_, err = ic.Set(w, &schema.SetRequest{KVs: []*schema.KeyValue{{Key: []byte("k"), Value: []byte("v2")}}})
	require.Error(t, err, "a deactivated user is still allowed to write")
}

func TestC18RevokedUserWithTwoLoginsIsRefused(t *testing.T) {
	_, ic := c18Server(t)
	bg := context.Background()
	lr, err := ic.Login(bg, &schema.LoginRequest{User: []byte("immudb"), Password: []byte("immudb")})
	require.NoError(t, err)
	sys := metadata.NewOutgoingContext(bg, metadata.Pairs("authorization", "Bearer "+lr.Token))
	_, err = ic.CreateDatabaseV2(sys, &schema.CreateDatabaseRequest{Name: "db1"})
	require.NoError(t, err)
	_, err = ic.CreateUser(sys, &schema.CreateUserRequest{User: []byte("writer"), Password: []byte("C18-Passw0rd!"), Permission: 2, Database: "db1"})
	require.NoError(t, err)

	var tok string
	for i := 0; i < 2; i++ {
		l, err := ic.Login(bg, &schema.LoginRequest{User: []byte("writer"), Password: []byte("C18-Passw0rd!")})
		require.NoError(t, err)
		tok = l.Token
	}
	u, err := ic.UseDatabase(metadata.NewOutgoingContext(bg, metadata.Pairs("authorization", "Bearer "+tok)), &schema.Database{DatabaseName: "db1"})
	require.NoError(t, err)
	w := metadata.NewOutgoingContext(bg, metadata.Pairs("authorization", "Bearer "+u.Token))

	_, err = ic.ChangePermission(sys, &schema.ChangePermissionRequest{Action: schema.PermissionAction_REVOKE, Username: "writer", Database: "db1", Permission: 2})
	require.NoError(t, err)

	_, err = ic.Set(w, &schema.SetRequest{KVs: []*schema.KeyValue{{Key: []byte("k"), Value: []byte("v2")}}})
	require.Error(t, err, "a user whose permission was revoked is still allowed to write")
}

// signature unauthorized-change/txflow:tx-on-A-then-use-B/R-on-A: NewTx does no permission check and the
// transaction stays bound to the database selected at NewTx, while the SQL engine checks every statement
// against the database the session has selected at THAT time (multidbHandler.GetLoggedUser ->
// getDBFromCtx). A user that is read-only on db A and read-write on db B opens a read-write transaction on A,
// selects B, and its INSERT / CREATE TABLE are committed into A.
// Fix: /verif/proposed/C18-newtx-readwrite-permission.patch
func TestC18ReadOnlyUserWritesThroughSessionTransaction(t *testing.T) {
	_, ic := c18Server(t)
	bg := context.Background()
	ss, err := ic.OpenSession(bg, &schema.OpenSessionRequest{Username: []byte("immudb"), Password: []byte("immudb"), DatabaseName: "defaultdb"})
	require.NoError(t, err)
	sys := metadata.NewOutgoingContext(bg, metadata.Pairs("sessionid", ss.SessionID))
	for _, db := range []string{"dba", "dbb"} {
		_, err = ic.CreateDatabaseV2(sys, &schema.CreateDatabaseRequest{Name: db})
		require.NoError(t, err)
	}
	// read-only on dba, read-write on dbb (ChangePermission replaces all SQL privileges by those of the
	// database it is called for, so SELECT on dba is granted again afterwards)
	_, err = ic.CreateUser(sys, &schema.CreateUserRequest{User: []byte("reader"), Password: []byte("C18-Passw0rd!"), Permission: 1, Database: "dba"})
	require.NoError(t, err)
	_, err = ic.ChangePermission(sys, &schema.ChangePermissionRequest{Action: schema.PermissionAction_GRANT, Username: "reader", Database: "dbb", Permission: 2})
	require.NoError(t, err)
	_, err = ic.ChangeSQLPrivileges(sys, &schema.ChangeSQLPrivilegesRequest{Action: schema.PermissionAction_GRANT, Username: "reader", Database: "dba", Privileges: []string{"SELECT"}})
	require.NoError(t, err)

	sa, err := ic.OpenSession(bg, &schema.OpenSessionRequest{Username: []byte("immudb"), Password: []byte("immudb"), DatabaseName: "dba"})
	require.NoError(t, err)
	sysA := metadata.NewOutgoingContext(bg, metadata.Pairs("sessionid", sa.SessionID))
	before, err := ic.CurrentState(sysA, &emptypb.Empty{})
	require.NoError(t, err)

	us, err := ic.OpenSession(bg, &schema.OpenSessionRequest{Username: []byte("reader"), Password: []byte("C18-Passw0rd!"), DatabaseName: "dba"})
	require.NoError(t, err)
	u := metadata.NewOutgoingContext(bg, metadata.Pairs("sessionid", us.SessionID))
	tx, err := ic.NewTx(u, &schema.NewTxRequest{Mode: schema.TxMode_ReadWrite})
	if err == nil {
		_, err = ic.UseDatabase(u, &schema.Database{DatabaseName: "dbb"})
		require.NoError(t, err)
		utx := metadata.NewOutgoingContext(bg, metadata.Pairs("sessionid", us.SessionID, "transactionid", tx.TransactionID))
		ic.TxSQLExec(utx, &schema.SQLExecRequest{Sql: "CREATE TABLE leaked(id INTEGER, PRIMARY KEY id); UPSERT INTO leaked(id) VALUES (1);"})
		ic.Commit(utx, &emptypb.Empty{})
	}

	after, err := ic.CurrentState(sysA, &emptypb.Empty{})
	require.NoError(t, err)
	require.Equal(t, "dba", after.Db)
	require.Equal(t, before.TxId, after.TxId, "a user with read-only permission on dba committed a transaction into dba")
}
