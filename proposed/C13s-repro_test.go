// Standalone reproductions of the C13 findings in the PostgreSQL wire front-end (found by mon/c13s).
//
// Copy into /repo/pkg/pgsql/server/ as c13s_repro_test.go and run (tag off):
//
//	go test -vet=off -count=1 -run TestC13s ./pkg/pgsql/server/
//
// On the unpatched tree both tests FAIL (they assert what property C13 demands); with
// proposed/C13s-pgwire-fixes-combined.patch they pass.
package server_test

import (
	"context"
	"fmt"
	"testing"

	"github.com/codenotary/immudb/pkg/server"
	"github.com/jackc/pgx/v5/pgconn"
	"github.com/stretchr/testify/require"
)

func c13sServer(t *testing.T) *pgconn.PgConn {
	options := server.DefaultOptions().WithDir(t.TempDir()).WithAddress("127.0.0.1").WithPort(0).
		WithPgsqlServer(true).WithPgsqlServerPort(0).WithMetricsServer(false).WithWebServer(false)
	srv := server.DefaultServer().WithOptions(options).(*server.ImmuServer)
	require.NoError(t, srv.Initialize())
	go srv.Start()
	t.Cleanup(func() { srv.Stop() })
	c, err := pgconn.Connect(context.Background(), fmt.Sprintf("host=127.0.0.1 port=%d sslmode=disable user=immudb dbname=defaultdb password=immudb", srv.PgsqlSrv.GetPort()))
	require.NoError(t, err)
	t.Cleanup(func() { c.Close(context.Background()) })
	return c
}

func c13sExec(c *pgconn.PgConn, q string) (tag string, rows int, err error) {
	rs, err := c.Exec(context.Background(), q).ReadAll()
	if len(rs) > 0 {
		tag, rows = rs[len(rs)-1].CommandTag.String(), len(rs[len(rs)-1].Rows)
	}
	return
}

// signature pgwire/statement-after-error-in-block-survives-rollback:
// BEGIN; <statement fails>; INSERT …; ROLLBACK leaves the INSERT committed. The failed statement makes the engine
// cancel the transaction, the session forgets it (s.tx = nil) but keeps reporting status 'T'; the next statement
// therefore runs in autocommit mode, and the final ROLLBACK only answers "no ongoing transaction".
func TestC13sStatementAfterErrorInBlockIsNotCommitted(t *testing.T) {
	c := c13sServer(t)
	_, _, err := c13sExec(c, "CREATE TABLE c13s_t(id INTEGER, v INTEGER, PRIMARY KEY id)")
	require.NoError(t, err)
	_, _, err = c13sExec(c, "INSERT INTO c13s_t(id, v) VALUES (1, 10)")
	require.NoError(t, err)

	_, _, err = c13sExec(c, "BEGIN")
	require.NoError(t, err)
	_, _, err = c13sExec(c, "INSERT INTO c13s_t(id, v) VALUES (1, 11)") // duplicate key
	require.Error(t, err)
	require.NotEqual(t, byte('I'), c.TxStatus(), "the block is still open for the client")
	_, _, _ = c13sExec(c, "INSERT INTO c13s_t(id, v) VALUES (2, 20)") // PostgreSQL refuses it (25P02); accepting it is fine only if ROLLBACK undoes it
	_, _, _ = c13sExec(c, "ROLLBACK")

	_, n, err := c13sExec(c, "SELECT id FROM c13s_t WHERE id = 2")
	require.NoError(t, err)
	require.Zero(t, n, "a statement sent between BEGIN and ROLLBACK is visible after the ROLLBACK")
}

// signature pgwire/command-tag-affected-rows-mismatch/{INSERT,UPDATE,DELETE}:
// the CommandComplete tag always says 0 rows (commandTagFor derives it from the SQL text alone).
func TestC13sCommandTagReportsAffectedRows(t *testing.T) {
	c := c13sServer(t)
	_, _, err := c13sExec(c, "CREATE TABLE c13s_u(id INTEGER, v INTEGER, PRIMARY KEY id)")
	require.NoError(t, err)
	tag, _, err := c13sExec(c, "INSERT INTO c13s_u(id, v) VALUES (1, 10), (2, 20), (3, 30)")
	require.NoError(t, err)
	require.Equal(t, "INSERT 0 3", tag)
	tag, _, err = c13sExec(c, "UPDATE c13s_u SET v = v + 1 WHERE id >= 2")
	require.NoError(t, err)
	require.Equal(t, "UPDATE 2", tag)
	_, _, err = c13sExec(c, "BEGIN")
	require.NoError(t, err)
	tag, _, err = c13sExec(c, "UPDATE c13s_u SET v = v + 1 WHERE id >= 1")
	require.NoError(t, err)
	require.Equal(t, "UPDATE 3", tag)
	tag, _, err = c13sExec(c, "DELETE FROM c13s_u WHERE id = 3")
	require.NoError(t, err)
	require.Equal(t, "DELETE 1", tag, "the count is per statement, not cumulative over the block")
	_, _, err = c13sExec(c, "COMMIT")
	require.NoError(t, err)
	tag, _, err = c13sExec(c, "DELETE FROM c13s_u WHERE id > 100")
	require.NoError(t, err)
	require.Equal(t, "DELETE 0", tag)
}
