//go:build verif

// Reproduction that needs the verifhook points to hold the indexer back (build tag verif):
//
//	cp C05-repro_verif_test.go <repo>/embedded/store/zz_c05_repro_verif_test.go
//	go test -tags verif -vet=off -count=1 -run TestC05 ./embedded/store/
package store

import (
	"context"
	"errors"
	"sync"
	"testing"
	"time"

	"github.com/codenotary/immudb/embedded/verifhook"
)

type c05Gate struct {
	mu        sync.Mutex
	blocked   bool          // hold the indexer after it read a tx
	ch        chan struct{} // closed at the end of the test
	armed     bool          // hold the compaction when it creates its first file
	dumping   chan struct{} // closed when the compaction is held
	continue_ chan struct{}
}

func (g *c05Gate) Point(site string) {
	if site != "indexer.indexSince.afterReadTx" {
		return
	}
	g.mu.Lock()
	b, ch := g.blocked, g.ch
	g.mu.Unlock()
	if b {
		<-ch
	}
}
func (g *c05Gate) Fault(string) error { return nil }
func (g *c05Gate) FS(op verifhook.FSOp, path string, _ int64, _ []byte, _ string) {
	g.mu.Lock()
	hold := g.armed && op == verifhook.FSOpCreate
	if hold {
		g.armed = false
	}
	g.mu.Unlock()
	if hold {
		close(g.dumping)
		<-g.continue_
	}
}
func (g *c05Gate) Note(string, uint64, uint64, [32]byte) {}

// After a compaction the index restarts from the compacted snapshot, i.e. behind transactions it had already
// reported as indexed; its waiting hub still says "indexed", so precommit validates the read-set of a
// read-write transaction against that older index and accepts a transaction that read stale data.
func TestC05ValidationAgainstIndexRestartedByCompaction(t *testing.T) {
	g := &c05Gate{ch: make(chan struct{}), dumping: make(chan struct{}), continue_: make(chan struct{})}
	verifhook.SetHandler(g)
	defer verifhook.SetHandler(nil)

	opts := c05Opts()
	opts.WithIndexOptions(opts.IndexOpts.WithCompactionThld(1))
	st, err := Open(t.TempDir(), opts)
	if err != nil {
		t.Fatal(err)
	}
	defer st.Close()
	defer close(g.ch)
	ctx := context.Background()
	c05Commit(t, st, "k", "v1") // tx 1
	if err := st.FlushIndexes(0, false); err != nil {
		t.Fatal(err)
	}
	g.mu.Lock()
	g.armed = true
	g.mu.Unlock()
	done := make(chan error, 1)
	go func() { done <- st.CompactIndexes() }() // dumps the index as of tx 1 ...
	select {
	case <-g.dumping: // ... and is held while it creates the files of the compacted index
	case err := <-done:
		t.Skipf("compaction did not take place: %v", err)
	case <-time.After(20 * time.Second):
		t.Skip("compaction did not start")
	}
	c05Commit(t, st, "k", "v2") // tx 2: indexed in the live tree while the dump is going on
	g.mu.Lock()
	g.blocked = true // from now on the indexer stops after reading a tx: the restarted index stays at tx 1
	g.mu.Unlock()
	close(g.continue_)
	if err := <-done; err != nil {
		t.Skipf("compaction did not take place: %v", err)
	}

	tx, err := st.NewTx(ctx, &TxOptions{Mode: ReadWriteTx})
	if err != nil {
		t.Fatal(err)
	}
	ref, err := tx.Get(ctx, []byte("k"))
	if err != nil {
		t.Fatal(err)
	}
	if ref.Tx() != 1 {
		t.Skipf("the index did not go back (read tx %d)", ref.Tx())
	}
	if err := tx.Set([]byte("x"), nil, []byte("own")); err != nil {
		t.Fatal(err)
	}
	hdr, err := tx.AsyncCommit(ctx)
	if !errors.Is(err, ErrTxReadConflict) {
		t.Fatalf("tx read k as of tx 1 although tx 2 had changed it and was accepted as tx %d (err %v); expected ErrTxReadConflict", c05ID(hdr), err)
	}
}
