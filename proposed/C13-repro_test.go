package sql

// Minimal reproductions for the two C13 findings (copy into embedded/sql and run
//   go test -vet=off -count=1 -run 'TestC13' ./embedded/sql/ ).
// Both tests FAIL on the tree they were written against; they describe what the
// property requires.

import (
	"context"
	"testing"

	"github.com/codenotary/immudb/embedded/store"
	"github.com/stretchr/testify/require"
)

func c13Engine(t *testing.T) *Engine {
	st, err := store.Open(t.TempDir(), store.DefaultOptions().WithMultiIndexing(true))
	require.NoError(t, err)
	t.Cleanup(func() { st.Close() })
	e, err := NewEngine(st, DefaultOptions().WithPrefix(sqlPrefix))
	require.NoError(t, err)
	return e
}

func c13Ints(t *testing.T, e *Engine, tx *SQLTx, q string) []int64 {
	rows, err := e.queryAll(context.Background(), tx, q, nil)
	require.NoError(t, err)
	var out []int64
	for _, r := range rows {
		out = append(out, r.ValuesByPosition[0].RawValue().(int64))
	}
	return out
}

// sqltx/rollback-to-savepoint-keeps-writes
func TestC13RollbackToSavepointUndoesWrites(t *testing.T) {
	e := c13Engine(t)
	ctx := context.Background()
	_, _, err := e.Exec(ctx, nil, "CREATE TABLE t (id INTEGER, PRIMARY KEY id)", nil)
	require.NoError(t, err)

	tx, _, err := e.Exec(ctx, nil, "BEGIN TRANSACTION; INSERT INTO t(id) VALUES (1); SAVEPOINT s1; INSERT INTO t(id) VALUES (2); ROLLBACK TO SAVEPOINT s1", nil)
	require.NoError(t, err)
	require.Equal(t, 1, tx.UpdatedRows()) // the counter is restored ...
	require.Equal(t, []int64{1}, c13Ints(t, e, tx, "SELECT id FROM t"), "... but row 2 is still visible inside the transaction")
	_, _, err = e.Exec(ctx, tx, "COMMIT", nil)
	require.NoError(t, err)
	require.Equal(t, []int64{1}, c13Ints(t, e, nil, "SELECT id FROM t"), "row 2 was committed")
}

// sqltx/snapshot-not-fixed-across-indexes
func TestC13SnapshotFixedAcrossTables(t *testing.T) {
	e := c13Engine(t)
	ctx := context.Background()
	_, _, err := e.Exec(ctx, nil, "CREATE TABLE a (id INTEGER, PRIMARY KEY id); CREATE TABLE b (id INTEGER, PRIMARY KEY id)", nil)
	require.NoError(t, err)
	_, _, err = e.Exec(ctx, nil, "BEGIN TRANSACTION; INSERT INTO a(id) VALUES (1); INSERT INTO b(id) VALUES (1); COMMIT", nil)
	require.NoError(t, err)

	ro, err := e.NewTx(ctx, DefaultTxOptions().WithReadOnly(true).WithExplicitClose(true))
	require.NoError(t, err)
	defer ro.Cancel()
	require.Equal(t, []int64{1}, c13Ints(t, e, ro, "SELECT COUNT(*) FROM a"))

	// another session commits one transaction that adds a row to BOTH tables
	_, _, err = e.Exec(ctx, nil, "BEGIN TRANSACTION; INSERT INTO a(id) VALUES (2); INSERT INTO b(id) VALUES (2); COMMIT", nil)
	require.NoError(t, err)

	require.Equal(t, []int64{1}, c13Ints(t, e, ro, "SELECT COUNT(*) FROM a"))
	require.Equal(t, []int64{1}, c13Ints(t, e, ro, "SELECT COUNT(*) FROM b"), "the read-only transaction sees table a before and table b after the other commit")
}

// sqltx/own-delete-invisible-to-insert
func TestC13InsertAfterOwnDelete(t *testing.T) {
	e := c13Engine(t)
	ctx := context.Background()
	_, _, err := e.Exec(ctx, nil, "CREATE TABLE t (id INTEGER, PRIMARY KEY id)", nil)
	require.NoError(t, err)
	_, _, err = e.Exec(ctx, nil, "INSERT INTO t(id) VALUES (1)", nil)
	require.NoError(t, err)
	tx, _, err := e.Exec(ctx, nil, "BEGIN TRANSACTION; DELETE FROM t WHERE id = 1", nil)
	require.NoError(t, err)
	require.Empty(t, c13Ints(t, e, tx, "SELECT id FROM t"))
	_, _, err = e.Exec(ctx, tx, "INSERT INTO t(id) VALUES (1)", nil)
	require.NoError(t, err, "the row was deleted by this very transaction")
}

// sqltx/own-row-reindex/transiency-error
func TestC13UpdateIndexedColumnOfOwnInsert(t *testing.T) {
	e := c13Engine(t)
	ctx := context.Background()
	_, _, err := e.Exec(ctx, nil, "CREATE TABLE t (id INTEGER, n INTEGER, PRIMARY KEY id); CREATE INDEX ON t(n)", nil)
	require.NoError(t, err)
	_, _, err = e.Exec(ctx, nil, "BEGIN TRANSACTION; INSERT INTO t(id, n) VALUES (1, 1); UPDATE t SET n = 2 WHERE id = 1; COMMIT", nil)
	require.NoError(t, err)
}

// sqltx/own-writes-invisible-through-index
func TestC13OwnWritesThroughIndex(t *testing.T) {
	e := c13Engine(t)
	ctx := context.Background()
	_, _, err := e.Exec(ctx, nil, "CREATE TABLE g (id INTEGER AUTO_INCREMENT, n INTEGER, s VARCHAR[64], PRIMARY KEY id); CREATE INDEX ON g(n)", nil)
	require.NoError(t, err)
	_, _, err = e.Exec(ctx, nil, "INSERT INTO g(n, s) VALUES (6, 'x'), (6, 'y'), (6, 'z')", nil)
	require.NoError(t, err)
	tx, _, err := e.Exec(ctx, nil, "BEGIN TRANSACTION; UPDATE g SET n = 7", nil)
	require.NoError(t, err)
	require.Equal(t, 3, tx.UpdatedRows())
	require.Equal(t, []int64{1, 2, 3}, c13Ints(t, e, tx, "SELECT id FROM g WHERE n = 7 ORDER BY id")) // primary index: fine
	require.Equal(t, []int64{1, 2, 3}, c13Ints(t, e, tx, "SELECT id FROM g USE INDEX ON (n) WHERE n = 7"), "through the index on n only the last updated row is visible inside the transaction")
}

// sqltx/update-revisits-rows-moved-in-scanned-index
func TestC13UpdateThroughIndexItModifies(t *testing.T) {
	e := c13Engine(t)
	ctx := context.Background()
	_, _, err := e.Exec(ctx, nil, "CREATE TABLE t (id INTEGER, p INTEGER, q INTEGER, PRIMARY KEY id); CREATE INDEX ON t(p, q)", nil)
	require.NoError(t, err)
	_, _, err = e.Exec(ctx, nil, "INSERT INTO t(id, p, q) VALUES (1, 1, 1), (2, 1, 2), (3, 2, 1)", nil)
	require.NoError(t, err)
	// rows 1 and 2 have p = 1; setting q = 5 moves their index entries ahead of the scan
	// position. The scan meets them again once the transaction's private copy of the index
	// has been written to before (here by the INSERT).
	tx, _, err := e.Exec(ctx, nil, "BEGIN TRANSACTION; INSERT INTO t(id, p, q) VALUES (4, 3, 3)", nil)
	require.NoError(t, err)
	tx, _, err = e.Exec(ctx, tx, "UPDATE t SET q = 5 WHERE p = 1", nil)
	require.NoError(t, err)
	require.Equal(t, 1+2, tx.UpdatedRows(), "one row inserted, two rows have p = 1; rows moved ahead in the scanned index were updated and counted again")
}
