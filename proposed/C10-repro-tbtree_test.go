// Standalone reproductions of the defects found by the C10 monitor.
// Drop into /repo/embedded/tbtree/ (package tbtree_test) and run
//
//	go test -vet=off -count=1 -run 'TestC10' ./embedded/tbtree/
//
// Each test FAILS on the unchanged tree and passes with /verif/proposed/C10-*.patch applied.
package tbtree_test

import (
	"testing"

	"github.com/codenotary/immudb/embedded/tbtree"
)

// GetBetween / Reader.ReadBetween follow the on-disk history chain of a key for
// hCount *chunks* although hCount counts *versions*: once the key's own chunks
// are exhausted the chain pointer is 0 and the chunk stored at offset 0 of the
// history log - which belongs to another key - is searched as well.
func TestC10GetBetweenReadsHistoryOfAnotherKey(t *testing.T) {
	tree, err := tbtree.Open(t.TempDir(), tbtree.DefaultOptions())
	if err != nil {
		t.Fatal(err)
	}
	defer tree.Close()
	ins := func(k, v string) {
		if err := tree.Insert([]byte(k), []byte(v)); err != nil {
			t.Fatal(err)
		}
	}
	ins("J", "j1")                             // ts 1
	ins("J", "j2")                             // ts 2
	if _, _, err := tree.Flush(); err != nil { // J's older version goes to offset 0 of the history log
		t.Fatal(err)
	}
	ins("K", "k3")                             // ts 3
	ins("K", "k4")                             // ts 4
	ins("K", "k5")                             // ts 5
	if _, _, err := tree.Flush(); err != nil { // one chunk with two versions of K: hCount(K) = 2
		t.Fatal(err)
	}
	v, ts, hc, err := tree.GetBetween([]byte("K"), 1, 2) // K has no version in [1,2]
	if err == nil {
		t.Fatalf("GetBetween(K,1,2) = %q ts=%d hc=%d, want ErrKeyNotFound (K was first written at ts 3)", v, ts, hc)
	}
}

// Reader.Reset leaves the key whose versions are being listed (leafValue, hoff)
// in place: with IncludeHistory the reader first delivers the remaining
// versions of that key and only then restarts from the seek position.
func TestC10ReaderResetInsideKeyHistory(t *testing.T) {
	tree, err := tbtree.Open(t.TempDir(), tbtree.DefaultOptions())
	if err != nil {
		t.Fatal(err)
	}
	defer tree.Close()
	for _, v := range []string{"a1", "a2", "a3"} {
		if err := tree.Insert([]byte("a"), []byte(v)); err != nil {
			t.Fatal(err)
		}
	}
	snap, err := tree.Snapshot()
	if err != nil {
		t.Fatal(err)
	}
	defer snap.Close()
	rd, err := snap.NewReader(tbtree.ReaderSpec{IncludeHistory: true})
	if err != nil {
		t.Fatal(err)
	}
	defer rd.Close()
	_, v, _, _, err := rd.Read()
	if err != nil || string(v) != "a1" {
		t.Fatalf("first read: %q %v", v, err)
	}
	if err := rd.Reset(); err != nil {
		t.Fatal(err)
	}
	_, v, ts, hc, err := rd.Read()
	if err != nil || string(v) != "a1" {
		t.Fatalf("first read after Reset = %q ts=%d hc=%d err=%v, want the first entry again (a1 ts=1 hc=1)", v, ts, hc, err)
	}
}

// A reader opened on a snapshot keeps private copies of the nodes on its path
// (always so when the node cache cannot hold them). When the snapshot's root is
// still the tree's current root, a flush with cleanup rewrites that root *in
// place*, so snap.root.minOffset() - which is what protects open snapshots from
// DiscardUpto - moves forward with it and the files holding the nodes the reader
// still points to are removed: the reader fails with EOF half way.
func TestC10CleanupDiscardsNodesOfOpenSnapshotReader(t *testing.T) {
	opts := tbtree.DefaultOptions().
		WithMaxKeySize(8).WithMaxValueSize(8).WithMaxNodeSize(80).
		WithCacheSize(1). // nothing fits: every node access loads a private copy
		WithFileSize(256)
	tree, err := tbtree.Open(t.TempDir(), opts)
	if err != nil {
		t.Fatal(err)
	}
	defer tree.Close()
	const n = 200
	for i := 0; i < n; i++ {
		if err := tree.Insert([]byte{byte(i >> 4), byte(i)}, []byte{1}); err != nil {
			t.Fatal(err)
		}
	}
	snap, err := tree.Snapshot() // flushes: the snapshot root is the tree's root
	if err != nil {
		t.Fatal(err)
	}
	defer snap.Close()
	rd, err := snap.NewReader(tbtree.ReaderSpec{})
	if err != nil {
		t.Fatal(err)
	}
	defer rd.Close()
	if _, _, _, _, err := rd.Read(); err != nil {
		t.Fatal(err)
	}
	if _, _, err := tree.FlushWith(100, true); err != nil { // cleanup + sync: old node files are discarded
		t.Fatal(err)
	}
	for i := 1; i < n; i++ {
		if _, _, _, _, err := rd.Read(); err != nil {
			t.Fatalf("entry %d of %d read through a snapshot that is still open: %v", i, n, err)
		}
	}
}

// A BulkInsert refused while inserting (same key twice, second time with an
// older timestamp) must leave the tree as it was. (a) it drops the accepted,
// not yet flushed insert of "b"; (b) after a restart it replaces the whole tree
// by an empty leaf (lastSnapRoot is nil after Open). (b) passes with
// C10-refused-insert-after-reopen-empties-tree.patch; (a) stays an open finding
// (TestMultiTimedBulkInsertion asserts the loss).
func testC10RefusedBulk(t *testing.T, reopen bool) {
	dir := t.TempDir()
	opts := tbtree.DefaultOptions().WithFlushThld(1000)
	tree, err := tbtree.Open(dir, opts)
	if err != nil {
		t.Fatal(err)
	}
	defer func() { tree.Close() }()
	if err := tree.Insert([]byte("a"), []byte("v1")); err != nil {
		t.Fatal(err)
	}
	if _, _, err := tree.Flush(); err != nil {
		t.Fatal(err)
	}
	if reopen {
		if err := tree.Close(); err != nil {
			t.Fatal(err)
		}
		if tree, err = tbtree.Open(dir, opts); err != nil {
			t.Fatal(err)
		}
	}
	if err := tree.Insert([]byte("b"), []byte("v2")); err != nil { // accepted, not flushed
		t.Fatal(err)
	}
	ts := tree.Ts()
	err = tree.BulkInsert([]*tbtree.KVT{{K: []byte("c"), V: []byte("x"), T: ts + 5}, {K: []byte("c"), V: []byte("y"), T: ts + 4}})
	if err == nil {
		t.Fatal("the bulk must be refused")
	}
	if _, _, _, err := tree.Get([]byte("a")); err != nil {
		t.Errorf("(b) Get(a) after the refused bulk: %v (flushed before the restart)", err)
	}
	if _, _, _, err := tree.Get([]byte("b")); err != nil {
		t.Errorf("(a) Get(b) after the refused bulk: %v (its insertion was accepted)", err)
	}
	if tree.Ts() != ts {
		t.Errorf("Ts() = %d after the refused bulk, was %d", tree.Ts(), ts)
	}
}

func TestC10RefusedBulkInsertLosesAcceptedInserts(t *testing.T)   { testC10RefusedBulk(t, false) }
func TestC10RefusedBulkInsertAfterReopenEmptiesTree(t *testing.T) { testC10RefusedBulk(t, true) }
