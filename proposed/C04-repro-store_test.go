// Standalone reproductions of the defects found by the C04 monitor.
// Drop into /repo/embedded/store/ (package store_test) and run
//   go test -vet=off -count=1 -run 'TestC04' ./embedded/store/
// On the tree before the fixes every test FAILS (TestC04InjectiveIndexBulkSlotsOverflow by a panic in the
// indexing goroutine, so run it alone); TestC04CompactionStaleRead fails up to commit 3daf8b3^ and passes
// from 3daf8b3 on. With /verif/proposed/C04-store-fixes-combined.patch applied all pass.
package store_test

import (
	"context"
	"fmt"
	"os"
	"path/filepath"
	"sync/atomic"
	"testing"
	"time"

	"github.com/codenotary/immudb/embedded/store"
)

func c04Opts(bulk, maxTxEntries int) *store.Options {
	o := store.DefaultOptions().WithSynced(false).WithMaxTxEntries(maxTxEntries).WithMaxKeyLen(32).WithMaxConcurrency(2)
	return o.WithIndexOptions(o.IndexOpts.WithMaxBulkSize(bulk).WithCompactionThld(1))
}

func c04Commit(t *testing.T, st *store.ImmuStore, md *store.KVMetadata, kvs ...string) uint64 {
	tx, err := st.NewWriteOnlyTx(context.Background())
	if err != nil {
		t.Fatal(err)
	}
	for i := 0; i < len(kvs); i += 2 {
		if err := tx.Set([]byte(kvs[i]), md, []byte(kvs[i+1])); err != nil {
			t.Fatal(err)
		}
	}
	hdr, err := tx.AsyncCommit(context.Background())
	if err != nil {
		t.Fatal(err)
	}
	return hdr.ID
}

// signature index/bulk>1/key-missing-or-aliased
//
// indexSince keeps `e.key()` - a slice of idx.tx's key buffer - in the bulk and then reads the next
// tx of the bulk into the same buffer: with MaxBulkSize > 1 (a database setting) earlier keys of a
// bulk turn into later ones. Here the index is rebuilt from 40 committed single-key txs.
func TestC04BulkIndexingLosesKeys(t *testing.T) {
	dir := t.TempDir()
	st, err := store.Open(dir, c04Opts(8, 4))
	if err != nil {
		t.Fatal(err)
	}
	for i := 0; i < 40; i++ {
		c04Commit(t, st, nil, fmt.Sprintf("key%02d", i), fmt.Sprintf("value%02d", i))
	}
	if err := st.Close(); err != nil {
		t.Fatal(err)
	}
	// drop the index: it is rebuilt at open, in bulks of 8 already committed txs
	if err := os.RemoveAll(filepath.Join(dir, "index")); err != nil {
		t.Fatal(err)
	}
	st, err = store.Open(dir, c04Opts(8, 4))
	if err != nil {
		t.Fatal(err)
	}
	defer st.Close()
	if err := st.WaitForIndexingUpto(context.Background(), 40); err != nil {
		t.Fatal(err)
	}
	missing := 0
	for i := 0; i < 40; i++ {
		ref, err := st.Get(context.Background(), []byte(fmt.Sprintf("key%02d", i)))
		if err != nil {
			missing++
			continue
		}
		if ref.Tx() != uint64(i+1) {
			t.Errorf("key%02d: indexed at tx %d, written by tx %d", i, ref.Tx(), i+1)
		}
	}
	if missing > 0 {
		t.Fatalf("%d of 40 committed keys are not found after WaitForIndexingUpto(40)", missing)
	}
}

func c04PrimaryMapper(k, v []byte) ([]byte, error) { return append([]byte("p/"), k[2:]...), nil }
func c04SecondaryMapper(sk, v []byte) ([]byte, error) {
	return append(append([]byte("s/"), v[0], '/'), sk[2:]...), nil
}

// rows "r/<id>", a primary index "p/<id>" and a secondary injective index "s/<first value byte>/<id>"
func c04InitSQLLikeIndexes(t *testing.T, st *store.ImmuStore) {
	for _, spec := range []*store.IndexSpec{
		{SourcePrefix: []byte("r/"), TargetPrefix: []byte("p/"), TargetEntryMapper: c04PrimaryMapper},
		{SourcePrefix: []byte("r/"), SourceEntryMapper: c04PrimaryMapper, TargetPrefix: []byte("s/"), TargetEntryMapper: c04SecondaryMapper, InjectiveMapping: true},
	} {
		if err := st.InitIndexing(spec); err != nil {
			t.Fatal(err)
		}
	}
}

// signature index/injective-mapping/bulk>1/stale-target-not-deleted-or-wrong-target-deleted
//
// In the InjectiveMapping branch the i-th tx of a bulk is txID+i, but the previous version of the
// source key is looked up as of txID-1: an update whose predecessor lies inside the same bulk does
// not delete the stale target key.
func TestC04InjectiveIndexBulkKeepsStaleTarget(t *testing.T) {
	st, err := store.Open(t.TempDir(), c04Opts(8, 4).WithMultiIndexing(true))
	if err != nil {
		t.Fatal(err)
	}
	defer st.Close()
	c04Commit(t, st, nil, "r/other", "x") // tx 1
	c04Commit(t, st, nil, "r/row", "A")   // tx 2: secondary key s/A/row
	c04Commit(t, st, nil, "r/row", "B")   // tx 3: moves to s/B/row, s/A/row must be deleted
	// the indexes are created after the commits: all three txs form one bulk
	c04InitSQLLikeIndexes(t, st)
	if err := st.WaitForIndexingUpto(context.Background(), 3); err != nil {
		t.Fatal(err)
	}
	if _, err := st.Get(context.Background(), []byte("s/B/row")); err != nil {
		t.Fatalf("s/B/row: %v", err)
	}
	if ref, err := st.Get(context.Background(), []byte("s/A/row")); err == nil {
		t.Fatalf("the stale secondary entry s/A/row is still live (tx %d) after the row moved to s/B/row", ref.Tx())
	}
}

// signature crash/embedded/store.(*indexer).indexSince/index-out-of-range
//
// idx._kvs has maxTxEntries*MaxBulkSize slots, but an injective index emits two entries per updated
// row (new target + delete marker of the stale one): a tx updating more than half of MaxTxEntries
// rows panics the indexing goroutine (and the process).
func TestC04InjectiveIndexBulkSlotsOverflow(t *testing.T) {
	st, err := store.Open(t.TempDir(), c04Opts(1, 4).WithMultiIndexing(true))
	if err != nil {
		t.Fatal(err)
	}
	defer st.Close()
	c04InitSQLLikeIndexes(t, st)
	c04Commit(t, st, nil, "r/1", "A", "r/2", "A", "r/3", "A", "r/4", "A")
	c04Commit(t, st, nil, "r/1", "B", "r/2", "B", "r/3", "B", "r/4", "B")
	ctx, cancel := context.WithTimeout(context.Background(), 10*time.Second)
	defer cancel()
	if err := st.WaitForIndexingUpto(ctx, 2); err != nil {
		t.Fatal(err)
	}
	for i := 1; i <= 4; i++ {
		if _, err := st.Get(context.Background(), []byte(fmt.Sprintf("s/B/%d", i))); err != nil {
			t.Fatalf("s/B/%d: %v", i, err)
		}
	}
}

// signature index/injective-mapping/prev-entry-with-metadata/stale-target-not-deleted
//
// The delete marker of the stale target reuses the previous entry's metadata object, which is
// read-only when it comes from the tx log: AsDeleted fails (error ignored) and the stale target is
// re-inserted as a live entry.
func TestC04InjectiveIndexKeepsStaleTargetOfEntryWithMetadata(t *testing.T) {
	st, err := store.Open(t.TempDir(), c04Opts(1, 4).WithMultiIndexing(true))
	if err != nil {
		t.Fatal(err)
	}
	defer st.Close()
	c04InitSQLLikeIndexes(t, st)
	md := store.NewKVMetadata()
	md.ExpiresAt(time.Date(2100, 1, 1, 0, 0, 0, 0, time.UTC))
	c04Commit(t, st, nil, "r/other", "x")
	c04Commit(t, st, md, "r/row", "A")
	c04Commit(t, st, nil, "r/row", "B")
	if err := st.WaitForIndexingUpto(context.Background(), 3); err != nil {
		t.Fatal(err)
	}
	if ref, err := st.Get(context.Background(), []byte("s/A/row")); err == nil {
		t.Fatalf("the stale secondary entry s/A/row is still live (tx %d, metadata deleted=%v)", ref.Tx(), ref.KVMetadata().Deleted())
	}
}

// signature read/Snapshot.History/revision
//
// Snapshot.History numbers the returned versions hCount, hCount-1, ... whatever the order and offset.
func TestC04SnapshotHistoryRevisions(t *testing.T) {
	st, err := store.Open(t.TempDir(), c04Opts(1, 4))
	if err != nil {
		t.Fatal(err)
	}
	defer st.Close()
	for i := 1; i <= 3; i++ {
		c04Commit(t, st, nil, "k", fmt.Sprintf("v%d", i))
	}
	snap, err := st.SnapshotMustIncludeTxID(context.Background(), nil, 3)
	if err != nil {
		t.Fatal(err)
	}
	defer snap.Close()
	refs, _, err := snap.History([]byte("k"), 0, false, 10)
	if err != nil {
		t.Fatal(err)
	}
	for i, ref := range refs {
		if ref.Tx() != uint64(i+1) || ref.HC() != uint64(i+1) {
			t.Errorf("ascending history #%d: tx %d revision %d, want tx %d revision %d", i, ref.Tx(), ref.HC(), i+1, i+1)
		}
	}
	refs, _, err = snap.History([]byte("k"), 1, true, 10)
	if err != nil {
		t.Fatal(err)
	}
	if len(refs) != 2 || refs[0].HC() != 2 || refs[1].HC() != 1 {
		t.Errorf("descending history from offset 1: revisions %d,%d want 2,1", refs[0].HC(), refs[1].HC())
	}
}

// no monitor signature (a hang, which the C04 monitor records as inconclusive): indexer wedged after a compaction
//
// restartIndex reopens the tree with tbtree.GetOptions(), which leaves out the flush callback that gives the
// buffered-data budget back to the store (and the configured MaxBufferedDataSize): after a compaction the
// budget is only ever taken, and once MaxGlobalBufferedDataSize bytes were indexed the indexer stalls for
// good (WaitForIndexingUpto and Commit never return). A small budget shows it at once.
func TestC04CompactionKeepsBufferedDataBudget(t *testing.T) {
	o := c04Opts(1, 4)
	o.WithIndexOptions(o.IndexOpts.WithMaxBufferedDataSize(1000).WithMaxGlobalBufferedDataSize(1000))
	st, err := store.Open(t.TempDir(), o)
	if err != nil {
		t.Fatal(err)
	}
	defer st.Close()
	for i := 0; i < 800; i++ {
		c04Commit(t, st, nil, fmt.Sprintf("key%04d", i), "v")
	}
	if err := st.WaitForIndexingUpto(context.Background(), 800); err != nil {
		t.Fatal(err)
	}
	for round := 1; round <= 3; round++ {
		if err := st.FlushIndexes(0, true); err != nil {
			t.Fatal(err)
		}
		if err := st.CompactIndexes(); err != nil {
			t.Fatal(err)
		}
		for i := 0; i < 100; i++ {
			c04Commit(t, st, nil, fmt.Sprintf("key%04d", i), fmt.Sprint(round))
		}
		ctx, cancel := context.WithTimeout(context.Background(), 30*time.Second)
		err = st.WaitForIndexingUpto(ctx, st.LastCommittedTxID())
		cancel()
		if err != nil {
			t.Fatalf("after %d compaction(s) indexing does not catch up any more (the buffered-data budget is never released): %v", round, err)
		}
	}
}

// signature index/compaction/ts-recedes-stale-read (fixed meanwhile in /repo by commit 3daf8b3)
//
// CompactIndexes reopens the index from the dump taken when the compaction started; what was
// indexed meanwhile is dropped while WaitForIndexingUpto keeps answering from its old mark.
func TestC04CompactionStaleRead(t *testing.T) {
	st, err := store.Open(t.TempDir(), c04Opts(1, 4))
	if err != nil {
		t.Fatal(err)
	}
	defer st.Close()
	for i := 0; i < 2000; i++ {
		c04Commit(t, st, nil, fmt.Sprintf("key%04d", i), "old")
	}
	var indexed atomic.Uint64 // greatest tx id for which WaitForIndexingUpto returned; tx id N wrote key "new<N>"
	for attempt := 0; attempt < 10; attempt++ {
		if err := st.WaitForIndexingUpto(context.Background(), st.LastCommittedTxID()); err != nil {
			t.Fatal(err)
		}
		if err := st.FlushIndexes(0, true); err != nil {
			t.Fatal(err)
		}
		stop := make(chan struct{})
		stopped := make(chan struct{})
		go func() {
			// keeps writing, and waiting for the index, while the compaction runs
			defer close(stopped)
			for {
				select {
				case <-stop:
					return
				default:
				}
				id := c04Commit(t, st, nil, fmt.Sprintf("new%d", st.LastCommittedTxID()+1), "v")
				if st.WaitForIndexingUpto(context.Background(), id) == nil {
					indexed.Store(id)
				}
			}
		}()
		err := st.CompactIndexes()
		// a tx that was indexed before the compacted index was swapped in
		id := indexed.Load()
		if err != nil {
			t.Fatal(err)
		}
		if id > 0 {
			if err := st.WaitForIndexingUpto(context.Background(), id); err != nil {
				t.Fatal(err)
			}
			ref, err := st.Get(context.Background(), []byte(fmt.Sprintf("new%d", id)))
			if err != nil || ref.Tx() != id {
				close(stop)
				<-stopped
				t.Fatalf("attempt %d: tx %d was indexed and WaitForIndexingUpto(%d) returns, but Get(new%d) after CompactIndexes fails: %v (a stale read: the index went back in time)", attempt, id, id, id, err)
			}
		}
		close(stop)
		<-stopped
	}
}
