// Standalone reproduction of the store-level C01 finding repaired by
// C01-verifydualproofv2-same-tx-two-alhs.patch. Copy into /repo/embedded/store as
// c01_repro_test.go and run: go test -vet=off -count=1 -run TestC01 ./embedded/store/
package store

import (
	"context"
	"testing"

	"github.com/stretchr/testify/require"
)

// A client trusts (tx 2, alh A). The server answers with a DIFFERENT tx 2 (another
// timestamp, so another alh B) as "target". VerifyDualProofV2 returns nil although the
// same transaction id cannot have two accumulated hashes: sourceTxID == targetTxID
// returns before sourceAlh and targetAlh are compared.
func TestC01VerifyDualProofV2SameTxTwoAlhs(t *testing.T) {
	st, err := Open(t.TempDir(), DefaultOptions().WithMaxConcurrency(2).WithMaxTxEntries(4).WithMaxKeyLen(16))
	require.NoError(t, err)
	defer st.Close()

	var hdrs []*TxHeader
	for i := 0; i < 3; i++ {
		tx, err := st.NewWriteOnlyTx(context.Background())
		require.NoError(t, err)
		require.NoError(t, tx.Set([]byte{'k', byte(i)}, nil, []byte{'v', byte(i)}))
		h, err := tx.Commit(context.Background())
		require.NoError(t, err)
		hdrs = append(hdrs, h)
	}

	real := hdrs[1] // tx 2
	proof, err := st.DualProofV2(real, real)
	require.NoError(t, err)

	forged := *real
	forged.Ts += 1000 // any forged content: another Eh would do as well
	proof.TargetTxHeader = &forged
	require.NotEqual(t, real.Alh(), forged.Alh())

	err = VerifyDualProofV2(proof, 2, 2, real.Alh(), forged.Alh())
	require.Error(t, err, "tx 2 verified with two different alh values: trusted %x, accepted %x", real.Alh(), forged.Alh())
}
