package store_test

// Standalone reproductions of the C07 findings (copy next to embedded/store/*_test.go and run
//   go test -vet=off -count=1 -run 'TestC07' ./embedded/store/ ).

import (
	"context"
	"crypto/sha256"
	"encoding/binary"
	"testing"

	"github.com/codenotary/immudb/embedded/store"
)

func c07Commit(t *testing.T, st *store.ImmuStore, k, v string) {
	tx, err := st.NewWriteOnlyTx(context.Background())
	if err != nil {
		t.Fatal(err)
	}
	tx.Set([]byte(k), nil, []byte(v))
	if _, err := tx.Commit(context.Background()); err != nil {
		t.Fatal(err)
	}
}

// tx 1 precommitted again after DiscardPrecommittedTxsSince(1) takes the BlRoot left in the pooled tx holder.
func TestC07StaleBlRootAfterDiscardToZero(t *testing.T) {
	opts := store.DefaultOptions().WithMaxConcurrency(1)
	p, err := store.Open(t.TempDir(), opts)
	if err != nil {
		t.Fatal(err)
	}
	defer p.Close()
	c07Commit(t, p, "a", "1")
	c07Commit(t, p, "b", "2")
	r, err := store.Open(t.TempDir(), opts.WithExternalCommitAllowance(true))
	if err != nil {
		t.Fatal(err)
	}
	defer r.Close()
	holder := store.NewTx(opts.MaxTxEntries, opts.MaxKeyLen)
	var exp [][]byte
	for id := uint64(1); id <= 2; id++ {
		b, err := p.ExportTx(id, false, false, holder)
		if err != nil {
			t.Fatal(err)
		}
		exp = append(exp, append([]byte(nil), b...))
		if _, err := r.ReplicateTx(context.Background(), exp[id-1], false, false); err != nil {
			t.Fatal(err)
		}
	}
	if _, err := r.DiscardPrecommittedTxsSince(1); err != nil {
		t.Fatal(err)
	}
	hdr, err := r.ReplicateTx(context.Background(), exp[0], false, false)
	if err != nil {
		t.Fatal(err)
	}
	want, _ := p.ReadTxHeader(1, false, false)
	if hdr.Alh() != want.Alh() {
		t.Fatalf("tx 1 replicated after discarding everything: BlTxID=%d BlRoot=%x alh=%x, primary's alh=%x", hdr.BlTxID, hdr.BlRoot[:6], hdr.Alh(), want.Alh())
	}
}

// an export whose timestamp was changed is accepted with an Alh that is not the primary's.
func TestC07AlteredTimestampAccepted(t *testing.T) {
	opts := store.DefaultOptions().WithMaxConcurrency(1)
	p, _ := store.Open(t.TempDir(), opts)
	defer p.Close()
	c07Commit(t, p, "a", "1")
	r, _ := store.Open(t.TempDir(), opts)
	defer r.Close()
	b, err := p.ExportTx(1, false, false, store.NewTx(opts.MaxTxEntries, opts.MaxKeyLen))
	if err != nil {
		t.Fatal(err)
	}
	b = append([]byte(nil), b...)
	// hdrLen(4) id(8) prevAlh(32) ts(8)
	ts := binary.BigEndian.Uint64(b[4+8+32:])
	binary.BigEndian.PutUint64(b[4+8+32:], ts+1)
	hdr, err := r.ReplicateTx(context.Background(), b, false, false)
	want, _ := p.ReadTxHeader(1, false, false)
	if err == nil && hdr.Alh() != want.Alh() {
		id, alh := r.CommittedAlh()
		t.Fatalf("altered export accepted: replica committed %d/%x, primary's alh %x", id, alh[:6], want.Alh())
	}
}

// with skipIntegrityCheck a changed value is accepted.
func TestC07SkipIntegrityAlteredValueAccepted(t *testing.T) {
	opts := store.DefaultOptions().WithMaxConcurrency(1)
	p, _ := store.Open(t.TempDir(), opts)
	defer p.Close()
	c07Commit(t, p, "a", "honest")
	r, _ := store.Open(t.TempDir(), opts)
	defer r.Close()
	b, err := p.ExportTx(1, false, true, store.NewTx(opts.MaxTxEntries, opts.MaxKeyLen))
	if err != nil {
		t.Fatal(err)
	}
	b = append([]byte(nil), b...)
	copy(b[len(b)-3-6:], "forged") // the value sits right before the 3-byte truncation tail
	hdr, err := r.ReplicateTx(context.Background(), b, true, false)
	want, _ := p.ReadTxHeader(1, false, false)
	if err == nil && hdr.Alh() != want.Alh() {
		t.Fatalf("altered value accepted with skipIntegrityCheck: replica alh %x, primary's %x", hdr.Alh(), want.Alh())
	}
}

// acknowledged precommits written after a discard are lost by a clean restart.
func TestC07PrecommitLostAfterDiscardAndRestart(t *testing.T) {
	opts := store.DefaultOptions().WithMaxConcurrency(1)
	p, _ := store.Open(t.TempDir(), opts)
	defer p.Close()
	for i := 0; i < 5; i++ {
		c07Commit(t, p, "k", string(rune('a'+i)))
	}
	dir := t.TempDir()
	ropts := store.DefaultOptions().WithMaxConcurrency(1).WithExternalCommitAllowance(true)
	r, _ := store.Open(dir, ropts)
	holder := store.NewTx(opts.MaxTxEntries, opts.MaxKeyLen)
	exp := map[uint64][]byte{}
	for id := uint64(1); id <= 5; id++ {
		b, _ := p.ExportTx(id, false, false, holder)
		exp[id] = append([]byte(nil), b...)
	}
	rep := func(id uint64) {
		if _, err := r.ReplicateTx(context.Background(), exp[id], false, false); err != nil {
			t.Fatal(id, err)
		}
	}
	rep(1)
	rep(2)
	rep(3)
	r.AllowCommitUpto(1)
	if _, err := r.DiscardPrecommittedTxsSince(3); err != nil {
		t.Fatal(err)
	}
	rep(3)
	rep(4)
	rep(5) // ReplicateTx returned: durable precommit of 3,4,5
	if id, _ := r.PrecommittedAlh(); id != 5 {
		t.Fatal("precommitted", id)
	}
	r.Close()
	r, err := store.Open(dir, ropts)
	if err != nil {
		t.Fatal(err)
	}
	defer r.Close()
	if id, _ := r.PrecommittedAlh(); id != 5 {
		t.Fatalf("after a clean restart the precommitted id is %d, ReplicateTx had acknowledged 5", id)
	}
}

var _ = sha256.Size
