// Reproductions for the C17 findings. Copy into /repo/embedded/appendable/multiapp/
// (package multiapp) and run:  go test -vet=off -count=1 -run TestC17 ./embedded/appendable/multiapp/
package multiapp

import (
	"bytes"
	"math/rand"
	"path/filepath"
	"sync"
	"sync/atomic"
	"testing"

	"github.com/codenotary/immudb/embedded/appendable/singleapp"
)

// (1) singleapp.readAt reads len(bs) bytes from the file even beyond fileOffset:
// preallocated zeros (or bytes left behind by SetOffset) shadow the write buffer.
func TestC17ReadAtPreallocShadowsWriteBuffer(t *testing.T) {
	app, err := singleapp.Open(filepath.Join(t.TempDir(), "a.aof"),
		singleapp.DefaultOptions().WithPreallocSize(64).WithRetryableSync(false).WithWriteBuffer(make([]byte, 8)))
	if err != nil {
		t.Fatal(err)
	}
	defer app.Close()
	app.SetOffset(0) // a fresh preallocated file reports Size()==64
	data := []byte("ABCDEFGHIJKL") // 8 bytes get flushed when the buffer is full, 4 stay buffered
	if _, _, err := app.Append(data); err != nil {
		t.Fatal(err)
	}
	got := make([]byte, 12)
	n, err := app.ReadAt(got, 0)
	if n != 12 || err != nil || !bytes.Equal(got, data) {
		t.Fatalf("ReadAt(12 bytes at 0) = %q n=%d err=%v, appended %q", got, n, err, data)
	}
}

func TestC17ReadAtAfterSetOffsetReturnsOldBytes(t *testing.T) {
	app, err := singleapp.Open(filepath.Join(t.TempDir(), "a.aof"),
		singleapp.DefaultOptions().WithRetryableSync(false).WithWriteBuffer(make([]byte, 8)))
	if err != nil {
		t.Fatal(err)
	}
	defer app.Close()
	app.Append([]byte("0123456789abcdef"))
	app.Flush()
	app.SetOffset(4)
	app.Append([]byte("XXXXXXXXXXXX")) // 8 flushed at [4,12), 4 buffered at [12,16)
	got := make([]byte, 16)
	n, err := app.ReadAt(got, 0)
	if want := []byte("0123XXXXXXXXXXXX"); n != 16 || err != nil || !bytes.Equal(got, want) {
		t.Fatalf("ReadAt = %q n=%d err=%v, want %q", got, n, err, want)
	}
}

// (2) SetOffset never truncates: the cut-off tail is back after reopening.
func TestC17SetOffsetTailResurrectedByReopen(t *testing.T) {
	dir := filepath.Join(t.TempDir(), "m")
	opts := DefaultOptions().WithFileSize(16)
	app, err := Open(dir, opts)
	if err != nil {
		t.Fatal(err)
	}
	app.Append(bytes.Repeat([]byte("a"), 40)) // three chunks
	app.Flush()
	if err := app.SetOffset(5); err != nil {
		t.Fatal(err)
	}
	app.Flush()
	sz, _ := app.Size()
	app.Close()
	app, err = Open(dir, opts)
	if err != nil {
		t.Fatal(err)
	}
	defer app.Close()
	sz2, _ := app.Size()
	if sz != 5 || sz2 != sz {
		t.Fatalf("Size() before close = %d, after reopen = %d", sz, sz2)
	}
}

// (3) appendableFor returns mf.currApp after releasing the mutex: a reader can be handed the
// chunk Append has just rotated to (wrong bytes / EOF), and (4) the final cache lookup can miss
// ("key not found"). Probabilistic: a stress loop.
func TestC17ConcurrentReadersDuringRotation(t *testing.T) {
	for iter := 0; iter < 300 && !t.Failed(); iter++ {
		const fs = 256
		app, err := Open(filepath.Join(t.TempDir(), "m"), DefaultOptions().WithFileSize(fs).WithMaxOpenedFiles(1).WithWriteBufferSize(64).WithRetryableSync(false))
		if err != nil {
			t.Fatal(err)
		}
		var mu sync.Mutex
		var model []byte
		var stop atomic.Bool
		var wg sync.WaitGroup
		add := func(n int) {
			b := make([]byte, n)
			rand.Read(b)
			if off, _, err := app.Append(b); err != nil || off != int64(len(model)) {
				t.Errorf("append: off=%d err=%v", off, err)
			}
			mu.Lock()
			model = append(model, b...)
			mu.Unlock()
		}
		add(100)
		for r := 0; r < 3; r++ {
			wg.Add(1)
			go func(seed int64) {
				defer wg.Done()
				rr := rand.New(rand.NewSource(seed))
				for !stop.Load() {
					mu.Lock()
					snap := model
					mu.Unlock()
					off := rr.Intn(len(snap))
					n := 1 + rr.Intn(len(snap)-off)
					bs := make([]byte, n)
					rn, err := app.ReadAt(bs, int64(off))
					if err != nil || rn != n || !bytes.Equal(bs, snap[off:off+n]) {
						t.Errorf("iter %d: ReadAt(len=%d, off=%d) of %d acknowledged bytes: n=%d err=%v equal=%v", iter, n, off, len(snap), rn, err, bytes.Equal(bs[:rn], snap[off:off+rn]))
						return
					}
				}
			}(int64(iter*10 + r))
		}
		for i := 0; i < 200; i++ {
			add(1 + rand.Intn(300))
		}
		stop.Store(true)
		wg.Wait()
		app.Close()
	}
}
