#!/bin/bash
# seed_ingest.sh <Cxx> <worktree> <pkgdir-for-demo> <test-regex> [pkgs to test]
# Confirms a seeded change (demo fails with it, passes without; existing tests of the touched packages pass with it),
# stores it under /verif/seeded/<id>-<n>/ and prints the verdict. Never touches /repo.
set -u
. /verif/bin/env.sh
id=$1; wt=$2; pkg=$3; rx=$4; shift 4; pkgs="$*"
cd "$wt" || exit 2
[ -f SEED/patch.diff ] || { echo "no SEED/patch.diff"; exit 2; }
n=1; while [ -d /verif/seeded/$id-$n ]; do n=$((n+1)); done
dst=/verif/seeded/$id-$n
git checkout -q -- . 2>/dev/null
git apply SEED/patch.diff || { echo "patch does not apply"; exit 2; }
demo=$(ls SEED/*_test.go | head -1)
cp "$demo" "$pkg/zz_seed_demo_test.go"
echo "== demo WITH change (expect FAIL)"
go test -vet=off -count=1 -run "$rx" "./$pkg/" > /tmp/seed_with.$id.log 2>&1; w=$?
tail -3 /tmp/seed_with.$id.log
git apply -R SEED/patch.diff
echo "== demo WITHOUT change (expect ok)"
go test -vet=off -count=1 -run "$rx" "./$pkg/" > /tmp/seed_without.$id.log 2>&1; wo=$?
tail -2 /tmp/seed_without.$id.log
rm -f "$pkg/zz_seed_demo_test.go"
git apply SEED/patch.diff
echo "== existing tests WITH change: $pkgs"
go test -vet=off -count=1 $pkgs 2>&1 | grep -E "^(ok|FAIL|--- FAIL)" | grep -v "TestOpenFail\|TestImmudbStoreEdgeCases\|TestInvalidOpening" > /tmp/seed_tests.$id.log
cat /tmp/seed_tests.$id.log
if [ $w -ne 0 ] && [ $wo -eq 0 ]; then
  mkdir -p $dst; cp SEED/patch.diff $dst/; cp "$demo" $dst/; cp SEED/meta.json $dst/meta.agent.json 2>/dev/null
  echo "CONFIRMED -> $dst"
else
  echo "NOT CONFIRMED (with=$w without=$wo)"
fi
