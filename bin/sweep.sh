#!/bin/bash
# sweep.sh <seed> <tier> <ids...> : runs checks sequentially, one summary line each into /var/tmp/sweep-<seed>-<tier>.log
seed=$1; tier=$2; shift 2
out=/var/tmp/sweep-$seed-$tier.log
for id in "$@"; do
  start=$(date +%s)
  VERIF_SEED=$seed /verif/check $id --tier $tier > /var/tmp/sweep-$id-$seed-$tier.out 2>&1; rc=$?
  echo "$id rc=$rc $(( $(date +%s)-start ))s $(grep -E '^SUMMARY' /var/tmp/sweep-$id-$seed-$tier.out | cut -c1-200)" >> $out
  grep -E "violation signature|^INCONCLUSIVE" /var/tmp/sweep-$id-$seed-$tier.out | cut -c1-300 | head -12 | sed 's/^/    /' >> $out
done
echo DONE >> $out
