#!/bin/bash
# The repository's pinned suite with the verif tag OFF (root module and nested test modules).
here="$(cd "$(dirname "$0")/.." && pwd)"
. "$here/bin/env.sh"
rc=0
for m in . ./test/columns ./test/document_storage_tests/documents_tests ./test/document_storage_tests/documents_tests_deprecated ./test/e2e/truncation; do
  [ -d "/repo/$m" ] || continue
  (cd "/repo/$m" && go test -mod=mod -json -vet=off -count=1 -timeout 25m ./...) || rc=1
done
exit $rc
