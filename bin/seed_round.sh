#!/bin/bash
# seed_round.sh <Cxx> <worktree>: ingest a seeded change (demo dir / regex / packages from SEED/meta.json),
# run the registered quick check against the worktree, write seeded/<id>-<n>/meta.json with the verdict.
set -u
id=$1; wt=$2
. /verif/bin/env.sh
read -r dd rx pk < <(python3 - "$wt" <<'PY'
import json,sys
m=json.load(open(sys.argv[1]+'/SEED/meta.json'))
import re
pk=' '.join('./'+re.sub(r'^(\./|github.com/codenotary/immudb/)','',p.split()[0]).strip('/') for p in m.get('packages_tested',[m['demo_dir']]) if p and not p.startswith('('))
print(m['demo_dir'].strip('./'), m['demo_run'].replace(' ','') , pk)
PY
)
out=/var/tmp/seedround-$id.log
/verif/bin/seed_ingest.sh $id $wt $dd "$rx" $pk > $out 2>&1
dst=$(grep -o "CONFIRMED -> .*" $out | awk '{print $3}')
if [ -z "$dst" ] || grep -q "NOT CONFIRMED" $out; then echo "$id NOT CONFIRMED (see $out)"; tail -15 $out; exit 1; fi
(cd /verif && VERIF_SEED=1 VERIF_REPO=$wt ./check $id > /var/tmp/seedround-$id.check 2>&1; echo rc=$? >> /var/tmp/seedround-$id.check)
python3 - "$id" "$wt" "$dst" <<'PY'
import json,sys,re
id,wt,dst=sys.argv[1:]
a=json.load(open(wt+'/SEED/meta.json'))
chk=open(f'/var/tmp/seedround-{id}.check',errors='replace').read()
summ=[l for l in chk.splitlines() if l.startswith('SUMMARY')]
rc=re.search(r'rc=(\d+)\s*$',chk).group(1)
sigs=sorted(set(re.findall(r'violation signature[= ]+(\S+)',chk)))
verdict=("./check %s (quick, seed 1): VIOLATION %s"%(id,', '.join(sigs[:6])+(' and %d more'%(len(sigs)-6) if len(sigs)>6 else ''))) if rc=='1' else ("MISSED by ./check %s quick at seed 1 when first run (%s)"%(id,summ[-1] if summ else 'no summary'))
m={"property":id,"source":"independent sub-agent given only the property text, a hint to avoid the areas of the earlier seeded changes, and its own worktree",
   "what_it_breaks":a.get('what_it_breaks'),"needs_to_manifest":a.get('needs_to_manifest'),
   "confirmed":"bin/seed_ingest.sh: demo fails with the change, passes without; existing tests of the touched packages pass with it (root-only failures aside)",
   "detected_by":verdict,"run_as":f"VERIF_REPO={wt} ./check {id}"}
json.dump(m,open(dst+'/meta.json','w'),indent=1)
print(id,'rc',rc,dst); print(' ',verdict[:400]); print(' ',summ[-1][:200] if summ else '')
PY
grep -E "existing tests|^FAIL|--- FAIL" $out | head -5
