#!/usr/bin/env python3
"""Compares `go test -json` output (stdin or file) of bin/baseline_off.sh with BASELINE.json's stable_pass list."""
import json, sys
base = json.load(open('/root/.vp/BASELINE.json'))
stable = set(base['stable_pass'])
res = {}
src = open(sys.argv[1]) if len(sys.argv) > 1 else sys.stdin
for line in src:
    line = line.strip()
    if not line.startswith('{'):
        continue
    try:
        e = json.loads(line)
    except Exception:
        continue
    if e.get('Action') in ('pass', 'fail', 'skip') and e.get('Test'):
        res[f"{e['Package']}::{e['Test']}"] = e['Action']
failed = sorted(t for t in stable if res.get(t) == 'fail')
missing = sorted(t for t in stable if t not in res)
print(f"stable_pass={len(stable)} seen={len(res)} stable_failed={len(failed)} stable_missing={len(missing)}")
for t in failed[:50]:
    print("FAILED", t)
for t in missing[:20]:
    print("MISSING", t)
sys.exit(1 if failed or missing else 0)
