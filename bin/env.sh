# Source this file: toolchain environment for every /verif command (offline).
_gomc="${GOMODCACHE:-/root/go/pkg/mod}"
_tc="$_gomc/golang.org/toolchain@v0.0.1-go1.25.0.linux-amd64/bin"
if [ -x "$_tc/go" ]; then PATH="$_tc:$PATH"; fi
export PATH
export GOTOOLCHAIN=local GOFLAGS=-mod=mod GOPROXY=off GOSUMDB=off
export VERIF_ROOT="${VERIF_ROOT:-/verif}"
export VERIF_SCRATCH="${VERIF_SCRATCH:-/var/tmp/verif-scratch}"
