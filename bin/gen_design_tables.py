#!/usr/bin/env python3
"""Rewrites the generated tables of DESIGN.md (between the GENERATED markers) from /repo's git log,
known_findings.json, /verif/mutants and /verif/seeded."""
import json, subprocess, re, os, glob
ROOT='/verif'
kf=json.load(open(f'{ROOT}/known_findings.json'))['findings']
log=subprocess.check_output(['git','-C','/repo','log','--reverse','--format=%h\t%s']).decode().splitlines()
bycommit={}
for f in kf:
    if f.get('commit'): bycommit.setdefault(f['commit'][:7],set()).add(f['property'])
out=[]
out.append('#### Repairs (`fix:` commits in /repo, oldest first)\n')
out.append('| commit | found by | what |\n|---|---|---|')
for l in log:
    h,s=l.split('\t',1)
    if not s.startswith('fix:'): continue
    props=', '.join(sorted(bycommit.get(h[:7],[]))) or '—'
    out.append(f'| `{h}` | {props} | {s[5:]} |')
out.append('\n#### Hook commits (build tag `verif`, add-only)\n')
for l in log:
    h,s=l.split('\t',1)
    if s.startswith('verifhook'): out.append(f'* `{h}` {s}')
out.append('\n#### Open findings (`known_findings.json`, status open: genuine defects recorded, not repaired)\n')
out.append('| property | signature | what fails |\n|---|---|---|')
for f in sorted(kf,key=lambda x:(x['property'],x['signature'])):
    if f['status']!='open': continue
    w=f['what'].replace('|','\\|').replace('\n',' ')
    if len(w)>420: w=w[:417]+'…'
    out.append(f"| {f['property']} | `{f['signature']}` | {w} |")
gen1='\n'.join(out)
# mutants / seeded
out=[]
out.append('| change | property | written by | caught by (signature) |\n|---|---|---|---|')
res={}
rp=f'{ROOT}/mutants/RESULTS.json'
if os.path.exists(rp): res=json.load(open(rp))
for p in sorted(glob.glob(f'{ROOT}/mutants/C*.patch')):
    n=os.path.basename(p)[:-6]
    out.append(f"| mutants/{n} | {n[:3]} | monitor author | {res.get(n,'caught in the quick tier (see the monitor report in 7.6)')} |")
for d in sorted(glob.glob(f'{ROOT}/seeded/*/')):
    mp=d+'meta.json'
    if not os.path.exists(mp): continue
    m=json.load(open(mp))
    out.append(f"| seeded/{os.path.basename(d[:-1])} | {m['property']} | independent sub-agent | {m.get('detected_by','?')} |")
gen2='\n'.join(out)
s=open(f'{ROOT}/DESIGN.md').read()
def put(s,tag,body):
    a=f'<!-- GENERATED:{tag} -->'; b=f'<!-- /GENERATED:{tag} -->'
    if a not in s: s+=f'\n{a}\n{b}\n'
    return re.sub(re.escape(a)+'.*?'+re.escape(b), lambda m:a+'\n'+body+'\n'+b, s, flags=re.S)
s=put(s,'findings',gen1); s=put(s,'changes',gen2)
open(f'{ROOT}/DESIGN.md','w').write(s)
print('ok')
