#!/usr/bin/env python3
"""Prints the prompt given to an independent sub-agent that writes a property-breaking change (nothing from /verif)."""
import json, sys
pid = sys.argv[1]; wt = sys.argv[2]; hint = sys.argv[3] if len(sys.argv) > 3 else ""
p = [json.loads(l) for l in open('/verif/properties.jsonl') if json.loads(l)['id'] == pid][0]
print(f"""You are testing how well a database's test suite pins one of its semantic properties. The database is immudb (Go, module github.com/codenotary/immudb): an immutable, tamper-evident database with an append-only tx log, Merkle proofs, B-tree index, MVCC, SQL, documents and replication. You have your own scratch git worktree of it at {wt} — work ONLY there (never touch /repo, /verif or any other directory; do not read anything under /verif).

Environment for every shell call (no network; Go toolchain is local):
export PATH=/root/go/pkg/mod/golang.org/toolchain@v0.0.1-go1.25.0.linux-amd64/bin:$PATH GOFLAGS=-mod=mod GOPROXY=off GOSUMDB=off GOTOOLCHAIN=local
(The machine is heavily loaded by other jobs: package test runs can take several minutes; use -run to select tests while iterating and run the full package tests only once at the end.)

The property ("{p['title']}"):
"{p['statement']} — {p['quantifier']['text']}"

Code most relevant: {', '.join(p['anchors']['files'][:8])}. {hint}

Your task: make ONE small, realistic change to the immudb source (the kind of slip a refactoring or an optimisation could introduce — not sabotage that is obvious at a glance) that BREAKS this property, while the code still compiles and the EXISTING tests of the packages you touched still pass. The change must need something specific to manifest — a particular interleaving, a crash or fault at a particular point, a multi-step sequence of operations, an unusual input or configuration, or two cooperating sites that each look fine alone — NOT something ordinary use would expose at once (a change that breaks the common path is useless: the existing tests would catch it).

Deliver, inside {wt}/SEED/ (create it):
1. patch.diff — `git diff` of your change (source files only, no test files).
2. demo_test.go — a Go test (package of your choice inside the worktree; say which directory it must be copied to and the exact `go test -run` command) that FAILS with the change and PASSES without it, showing the property being violated at the API level.
3. meta.json — {{"property":"{pid}","what_it_breaks":"…","needs_to_manifest":"…","files_changed":[…],"demo_dir":"<package dir for the demo>","demo_run":"<-run regex>","packages_tested":[…],"existing_tests":"what you ran with the change and the result"}}.
Verify all of it yourself: run the demonstration with and without the change (apply/revert the patch), and run `go test -vet=off -count=1` of the touched packages WITH the change to confirm the existing tests still pass (these fail even without any change because tests run as root — ignore them: embedded/ahtree TestOpenFail, embedded/store TestImmudbStoreEdgeCases/should_fail_with_permission_denied, embedded/tbtree TestInvalidOpening, pkg/client/cache TestHistoryFileCache_SetMissingFolder, pkg/streamutils TestStreamUtilsFiles, cmd/sservice TestSservice_IsAdmin). Leave the worktree with the change applied, no stray test files outside SEED/, and report briefly what you changed and why ordinary tests do not notice.""")
