#!/bin/bash
# Offline setup after a fresh restore: warm the build cache by building vcheck with hooks on.
set -e
here="$(cd "$(dirname "$0")/.." && pwd)"
. "$here/bin/env.sh"
mkdir -p "$here/harness/bin" "$here/evidence" "$here/replays" "$VERIF_SCRATCH"
cd "$here/harness"
cp /repo/go.sum go.sum
go build -tags verif ./internal/... ./cmd/vc/...
echo "setup ok: $(go version)"
