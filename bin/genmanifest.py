#!/usr/bin/env python3
"""Writes /verif/MANIFEST.json from the table below (kept in one place so it stays valid)."""
import json, os, sys
ROOT = os.path.dirname(os.path.dirname(os.path.abspath(__file__)))

CHECKS = {
 "C04": ("exploration", "runtime differential against a multi-version ordered map replayed from the ledger of acknowledged commits (one model per index, with the same mapper functions the harness gave the store): quiescent comparison of every read API after WaitForIndexingUpto, and concurrent reads judged against the window of states they may see",
         "Held on the configurations executed: 20 (index layout x MaxBulkSize in {1,2,3,8,64}) pairs quick (150 configurations thorough) with plain, prefixed, key-mapped and value-mapped (injective and not) indexes, tiny flush/sync thresholds, minimal node size, 1-8 node caches, small buffered-data limits, 1-8 writers, overwrites / deletes / fixed expiries / non-indexable / empty values / max-length keys, flush, compaction, snapshots and close/reopen interleaved, hook delays in the indexer; Get, GetWithFilters, GetBetween, GetWithPrefix, History, snapshots and key readers over all spec combinations compared on value, tx id, revision and metadata.",
         "Expiry uses the two fixed instants (2001 expired / 2100 not); a returned error alone is never a violation; pkg/database reads are covered by C06.", "DESIGN.md 2/C04"),
 "C09": ("fault_enumeration", "runtime fault enumeration: every single bit (and field-targeted, multi-bit and same-size splice alterations) of the located tx-log record and value-log bytes of pristine stores; each altered copy is opened and read through every integrity-checked path in a child process; oracle = error or exactly the original content, no panic, no confirmed hang",
         "Held on the alterations executed: 6 stores quick / 12 thorough (plain, flate, gzip, lzw, zlib value logs, embedded values, header v0/v1, tx and KV metadata, 1-3 value logs, several chunks per log): all single bits of two stores plus all length/offset/count fields and value extents of the others, ~40 k cases quick (~470 k thorough); Open, ReadTx, ReadTxHeader, ReadTxEntry, ReadValue, ExportTx, TxReader asc/desc, LinearProof, DualProof, then Get/History/Resolve after the index is rebuilt from the log.",
         "(vOff, vLen) are a locator judged where they are used; an export that degrades to digests plus the truncation flag counts as detection; memory is judged by C16 (calls with a corrupted length above 16 MiB are not made); file headers, commit log, hash tree and index files are outside C09's scope.", "DESIGN.md 2/C09"),
 "C07": ("exploration", "runtime monitoring of replication: store-to-store delivery schedules (out of order, duplicated, retried, restarts, discards, forks) with equality of histories/answers/proofs at quiescence and rejection-without-effect of ~20 k structure-aware altered or non-extending exports; pkg/database sync replication with the harness as the network and online ack-count / replica-not-ahead monitors",
         "Held on the schedules executed: L1 60 schedules x 80 txs quick (2000 thorough) incl. header v0/v1, tx and KV metadata, empty and truncated values, concurrent ReplicateTx inside the window, replica close/reopen, DiscardPrecommittedTxsSince, forked primaries; L2 40 schedules quick (800 thorough) of one primary with syncAcks=K and M>=K replicas with delayed, duplicated, reordered deliveries and replica restarts.",
         "The real TxReplicator over loopback (L3) is not driven; an altered export that is accepted but decodes to the primary's own tx is benign.", "DESIGN.md 2/C07"),
 "C01": ("exploration", "runtime oracle on verifier decisions: honest proofs of real store histories must verify (completeness); responses altered by ~190 single and combined mutation operators must not verify unless the claim they make is still true (soundness, judged by the accepted claim against a ledger); the unmodified client code is driven through a tamper layer",
         "Held on the histories and alterations executed: real store histories (1-40 txs quick, up to 300 thorough; header v0/v1, KV and tx metadata, lagging binary linking fed through ReplicateTx), all trusted/proven pairs when n<=40, ~0.8 M (quick) mutated verifications of VerifyDualProof/V2, VerifyLinearProof, VerifyLinearAdvanceProof, VerifyInclusion incl. self-consistent forgeries re-derived from a reference Merkle tree, and the real immuClient VerifiedGet/Set/TxByID/SetReference/ZAdd against an in-process database behind a protoreflect tamper layer.",
         "SHA-256; a false target that is a possible fork after the trusted tx is not held against the verifier; freshness and unauthenticated fields (revision, expired) are outside the statement; VerifiedSQLGet / document proofs are covered by C19 only.", "DESIGN.md 2/C01"),
 "C05": ("exploration", "runtime monitoring: logged transaction programs under concurrency, replayed offline in commit (header id) order on a multi-version map; every logged read of a committed RW tx must equal the read on S[id-1] plus own writes; conflicted/cancelled txs must leave no trace; read-only txs must be explained by one committed state per index",
         "Held on the schedules produced: 16 cases x ~19 rounds (quick; 400 cases thorough) of 4-8 RW goroutines + write-only committers + readers over 8-24 keys in 1-2 indexes, all read shapes of the API (point, filtered, prefix with exclusion, key readers asc/desc/seek/end/offset/reset/early stop/ReadBetween, prefix fingerprints), stale snapshots, hook-point perturbation, background flush/compaction; final index history compared with the model.",
         "Interleavings are those the Go scheduler and the verifhook points produce; spurious conflicts are counted, not judged; not-found vs expired answers are equal (ErrExpiredEntry wraps ErrKeyNotFound).", "DESIGN.md 2/C05"),
 "C06": ("exploration", "runtime monitoring of recorded client histories: porcupine linearizability check per key (version-list model incl. preconditions) + commit-order checker (real-time order, every read equals one state inside its call/return window, one state for all keys of a multi-key read, conditional writes judged on S[t-1])",
         "Held on the histories recorded: 400 rounds quick / 10 000 thorough of 4-16 clients x 16 operation kinds of pkg/database.DB (Set, multi-key Set, conditional Set, Delete, ExecAll, SetReference, ZAdd, Get incl. SinceTx/AtTx/AtRevision, GetAll, Scan, ZScan, History, Count) with unique values, tickets taken before call and after reply, background flush/compaction and hook perturbation.",
         "The lower bound of a read window is the committed frontier at call time (the default waiting semantics); porcupine timeouts are inconclusive; NoWait reads are outside the property.", "DESIGN.md 2/C06"),
 "C10": ("exploration", "runtime differential against a multi-version ordered map: PRNG operation sequences on the real tbtree, every answer (tree, snapshots frozen at their Ts, readers, history) compared; snapshots re-queried after every later mutation; reopen and compact+reopen compared",
         "Held on the sequences executed: 40 x 400 ops quick / 300 x 1500 thorough with minimal node sizes (depth up to ~20), keys at the size limit, 1-node caches, tiny files, all ReaderSpec combinations, FlushWith(any cleanup, sync), Compact, close/reopen with re-drawn options, thorough adds reader goroutines on open snapshots and background compaction.",
         "One writer (the API's contract); errors that are part of the API are predicted only where unambiguous; per-key history listing is capped to keep the oracle affordable.", "DESIGN.md 2/C10"),
 "C11": ("exploration", "runtime metamorphic monitoring: the same DML history on a twin table without secondary indexes, forced USE INDEX plans, ternary partition by a predicate, in-tx vs committed vs reopened, ORDER BY sortedness under a harness comparator; results of two executions of immudb itself are compared",
         "Held on the schemas and queries executed: 30 schemas x 60 queries x ~5 relations quick (1500 schemas thorough): all column types, nullable columns, composite/unique/late indexes, insert/upsert/on-conflict/update/delete/multi-statement txs, comparisons, ranges, IN, LIKE, IS NULL, boolean combinations, ORDER BY 1-3 columns, LIMIT/OFFSET under a total order, DISTINCT, GROUP BY with aggregates, joins, subqueries, historical queries; the access path of each side is recorded.",
         "No hand-written SQL semantics: only relations between executions; float aggregates, -0.0/+0.0 and far timestamps (known C15 findings) and NaN are not generated; an error on both sides of a relation is not judged.", "DESIGN.md 2/C11"),
 "C12": ("exploration", "runtime invariant monitoring: concurrent sessions run constraint-hostile DDL/DML; after commits a read-only scan checks PK/unique distinctness, NOT NULL, CHECK (engine and harness evaluators), lengths, generated keys; a permissive model applies committed transactions in store tx order and checks that no certainly-violating statement committed and that contents equal the model (atomicity)",
         "Held on the programs executed: 60 programs quick / 3000 thorough, 1-8 sessions, autocommit / implicit / BEGIN..COMMIT / stepwise transactions, ~45 % of statements aimed at one constraint (duplicate PK or unique tuple, NULL into NOT NULL, CHECK false, over-long value, wrong type, PK update, explicit auto-increment key, explicit and generated keys mixed inside one transaction with ON CONFLICT variants), concurrent and quiescent DDL, hook perturbation in a third of the programs.",
         "NULL semantics in unique indexes and the engine's extra rule on explicit auto-increment keys are left to the engine (either outcome accepted); only committed state is judged.", "DESIGN.md 2/C12"),
 "C13": ("exploration", "runtime monitoring against a reference interpreter of the generated SQL subset: per statement rows / affected-row counts / generated keys / error class; committed txs replayed in header-id order; uncommitted and read-only txs must be explained by one committed state in their window; final contents equal committed txs only; dead handles probed with Commit",
         "Held on the programs executed: 150 cases quick / 15000 thorough of 1-6 concurrent sessions x 4-8 transaction programs (insert, multi-row insert, upsert, update, delete, select, count, hinted index scans, injected failures, SAVEPOINT / ROLLBACK TO / RELEASE nested to 3, commit / rollback / cancel, read-only sessions, concurrent DDL commits with read-only transactions opened right after acknowledged commits) through the engine API.",
         "The generated subset only (integer PK, INTEGER/VARCHAR/BOOLEAN columns, NULL-unambiguous predicates); DDL inside transactions and the pkg/server session / PostgreSQL wire front-ends are not driven.", "DESIGN.md 2/C13"),
 "C14": ("exploration", "runtime monitoring against a ledger: after every truncation cut (copies, in place racing writers/readers, gated schedules via hook points) every tx is re-read (headers, proofs, exports for all ids; values, Get, History for ids >= cut); non-termination decided from goroutine state in two dumps, never from elapsed time; database-level truncation followed by restart and SQL/document use",
         "Held on the histories executed: 12 histories x all cuts quick / 400 thorough with 1-8 committers and hook delays after the value append (values out of id order), IO concurrency 1-4, file size 256 B-4 KiB, value cache 0/8/64, empty values first/middle/last/all, single/repeated/concurrent truncation, restart; ~570 truncations and ~1700 truncated txs observed per quick run.",
         "A hang is a violation only if the goroutines involved are parked on the same lock in two dumps 2 s apart; anything else that does not return is inconclusive.", "DESIGN.md 2/C14"),
 "C16": ("exploration", "runtime monitoring of decoding entry points in child processes: structure-aware mutations of valid encodings (every length/count/tag/flag field, truncation at every byte, bit flips) and random bytes; oracle = no panic (recover + process death attributed to the input), confirmed hang, allocation delta <= 256 MiB, no partial effect of ReplicateTx",
         "Held on the inputs executed (~300 k quick): TxHeader/TxMetadata.ReadFrom, appendable metadata, ReplicateTx on a live replica, singleapp/multiapp/store/ahtree/tbtree Open + reads on mutated files, schema.*FromProto + verifiers on proto messages mutated through protoreflect, SQL parser, pgsql message parsers, stream receivers.",
         "Executing arbitrary SQL is outside the deciding set; an allocation bounded by a declared limit passes; a slow Open with a huge persisted option is inconclusive.", "DESIGN.md 2/C16"),
 "C17": ("exploration", "runtime differential against a byte-slice model: PRNG operation sequences on singleapp and multiapp (all compression formats, chunk 64 B-64 KiB, write buffer 16 B-8 KiB, retryable x auto sync, prealloc, MaxOpenedFiles 1-3) with injected write/fsync faults via verifhook and reader goroutines during appends",
         "Held on the sequences executed: 300 x 300 ops quick / 12 000 sequences thorough: Append returns the model length, ReadAt returns the model bytes, SetOffset truncates, reopen and Copy find the same bytes/metadata/size, DiscardUpto leaves [off,size) intact, failed-then-retried flush/sync keeps the bytes.",
         "The strict n/EOF contract of ReadAt is enforced only when no bytes can physically sit beyond the logical end; compressed reads are addressed at entry offsets.", "DESIGN.md 2/C17"),
 "C18": ("exploration", "runtime monitoring of the real server over bufconn: full matrix method (discovered at run time from the gRPC service descriptors) x role x database selection x session state; oracle = digests of every database, its settings and the user table before/after each call + class rules given by the harness from the API's meaning",
         "Held on the matrix executed: 93 methods (all with a request builder) x {none,R,RW,Admin,SysAdmin} x {own,other,systemdb,none} x {no credentials, token, session, expired, deactivated, permission changed, two logins} = ~13 k cells, the permitted role exercised for every cell; thorough repeats with other request contents and adds calls in flight while the sysadmin deactivates or re-permissions the user.",
         "Method classes come from the harness (what the RPC does), not from permissions.go; filtered listings are not violations; CompactIndex/TruncateDatabase builders fail on state for the permitted role and count as trivial cells.", "DESIGN.md 2/C18"),
 "C19": ("exploration", "runtime metamorphic + model monitoring: twin collections (with/without indexes, indexes added and removed over time) must answer every search and count identically; a three-valued harness evaluator judges only definite cases; unique indexes, id lookup, audit trail, document proofs under 28 tamper operators judged by the claim",
         "Held on the collections executed: 40 cases x 80 operations quick / 2000 thorough through document.Engine and pkg/database: inserts, batch inserts, replace/delete by id and by query, AddField/RemoveField, CreateIndex/DeleteIndex; nested JSON, missing/null fields, numeric edges, unicode, strings around the 512-byte limit; OR of AND groups, all eight operators, ordering and paging under a total order.",
         "NULL/missing fields, LIKE, BOOLEAN/UUID ordering are left to the twin relation; -0.0/+0.0 in indexed doubles and NaN are not generated (known C15 findings).", "DESIGN.md 2/C19"),
 "C08": ("exploration", "runtime differential against an independent RFC 6962 / RFC 9162 reference: roots and proofs of the real ahtree/htree after PRNG operation sequences, and verifier decisions on honest and altered proof tuples",
         "Held on what was executed: 64 (quick) / 160 (thorough) ahtree operation sequences (append bursts with 0-300 byte payloads, ResetSize + re-append, Sync, Close/Open, cache 1 slot..default, tiny files) with Size/Root/RootAt/DataAt and all inclusion and consistency proofs for 1<=i<=j<=n compared exhaustively up to n=64 (200 thorough); htree for every width to 130 (1100) and every leaf; ~4 M (quick) verifier decisions on tuples altered by wrong index/size, dropped/extra/duplicated/flipped/reordered terms, swapped roots, other leaf.",
         "SHA-256; the strict RFC 9162 verification algorithm defines 'a correct proof for exactly the claimed positions and sizes'; a tuple valid for another tree shape is accepted by the reference too and not held against the implementation.", "DESIGN.md 2/C08"),
 "C03": ("fault_enumeration", "runtime monitoring + fault enumeration over recorded traces: os.File-level journal of real synced workloads, crash images at journal indexes under three loss models, recovery obligations checked on each image in a fresh process",
         "Every crash image is a state the real process + POSIX file system could have left at some journal index of a recorded execution (3 traces quick / 16 thorough; quick samples ~ 500 points per trace around fsyncs, creations, removals, acks plus PRNG points, thorough takes every journal index) under M0 process kill, M1 nothing un-fsynced, M2 per-file prefix with torn last write; on each the store must reopen, hold every acknowledged tx byte-identical, expose a dense chained frontier made only of txs it had issued, prove consistency from an acknowledged state, have an index that agrees with the log, and accept a new commit.",
         "Crash points and workloads are those of the recorded traces; arbitrary subsets of un-fsynced writes are not generated (the property quantifies over per-file prefixes); directory entries are durable at the following directory fsync; a step that hits a time limit is re-run alone with limits x10 before it can count.", "DESIGN.md 2/C03"),
 "C02": ("exploration", "runtime monitoring: ledger of acknowledged commits re-read (live, cold copy, after reopen) + online monitor on issued/committed hooks + Merkle reference for the chain, under concurrent committers with hook-point schedule perturbation",
         "Held on the executions produced: 8 (quick) / 64 (thorough) store configurations, each with 3-4 rounds of 4-12 concurrent committers (12 operation kinds incl. refused, conflicting and cancelled txs), maintenance (flush, compaction, sync, truncation), external-commit-allowance backlogs with discarding, and close/reopen cycles; every acknowledged tx is re-read and compared, the whole committed range is re-chained against an independent RFC 6962 root, every sampled state is checked retrospectively.",
         "Interleavings are those the Go scheduler and the verifhook points produce; SHA-256; a process death inside immudb code is reported as a violation (crash/...); a store that stops making progress is inconclusive, not a violation.", "DESIGN.md 2/C02"),
 # id: (category, technique, level text, level note, design ref)
 "C15": ("exploration", "runtime oracle: round-trip + order relation against an independent comparator over PRNG/boundary/neighbour values",
         "Held on the millions of generated values and pairs actually encoded and decoded by the real codecs (key and value encoders, tx header/metadata, proto conversions, ExportTx->ReplicateTx->ExportTx on live stores, ORDER BY through real indexes, and values entering the engine through CAST / implicit parameter coercion for every supported source->destination pair: stored = converted, equal values give equal keys, index lookup finds the row); no claim beyond the generated values.",
         "Trusts the harness comparator (numeric, IEEE with -0==+0, bytewise, chronological), SHA-256, and that NaN has no SQL order.", "DESIGN.md 2/C15"),
}

def main():
    props = [json.loads(l)["id"] for l in open(os.path.join(ROOT, "properties.jsonl"))]
    na_reasons = {}
    p = os.path.join(ROOT, "bin", "not_applicable.json")
    if os.path.exists(p):
        na_reasons = json.load(open(p))
    checks, na = [], []
    for pid in props:
        if pid in CHECKS:
            cat, tech, text, note, ref = CHECKS[pid]
            checks.append({
                "property_id": pid,
                "quick_cmd": f"./check {pid} --tier quick",
                "thorough_cmd": f"./check {pid} --tier thorough",
                "evidence_file": f"/verif/evidence/{pid}.json",
                "replay_cmd_template": f"./check {pid} --replay {{path}}",
                "engine": "vcheck",
                "level_claimed": {"category": cat, "text": text, "design_ref": ref},
                "level_note": note,
                "technique": tech,
            })
        else:
            na.append({"property_id": pid, "reason": na_reasons.get(pid, "no monitor registered yet: the runtime monitor designed for it in DESIGN.md section 2 has not been built; nothing is claimed")})
    hooks_commits = []
    hp = os.path.join(ROOT, "bin", "hook_commits.txt")
    if os.path.exists(hp):
        hooks_commits = [l.strip() for l in open(hp) if l.strip()]
    m = {
        "version": 1,
        "setup_cmd": "./bin/setup.sh",
        "hooks": {
            "guard": "verif",
            "enable": "go build -tags verif (the harness module /verif/harness replaces github.com/codenotary/immudb with /repo, so every check compiles /repo's working tree with the tag on)",
            "baseline_off_cmd": "./bin/baseline_off.sh",
            "source_commits": hooks_commits,
            "add_only": True,
        },
        "engines": [{"name": "vcheck", "path": "/verif/harness/cmd/vcheck", "serves_properties": [c["property_id"] for c in checks],
                     "kind_free_text": "Go binary linking the real immudb packages from /repo; one runtime monitor per property (workload generator + oracle over observed executions), child-process isolation, PRNG seeded by VERIF_SEED"}],
        "checks": checks,
        "not_applicable": na,
        "notes": "Technique family: runtime monitoring and sanitizers only. Exit 0 held / 1 VIOLATION / 2 inconclusive (observed nothing). Known findings: /verif/known_findings.json. See DESIGN.md.",
    }
    json.dump(m, open(os.path.join(ROOT, "MANIFEST.json"), "w"), indent=1)
    print("MANIFEST.json:", len(checks), "checks,", len(na), "not_applicable")

main()
