#!/usr/bin/env python3
"""Writes /verif/MANIFEST.json from the table below (kept in one place so it stays valid)."""
import json, os, sys
ROOT = os.path.dirname(os.path.dirname(os.path.abspath(__file__)))

CHECKS = {
 "C08": ("exploration", "runtime differential against an independent RFC 6962 / RFC 9162 reference: roots and proofs of the real ahtree/htree after PRNG operation sequences, and verifier decisions on honest and altered proof tuples",
         "Held on what was executed: 64 (quick) / 160 (thorough) ahtree operation sequences (append bursts with 0-300 byte payloads, ResetSize + re-append, Sync, Close/Open, cache 1 slot..default, tiny files) with Size/Root/RootAt/DataAt and all inclusion and consistency proofs for 1<=i<=j<=n compared exhaustively up to n=64 (200 thorough); htree for every width to 130 (1100) and every leaf; ~4 M (quick) verifier decisions on tuples altered by wrong index/size, dropped/extra/duplicated/flipped/reordered terms, swapped roots, other leaf.",
         "SHA-256; the strict RFC 9162 verification algorithm defines 'a correct proof for exactly the claimed positions and sizes'; a tuple valid for another tree shape is accepted by the reference too and not held against the implementation.", "DESIGN.md 2/C08"),
 "C03": ("fault_enumeration", "runtime monitoring + fault enumeration over recorded traces: os.File-level journal of real synced workloads, crash images at journal indexes under three loss models, recovery obligations checked on each image in a fresh process",
         "Every crash image is a state the real process + POSIX file system could have left at some journal index of a recorded execution (3 traces quick / 24 thorough; quick samples ~ 500 points per trace around fsyncs, creations, removals, acks plus PRNG points, thorough takes every journal index) under M0 process kill, M1 nothing un-fsynced, M2 per-file prefix with torn last write; on each the store must reopen, hold every acknowledged tx byte-identical, expose a dense chained frontier made only of txs it had issued, prove consistency from an acknowledged state, have an index that agrees with the log, and accept a new commit.",
         "Crash points and workloads are those of the recorded traces; arbitrary subsets of un-fsynced writes are not generated (the property quantifies over per-file prefixes); directory entries are durable at the following directory fsync; a step that hits a time limit is re-run alone with limits x10 before it can count.", "DESIGN.md 2/C03"),
 "C02": ("exploration", "runtime monitoring: ledger of acknowledged commits re-read (live, cold copy, after reopen) + online monitor on issued/committed hooks + Merkle reference for the chain, under concurrent committers with hook-point schedule perturbation",
         "Held on the executions produced: 8 (quick) / 64 (thorough) store configurations, each with 3-4 rounds of 4-12 concurrent committers (12 operation kinds incl. refused, conflicting and cancelled txs), maintenance (flush, compaction, sync, truncation), external-commit-allowance backlogs with discarding, and close/reopen cycles; every acknowledged tx is re-read and compared, the whole committed range is re-chained against an independent RFC 6962 root, every sampled state is checked retrospectively.",
         "Interleavings are those the Go scheduler and the verifhook points produce; SHA-256; a process death inside immudb code is reported as a violation (crash/...); a store that stops making progress is inconclusive, not a violation.", "DESIGN.md 2/C02"),
 # id: (category, technique, level text, level note, design ref)
 "C15": ("exploration", "runtime oracle: round-trip + order relation against an independent comparator over PRNG/boundary/neighbour values",
         "Held on the millions of generated values and pairs actually encoded and decoded by the real codecs (key and value encoders, tx header/metadata, proto conversions, ExportTx->ReplicateTx->ExportTx on live stores, ORDER BY through real indexes); no claim beyond the generated values.",
         "Trusts the harness comparator (numeric, IEEE with -0==+0, bytewise, chronological), SHA-256, and that NaN has no SQL order.", "DESIGN.md 2/C15"),
}

def main():
    props = [json.loads(l)["id"] for l in open(os.path.join(ROOT, "properties.jsonl"))]
    na_reasons = {}
    p = os.path.join(ROOT, "bin", "not_applicable.json")
    if os.path.exists(p):
        na_reasons = json.load(open(p))
    checks, na = [], []
    for pid in props:
        if pid in CHECKS:
            cat, tech, text, note, ref = CHECKS[pid]
            checks.append({
                "property_id": pid,
                "quick_cmd": f"./check {pid} --tier quick",
                "thorough_cmd": f"./check {pid} --tier thorough",
                "evidence_file": f"/verif/evidence/{pid}.json",
                "replay_cmd_template": f"./check {pid} --replay {{path}}",
                "engine": "vcheck",
                "level_claimed": {"category": cat, "text": text, "design_ref": ref},
                "level_note": note,
                "technique": tech,
            })
        else:
            na.append({"property_id": pid, "reason": na_reasons.get(pid, "no monitor registered yet: the runtime monitor designed for it in DESIGN.md section 2 has not been built; nothing is claimed")})
    hooks_commits = []
    hp = os.path.join(ROOT, "bin", "hook_commits.txt")
    if os.path.exists(hp):
        hooks_commits = [l.strip() for l in open(hp) if l.strip()]
    m = {
        "version": 1,
        "setup_cmd": "./bin/setup.sh",
        "hooks": {
            "guard": "verif",
            "enable": "go build -tags verif (the harness module /verif/harness replaces github.com/codenotary/immudb with /repo, so every check compiles /repo's working tree with the tag on)",
            "baseline_off_cmd": "./bin/baseline_off.sh",
            "source_commits": hooks_commits,
            "add_only": True,
        },
        "engines": [{"name": "vcheck", "path": "/verif/harness/cmd/vcheck", "serves_properties": [c["property_id"] for c in checks],
                     "kind_free_text": "Go binary linking the real immudb packages from /repo; one runtime monitor per property (workload generator + oracle over observed executions), child-process isolation, PRNG seeded by VERIF_SEED"}],
        "checks": checks,
        "not_applicable": na,
        "notes": "Technique family: runtime monitoring and sanitizers only. Exit 0 held / 1 VIOLATION / 2 inconclusive (observed nothing). Known findings: /verif/known_findings.json. See DESIGN.md.",
    }
    json.dump(m, open(os.path.join(ROOT, "MANIFEST.json"), "w"), indent=1)
    print("MANIFEST.json:", len(checks), "checks,", len(na), "not_applicable")

main()
